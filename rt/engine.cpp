// Perturbation engine, mode N (noise in real parallel execution).
// Called before every libcds atomic operation of the instrumented build. Driven only by the
// seed passed to cdsv_rt_configure (per-thread xorshift streams derived from seed and tid).
// No locks, no allocation: safe to call from the signal handler of the signal-handling RCU.
#include <cdsv/rt.h>
#include <atomic>
#include <sched.h>
#include <time.h>

namespace {
    struct config {
        std::atomic<uint64_t> seed{ 1 };
        std::atomic<uint32_t> threshold{ 0 };    // delay if (r32 < threshold)
        std::atomic<uint32_t> stalls{ 0 };
        std::atomic<uint64_t> horizon{ 1000 };
        std::atomic<uint64_t> epoch{ 0 };
    } g_cfg;

    std::atomic<uint64_t> g_cnt[6];

    struct tls_state {
        bool     active;
        unsigned paused;
        unsigned tid;
        uint64_t rng;
        uint64_t steps;
        uint64_t stall_at[3];
        unsigned nstall;
        uint64_t c_hook, c_yield, c_spin, c_sleep, c_stall;
    };
    thread_local tls_state t_st = {};

    inline uint64_t xs( uint64_t& s ) noexcept
    {
        s ^= s << 13; s ^= s >> 7; s ^= s << 17;
        return s;
    }
    inline uint64_t mix( uint64_t x ) noexcept
    {
        x += 0x9e3779b97f4a7c15ull;
        x = ( x ^ ( x >> 30 )) * 0xbf58476d1ce4e5b9ull;
        x = ( x ^ ( x >> 27 )) * 0x94d049bb133111ebull;
        return x ^ ( x >> 31 );
    }
    inline void spin_for_ns( uint64_t ns ) noexcept
    {
        timespec a, b;
        clock_gettime( CLOCK_MONOTONIC, &a );
        for (;;) {
            for ( int i = 0; i < 20; ++i )
                __asm__ __volatile__( "pause" ::: "memory" );
            clock_gettime( CLOCK_MONOTONIC, &b );
            uint64_t d = uint64_t( b.tv_sec - a.tv_sec ) * 1000000000ull + uint64_t( b.tv_nsec ) - uint64_t( a.tv_nsec );
            if ( d >= ns )
                break;
        }
    }
    inline void sleep_ns( uint64_t ns ) noexcept
    {
        timespec t;
        t.tv_sec = time_t( ns / 1000000000ull );
        t.tv_nsec = long( ns % 1000000000ull );
        nanosleep( &t, nullptr );
    }
}

extern "C" {

void cdsv_rt_configure( uint64_t seed, unsigned noise_class, unsigned stalls, uint64_t expected_steps ) noexcept
{
    g_cfg.seed.store( seed ? seed : 1 );
    uint32_t th = 0;
    if ( noise_class > 0 ) {
        if ( noise_class > 7 ) noise_class = 7;
        // class 1 -> 1/512 ... class 7 -> 1/8
        th = uint32_t( 0x100000000ull >> ( 10 - noise_class ));
    }
    g_cfg.threshold.store( th );
    g_cfg.stalls.store( stalls > 3 ? 3 : stalls );
    g_cfg.horizon.store( expected_steps ? expected_steps : 1 );
    g_cfg.epoch.fetch_add( 1 );
    g_cnt[5].store( 0 );
}

void cdsv_rt_thread_begin( unsigned tid ) noexcept
{
    tls_state& s = t_st;
    s.tid = tid;
    s.rng = mix( g_cfg.seed.load() * 0x100 + tid + 1 );
    if ( s.rng == 0 ) s.rng = 88172645463325252ull;
    s.steps = 0;
    s.paused = 0;
    s.nstall = g_cfg.stalls.load();
    uint64_t h = g_cfg.horizon.load();
    for ( unsigned i = 0; i < s.nstall; ++i ) {
        // each stall is armed with probability 1/2
        uint64_t r = xs( s.rng );
        s.stall_at[i] = ( r & 1 ) ? 1 + ( r >> 8 ) % h : ~uint64_t( 0 );
    }
    s.c_hook = s.c_yield = s.c_spin = s.c_sleep = s.c_stall = 0;
    s.active = true;
}

void cdsv_rt_thread_end() noexcept
{
    tls_state& s = t_st;
    if ( !s.active )
        return;
    s.active = false;
    g_cnt[0].fetch_add( s.c_hook, std::memory_order_relaxed );
    g_cnt[1].fetch_add( s.c_yield, std::memory_order_relaxed );
    g_cnt[2].fetch_add( s.c_spin, std::memory_order_relaxed );
    g_cnt[3].fetch_add( s.c_sleep, std::memory_order_relaxed );
    g_cnt[4].fetch_add( s.c_stall, std::memory_order_relaxed );
    uint64_t m = g_cnt[5].load( std::memory_order_relaxed );
    while ( m < s.steps && !g_cnt[5].compare_exchange_weak( m, s.steps, std::memory_order_relaxed )) {}
}

void cdsv_rt_pause() noexcept { ++t_st.paused; }
void cdsv_rt_resume() noexcept { if ( t_st.paused ) --t_st.paused; }
uint64_t cdsv_rt_my_steps() noexcept { return t_st.steps; }
uint64_t cdsv_rt_counter( int which ) noexcept { return ( which >= 0 && which < 6 ) ? g_cnt[which].load() : 0; }

void cds_verif_point( int /*kind*/, const volatile void * /*addr*/ ) noexcept
{
    tls_state& s = t_st;
    if ( !s.active || s.paused )
        return;
    ++s.c_hook;
    uint64_t step = ++s.steps;
    uint64_t r = xs( s.rng );
    for ( unsigned i = 0; i < s.nstall; ++i ) {
        if ( s.stall_at[i] == step ) {
            ++s.c_stall;
            sleep_ns( 50000 + ( r >> 20 ) % 750000 );   // 0.05 .. 0.8 ms
            return;
        }
    }
    if ( uint32_t( r ) < g_cfg.threshold.load( std::memory_order_relaxed )) {
        unsigned k = unsigned( r >> 32 ) & 63;
        if ( k < 30 ) {
            ++s.c_yield;
            sched_yield();
        }
        else if ( k < 62 ) {
            ++s.c_spin;
            spin_for_ns( 100 + ( r >> 40 ) % 30000 );
        }
        else {
            ++s.c_sleep;
            sleep_ns( 50000 + ( r >> 40 ) % 450000 );
        }
    }
}

} // extern "C"
