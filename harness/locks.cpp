// C22: mutual exclusion of cds::sync::spin_lock<backoff>, reentrant_spin_lock (32/64), lock_array (all selection policies),
// injecting_monitor and pool_monitor (over an instrumented pool of instrumented locks).
//  - critical-section monitor: every lock / node has an std::atomic<int> occupancy counter: the thread that has just acquired
//    does fetch_add(1), which must return 0; it then touches a plain variable through cdsv::cs_touch (TSan payload), and
//    before its LAST unlock touches again and does fetch_sub(1). A reentrant lock's nesting depth is tracked by the harness:
//    only the first lock enters and only the last unlock leaves, so an inner unlock that releases the lock, or a try_lock of
//    another thread that succeeds while the owner is inside, shows up as occupancy 1 at entry.
//  - pool_monitor: the pool is wrapped (side-table ledger keyed by address): a lock object may not be handed out while
//    handed out; it may be returned only once, and only while no thread holds or awaits it; a lock may be locked only while it
//    is handed out and only on behalf of one node between allocation and return.
//  - the monitor's own atomics are relaxed so that they add no happens-before edge the TSan build could see.
#include <cdsv/core.h>
#include <cdsv/sync_ledger.h>
#include <cdsv/sync_crew.h>
#include <cds/sync/spinlock.h>
#include <cds/sync/lock_array.h>
#include <cds/sync/monitor.h>
#include <cds/sync/injecting_monitor.h>
#include <cds/sync/pool_monitor.h>
#include <cds/memory/vyukov_queue_pool.h>
#include <memory>
#include <mutex>

namespace cdsv {
    __attribute__((noinline)) void cs_touch( uint64_t* p ) { ++*p; }
}

#if defined(__SANITIZE_THREAD__)
// The TSan build is a data-race monitor for cs_touch only. Its lock-order (potential deadlock) detector treats the successful
// try_lock calls of this workload (made in any order, which cannot deadlock) like blocking acquisitions and emits and
// bookkeeps thousands of irrelevant reports; switch it off (TSAN_OPTIONS of the caller still override this default).
extern "C" const char* __tsan_default_options() { return "detect_deadlocks=0"; }
#endif

namespace {
    using namespace cdsv;

    const unsigned MAX_NODES = 3;
    const unsigned MAX_DEPTH = 3;

    // ------------------------------------------------------------------ run context (one run at a time)
    struct Cell {
        std::atomic<int> occ{ 0 };
        std::atomic<uint32_t> holder{ 0 };
        std::atomic<uint32_t> last_holder{ 0 };
        uint64_t plain = 0;                     // touched only inside the critical section
        char pad[64];
    };

    struct PoolCtx {
        AddrLedger* ledger = nullptr;
        size_t capacity = 2;
        std::atomic<uint64_t> allocs{ 0 }, deallocs{ 0 }, lock_calls{ 0 };
    };

    struct RunCtx {
        std::string variant;
        uint64_t run_seed = 0, run_index = 0;
        unsigned T = 0, nodes = 0;
        Cell cell[MAX_NODES];
        PoolCtx pool;
        std::string ctx() const
        {
            return "\"variant\":" + jstr( variant ) + ",\"seed\":" + std::to_string( args().seed ) + ",\"run\":" + std::to_string( run_index )
                 + ",\"run_seed\":" + std::to_string( run_seed ) + ",\"threads\":" + std::to_string( T ) + ",\"nodes\":" + std::to_string( nodes );
        }
    };
    RunCtx* g_run = nullptr;
    thread_local uint32_t t_who = 0;        // harness thread id + 1
    thread_local int t_cur_node = -1;       // node the current monitor call is made for

    // ------------------------------------------------------------------ instrumented lock + instrumented pool (pool_monitor)
    template <class Inner>
    struct InstrLock {
        Inner inner;
        std::atomic<uint32_t> holder{ 0 };
        std::atomic<int32_t> waiters{ 0 };
        std::atomic<int32_t> node_tag{ -1 };

        void lock()
        {
            RunCtx& r = *g_run;
            r.pool.lock_calls.fetch_add( 1, std::memory_order_relaxed );
            uint32_t st = r.pool.ledger->owner( this );
            if ( st != 1 )
                violation( "C22", "pool-lock-used-while-in-pool:" + r.variant,
                           "pool_monitor locks a lock object that is not handed out by the pool at that moment (returned while a thread still awaited it, or never allocated)",
                           "{" + r.ctx() + ",\"node\":" + std::to_string( t_cur_node ) + ",\"thread\":" + std::to_string( t_who ) + ",\"ledger_state\":" + std::to_string( st ) + "}" );
            int32_t prev = -1;
            if ( !node_tag.compare_exchange_strong( prev, t_cur_node, std::memory_order_relaxed, std::memory_order_relaxed ) && prev != t_cur_node )
                violation( "C22", "one-pool-lock-serves-two-nodes:" + r.variant,
                           "a pooled lock that serves node " + std::to_string( prev ) + " and has not been returned to the pool is used for node " + std::to_string( t_cur_node ),
                           "{" + r.ctx() + ",\"first_node\":" + std::to_string( prev ) + ",\"second_node\":" + std::to_string( t_cur_node ) + ",\"thread\":" + std::to_string( t_who ) + "}" );
            waiters.fetch_add( 1, std::memory_order_relaxed );
            compiler_barrier();
            inner.lock();
            compiler_barrier();
            waiters.fetch_sub( 1, std::memory_order_relaxed );
            uint32_t h = holder.exchange( t_who, std::memory_order_relaxed );
            if ( h != 0 )
                violation( "C22", "pooled-lock-acquired-while-held:" + r.variant, "pooled lock acquired by thread " + std::to_string( t_who ) + " while thread " + std::to_string( h ) + " holds it",
                           "{" + r.ctx() + ",\"thread\":" + std::to_string( t_who ) + ",\"holder\":" + std::to_string( h ) + "}" );
        }
        void unlock()
        {
            holder.store( 0, std::memory_order_relaxed );
            compiler_barrier();
            inner.unlock();
        }
    };

    template <class Pool>
    struct InstrPool {
        typedef typename Pool::value_type value_type;
        Pool inner;
        explicit InstrPool( size_t cap ) : inner( cap ) {}

        value_type* allocate( size_t n )
        {
            RunCtx& r = *g_run;
            value_type* p = inner.allocate( n );
            uint32_t prev = r.pool.ledger->claim( p, 1 );
            if ( prev != 0 )
                violation( "C22", "pool-lock-given-out-twice:" + r.variant, "the lock pool handed out a lock object that is currently handed out",
                           "{" + r.ctx() + ",\"node\":" + std::to_string( t_cur_node ) + ",\"thread\":" + std::to_string( t_who ) + "}" );
            r.pool.allocs.fetch_add( 1, std::memory_order_relaxed );
            return p;
        }
        void deallocate( value_type* p, size_t n )
        {
            RunCtx& r = *g_run;
            uint32_t h = p->holder.load( std::memory_order_relaxed );
            int32_t w = p->waiters.load( std::memory_order_relaxed );
            if ( h != 0 || w != 0 )
                violation( "C22", "lock-returned-to-pool-while-held-or-awaited:" + r.variant,
                           "pool_monitor returned a node's lock to the pool while thread " + std::to_string( h ) + " holds it / " + std::to_string( w ) + " thread(s) wait for it",
                           "{" + r.ctx() + ",\"holder\":" + std::to_string( h ) + ",\"waiters\":" + std::to_string( w ) + ",\"thread\":" + std::to_string( t_who ) + "}" );
            uint32_t prev = r.pool.ledger->release( p, 1 );
            if ( prev != 1 )
                violation( "C22", "lock-returned-to-pool-twice:" + r.variant, "pool_monitor returned a lock object that is not handed out",
                           "{" + r.ctx() + ",\"thread\":" + std::to_string( t_who ) + "}" );
            r.pool.deallocs.fetch_add( 1, std::memory_order_relaxed );
            compiler_barrier();
            inner.deallocate( p, n );
        }
    };

    // ------------------------------------------------------------------ capabilities of lock types
    template <class L> struct lock_caps { static const bool try_n = false, reentrant = false, self_try = false; };
    template <class B> struct lock_caps< cds::sync::spin_lock<B> > { static const bool try_n = true, reentrant = false, self_try = true; };
    template <class I, class B> struct lock_caps< cds::sync::reentrant_spin_lock<I, B> > { static const bool try_n = true, reentrant = true, self_try = false; };

    template <class L, bool> struct try_n_call { static bool f( L&, unsigned ) { return false; } };
    template <class L> struct try_n_call<L, true> { static bool f( L& l, unsigned n ) { return l.try_lock( n ); } };

    // ------------------------------------------------------------------ adapters: lock(i) / try_lock(i) / try_lock_n(i,k) / unlock(i) on nodes 0..n-1
    template <class L>
    struct PlainAdapter {
        static const bool has_try = true, has_try_n = lock_caps<L>::try_n, reentrant = lock_caps<L>::reentrant, self_try = lock_caps<L>::self_try, has_all = false, has_scoped = false, is_pool = false;
        std::unique_ptr<L[]> locks;
        unsigned n;
        explicit PlainAdapter( unsigned nodes, Rng& ) : locks( new L[nodes] ), n( nodes ) {}
        unsigned lock( unsigned i ) { locks[i].lock(); return i; }
        int try_lock( unsigned i ) { return locks[i].try_lock() ? int( i ) : -1; }
        int try_lock_n( unsigned i, unsigned k ) { return try_n_call<L, has_try_n>::f( locks[i], k ) ? int( i ) : -1; }
        void unlock( unsigned i ) { locks[i].unlock(); }
        void lock_all() {} void unlock_all() {}
        template <class F> void scoped( unsigned, F ) {}
        template <class F> void scoped_all( F ) {}
        void stats( PropStats& ) {}
        bool all_free( std::string& ) { return true; }
    };

    template <class Policy> struct policy_make;
    template <> struct policy_make<cds::sync::trivial_select_policy> {
        static bool ok( size_t ) { return true; }
        static size_t hint( unsigned i, size_t, Rng& ) { return i; }
    };
    template <> struct policy_make<cds::sync::mod_select_policy> {
        static bool ok( size_t ) { return true; }
        static size_t hint( unsigned i, size_t cap, Rng& rng ) { return i + cap * rng.below( 1000 ); }
    };
    template <> struct policy_make<cds::sync::pow2_select_policy> {
        static bool ok( size_t cap ) { return cds::sync::pow2_select_policy::is_capacity_accepted( cap ); }
        static size_t hint( unsigned i, size_t cap, Rng& rng ) { return i + cap * rng.below( 1000 ); }
    };

    template <class L, class Policy> struct make_array {
        static cds::sync::lock_array<L, Policy>* f( size_t cap, Rng& rng )
        {
            // both constructors
            if ( rng.chance( 1, 2 )) return new cds::sync::lock_array<L, Policy>( cap );
            return new cds::sync::lock_array<L, Policy>( cap, Policy());
        }
    };
    template <class L> struct make_array<L, cds::sync::pow2_select_policy> {
        static cds::sync::lock_array<L, cds::sync::pow2_select_policy>* f( size_t cap, Rng& rng )
        {
            if ( rng.chance( 1, 2 )) { cds::sync::pow2_select_policy p( cap ); return new cds::sync::lock_array<L, cds::sync::pow2_select_policy>( cap, p ); }
            return new cds::sync::lock_array<L, cds::sync::pow2_select_policy>( cap, cds::sync::pow2_select_policy( cap ));
        }
    };

    template <class L, class Policy>
    struct ArrayAdapter {
        typedef cds::sync::lock_array<L, Policy> array_t;
        static const bool has_try = true, has_try_n = lock_caps<L>::try_n, reentrant = lock_caps<L>::reentrant, self_try = lock_caps<L>::self_try, has_all = true, has_scoped = true, is_pool = false;
        std::unique_ptr<array_t> arr;
        unsigned n;
        std::atomic<uint64_t> wrong_cell{ 0 };
        explicit ArrayAdapter( unsigned nodes, Rng& rng ) : n( nodes )
        {
            if ( !policy_make<Policy>::ok( n )) n = ( n == 3 ? 2 : n );     // pow2 policy: capacity must be a power of two (1, 2)
            arr.reset( make_array<L, Policy>::f( n, rng ));
            if ( arr->size() != n ) harness_failure( "lock_array::size() differs from the capacity it was constructed with" );
        }
        size_t hint( unsigned i )
        {
            // per-thread hints only need to map to cell i; the generator is shared but only its value matters
            Rng r( mix64( uint64_t( i ) * 977 + cdsv_rt_my_steps()));
            return policy_make<Policy>::hint( i, n, r );
        }
        unsigned lock( unsigned i )
        {
            size_t c = arr->lock( hint( i ));
            if ( c != i ) wrong_cell.fetch_add( 1, std::memory_order_relaxed );
            return unsigned( c );
        }
        int try_lock( unsigned i )
        {
            size_t c = arr->try_lock( hint( i ));
            if ( c == array_t::c_nUnspecifiedCell ) return -1;
            if ( c != i ) wrong_cell.fetch_add( 1, std::memory_order_relaxed );
            return int( c );
        }
        int try_lock_n( unsigned i, unsigned k ) { return try_n_call<L, has_try_n>::f( arr->at( i ), k ) ? int( i ) : -1; }
        void unlock( unsigned i ) { arr->unlock( i ); }
        void lock_all() { arr->lock_all(); }
        void unlock_all() { arr->unlock_all(); }
        template <class F> void scoped( unsigned i, F f )
        {
            std::unique_lock<array_t> g( *arr, hint( i ));
            f();
        }
        template <class F> void scoped_all( F f )
        {
            std::unique_lock<array_t> g( *arr );
            f();
        }
        void stats( PropStats& ps ) { ps.add_extra( "lock_array_wrong_cell_selected", wrong_cell.load()); }
        bool all_free( std::string& ) { return true; }
    };

    template <class Monitor, bool Pool> struct monitor_make { static Monitor* f( size_t ) { return new Monitor; } };
    template <class Monitor> struct monitor_make<Monitor, true> { static Monitor* f( size_t cap ) { return new Monitor( cap ); } };

    template <class Monitor, bool Stat> struct monitor_stat { static void f( Monitor&, PropStats& ) {} };
    template <class Monitor> struct monitor_stat<Monitor, true> {
        static void f( Monitor& m, PropStats& ps )
        {
            auto const& s = m.statistics();
            ps.add_mech( "pool_monitor.m_nLockContention", s.m_nLockContention.get());
            ps.add_mech( "pool_monitor.m_nUnlockContention", s.m_nUnlockContention.get());
            ps.add_mech( "pool_monitor.m_nLockAllocation", s.m_nLockAllocation.get());
            ps.add_mech( "pool_monitor.m_nLockDeallocation", s.m_nLockDeallocation.get());
            ps.add_mech( "pool_monitor.m_nLockCount", s.m_nLockCount.get());
        }
    };

    template <class Monitor, class LockT, bool Pool, bool Stat>
    struct MonitorAdapter {
        struct node_t {
            uint64_t something = 0;
            typename Monitor::node_injection m_SyncMonitorInjection;
        };
        static const bool has_try = false, has_try_n = false, reentrant = lock_caps<LockT>::reentrant, self_try = false, has_all = false, has_scoped = true, is_pool = Pool;
        std::unique_ptr<Monitor> mon;
        std::unique_ptr<node_t[]> nodes;
        unsigned n;
        explicit MonitorAdapter( unsigned cnt, Rng& ) : mon( monitor_make<Monitor, Pool>::f( g_run->pool.capacity )), nodes( new node_t[cnt] ), n( cnt ) {}
        unsigned lock( unsigned i ) { t_cur_node = int( i ); mon->lock( nodes[i] ); return i; }
        int try_lock( unsigned ) { return -1; }
        int try_lock_n( unsigned, unsigned ) { return -1; }
        void unlock( unsigned i ) { t_cur_node = int( i ); mon->unlock( nodes[i] ); }
        void lock_all() {} void unlock_all() {}
        template <class F> void scoped( unsigned i, F f )
        {
            t_cur_node = int( i );
            typename Monitor::template scoped_lock<node_t> g( *mon, nodes[i] );
            f();
            t_cur_node = int( i );
        }
        template <class F> void scoped_all( F ) {}
        void stats( PropStats& ps ) { monitor_stat<Monitor, Stat>::f( *mon, ps ); }
        bool all_free( std::string& which )
        {
            for ( unsigned i = 0; i < n; ++i )
                if ( !nodes[i].m_SyncMonitorInjection.check_free()) { which = std::to_string( i ); return false; }
            return true;
        }
    };

    // ------------------------------------------------------------------ per-thread results
    struct ThreadOut {
        uint64_t ops = 0, acquisitions = 0, lock_calls = 0, try_calls = 0, unlock_calls = 0, nested = 0;
        uint64_t try_failed = 0, try_failed_other_inside = 0, lock_while_held = 0, lock_spun = 0, handovers = 0, self_try = 0, lock_all = 0, scoped = 0, owner_relock_failed = 0;
        uint64_t touches[MAX_NODES] = { 0, 0, 0 };
        uint64_t steps = 0;
    };
    struct Calib { uint64_t max_lock = 0, max_try = 0, max_unlock = 0; };
    struct Totals {
        uint64_t runs = 0, nontrivial = 0, ops = 0, acquisitions = 0, nested = 0, try_failed = 0, try_failed_other_inside = 0, lock_while_held = 0, lock_spun = 0, handovers = 0, self_try = 0,
                 lock_all = 0, scoped = 0, owner_relock_failed = 0, pool_allocs = 0, pool_deallocs = 0, ledger_addresses = 0;
    };

    // ------------------------------------------------------------------ the critical-section monitor
    inline void cs_enter( unsigned node, ThreadOut& o, const char* how )
    {
        RunCtx& r = *g_run;
        Cell& c = r.cell[node];
        compiler_barrier();
        int prev = c.occ.fetch_add( 1, std::memory_order_relaxed );
        if ( prev != 0 ) {
            uint32_t other = c.holder.load( std::memory_order_relaxed );
            violation( "C22", "two-threads-in-critical-section:" + r.variant,
                       "thread " + std::to_string( t_who ) + " acquired node/lock " + std::to_string( node ) + " by " + how + " while thread " + std::to_string( other )
                       + " is inside the critical section (occupancy " + std::to_string( prev ) + " at entry)",
                       "{" + r.ctx() + ",\"node\":" + std::to_string( node ) + ",\"entering_thread\":" + std::to_string( t_who ) + ",\"inside_thread\":" + std::to_string( other )
                       + ",\"acquired_by\":" + jstr( how ) + ",\"occupancy_at_entry\":" + std::to_string( prev ) + "}" );
        }
        c.holder.store( t_who, std::memory_order_relaxed );
        if ( c.last_holder.exchange( t_who, std::memory_order_relaxed ) != t_who ) ++o.handovers;
        cs_touch( &c.plain ); ++o.touches[node];
        ++o.acquisitions;
    }
    inline void cs_inside( unsigned node, ThreadOut& o )
    {
        cs_touch( &g_run->cell[node].plain ); ++o.touches[node];
    }
    inline void cs_leave( unsigned node, ThreadOut& o )
    {
        Cell& c = g_run->cell[node];
        cs_touch( &c.plain ); ++o.touches[node];
        c.holder.store( 0, std::memory_order_relaxed );
        c.occ.fetch_sub( 1, std::memory_order_relaxed );
        compiler_barrier();
    }

    // ------------------------------------------------------------------ one worker
    template <class Ad>
    struct Worker {
        Ad& ad;
        Calib const& cal;
        ThreadOut& o;
        Rng rng;
        unsigned depth[MAX_NODES];
        unsigned n;

        Worker( Ad& a, Calib const& c, ThreadOut& out, uint64_t seed ) : ad( a ), cal( c ), o( out ), rng( seed ), n( a.n ) { for ( unsigned& d : depth ) d = 0; }

        int max_held() const { int m = -1; for ( unsigned i = 0; i < n; ++i ) if ( depth[i] ) m = int( i ); return m; }
        bool holds_any() const { return max_held() >= 0; }

        void acquired( unsigned node, const char* how )
        {
            if ( depth[node]++ == 0 ) cs_enter( node, o, how );
            else { ++o.nested; cs_inside( node, o ); }
        }
        void do_lock( unsigned i )
        {
            if ( !depth[i] && g_run->cell[i].occ.load( std::memory_order_relaxed ) > 0 ) ++o.lock_while_held;
            uint64_t s0 = cdsv_rt_my_steps();
            unsigned c = ad.lock( i );
            if ( cdsv_rt_my_steps() - s0 > cal.max_lock ) ++o.lock_spun;
            ++o.lock_calls; ++o.ops;
            acquired( c, "lock()" );
        }
        void do_try( unsigned i, unsigned k )
        {
            bool mine = depth[i] > 0;
            int c = k ? ad.try_lock_n( i, k ) : ad.try_lock( i );
            ++o.try_calls; ++o.ops;
            if ( c >= 0 && mine && !Ad::reentrant ) {
                // a non-reentrant lock that is held (by this very thread) admitted a second acquisition
                RunCtx& r = *g_run;
                violation( "C22", "try_lock-succeeded-on-held-lock:" + r.variant,
                           "try_lock returned true on non-reentrant lock " + std::to_string( i ) + " while it is held (by the calling thread " + std::to_string( t_who ) + ")",
                           "{" + r.ctx() + ",\"node\":" + std::to_string( i ) + ",\"thread\":" + std::to_string( t_who ) + "}" );
            }
            else if ( c >= 0 ) acquired( unsigned( c ), k ? "try_lock(n)" : "try_lock()" );
            else if ( mine ) { if ( Ad::reentrant ) ++o.owner_relock_failed; else ++o.self_try; }
            else {
                ++o.try_failed;
                uint32_t h = g_run->cell[i].holder.load( std::memory_order_relaxed );
                if ( h != 0 && h != t_who ) ++o.try_failed_other_inside;
            }
        }
        void do_unlock( unsigned i )
        {
            if ( depth[i] == 1 ) cs_leave( i, o ); else cs_inside( i, o );
            --depth[i];
            ad.unlock( i );
            ++o.unlock_calls; ++o.ops;
            if ( depth[i] ) cs_inside( i, o );     // still the owner after an inner unlock
        }

        void step()
        {
            unsigned i = rng.below( n );
            unsigned x = rng.below( 100 );
            if ( Ad::has_all && !holds_any() && x < 4 ) {
                // lock_all / unlock_all (or unique_lock over the whole array): cells are taken in index order
                auto inside = [this]() {
                    for ( unsigned k = 0; k < n; ++k ) acquired( k, "lock_all()" );
                    for ( unsigned k = 0; k < n; ++k ) cs_inside( k, o );
                    for ( unsigned k = 0; k < n; ++k ) { cs_leave( k, o ); --depth[k]; }
                };
                ++o.lock_all; o.ops += 2;
                if ( x < 2 ) ad.scoped_all( inside );      // std::unique_lock< lock_array > over the whole array
                else { ad.lock_all(); inside(); ad.unlock_all(); }
                return;
            }
            if ( depth[i] ) {
                if ( Ad::reentrant && depth[i] < MAX_DEPTH && x < 35 ) {
                    if ( Ad::has_try && x < 12 ) do_try( i, 0 );
                    else if ( Ad::has_try_n && x < 20 ) do_try( i, rng.range( 1, 3 ));
                    else do_lock( i );
                }
                else if ( Ad::self_try && x < 8 ) do_try( i, x < 4 ? 0 : rng.range( 1, 2 ));   // must fail: the lock is not reentrant
                else do_unlock( i );
                return;
            }
            // not held by this thread
            bool may_block = int( i ) > max_held();      // blocking acquisitions only in index order: no deadlock
            if ( Ad::has_scoped && may_block && x < 10 ) {
                if ( g_run->cell[i].occ.load( std::memory_order_relaxed ) > 0 ) ++o.lock_while_held;
                ++o.scoped; o.ops += 2;
                ad.scoped( i, [this, i]() { acquired( i, "scoped_lock" ); cs_inside( i, o ); cs_leave( i, o ); --depth[i]; } );
                return;
            }
            if ( Ad::has_try && ( !may_block || x < 45 )) {
                if ( Ad::has_try_n && ( x & 1 )) do_try( i, rng.range( 1, 4 )); else do_try( i, 0 );
                return;
            }
            if ( may_block ) { do_lock( i ); return; }
            // cannot block on i and no try_lock available: release the highest node instead
            do_unlock( unsigned( max_held()));
        }

        void run( unsigned ops )
        {
            for ( unsigned k = 0; k < ops; ++k ) step();
            for ( unsigned i = 0; i < n; ++i ) while ( depth[i] ) do_unlock( i );
            o.steps = cdsv_rt_my_steps();
        }
    };

    // single-threaded calibration: the largest number of library atomic operations one call can execute without contention
    template <class Ad>
    Calib calibrate( std::string const& name )
    {
        Calib c;
        RunCtx run; run.variant = name; run.T = 1; run.nodes = 2;
        AddrLedger ledger( 4096 );
        run.pool.ledger = &ledger; run.pool.capacity = 2;
        g_run = &run;
        {
            Rng rng( 99 );
            Ad ad( 2, rng );
            t_who = 1;
            cdsv_rt_configure( 1, 0, 0, 1 );
            cdsv_rt_thread_begin( 0 );
            unsigned depth[2] = { 0, 0 };
            for ( unsigned k = 0; k < 400; ++k ) {
                unsigned i = rng.below( ad.n );
                uint64_t s0 = cdsv_rt_my_steps();
                if ( depth[i] && ( !Ad::reentrant || depth[i] >= MAX_DEPTH || rng.chance( 1, 2 ))) {
                    ad.unlock( i ); --depth[i];
                    uint64_t d = cdsv_rt_my_steps() - s0; if ( d > c.max_unlock ) c.max_unlock = d;
                }
                else if ( Ad::has_try && rng.chance( 1, 2 )) {
                    int r = Ad::has_try_n && rng.chance( 1, 2 ) ? ad.try_lock_n( i, 1 ) : ad.try_lock( i );
                    if ( r < 0 ) continue;      // not part of C22 (a weak CAS may fail spuriously); nothing acquired
                    ++depth[r];
                    uint64_t d = cdsv_rt_my_steps() - s0; if ( d > c.max_try ) c.max_try = d;
                }
                else {
                    unsigned r = ad.lock( i ); ++depth[r];
                    uint64_t d = cdsv_rt_my_steps() - s0; if ( d > c.max_lock ) c.max_lock = d;
                }
            }
            for ( unsigned i = 0; i < ad.n; ++i ) while ( depth[i] ) { ad.unlock( i ); --depth[i]; }
            cdsv_rt_thread_end();
        }
        g_run = nullptr;
        return c;
    }

    template <class Ad>
    void one_run( Crew& crew, std::string const& variant, Calib const& cal, uint64_t run_index, Totals& tot, PropStats& ps )
    {
        std::unique_ptr<RunCtx> rp( new RunCtx );
        RunCtx& r = *rp;
        r.variant = variant;
        r.run_index = run_index;
        r.run_seed = mix64( mix64( args().seed ) ^ mix64( std::hash<std::string>()( variant )) ^ ( run_index * 0x9E3779B97F4A7C15ull ));
        Rng rng( r.run_seed );
        r.T = rng.range( 2, 4 );
        unsigned want_nodes = rng.range( 1, MAX_NODES );
        unsigned ops = rng.chance( 1, 4 ) ? rng.range( 100, 250 ) : rng.range( 6, 70 );
        AddrLedger ledger( size_t( ops ) * r.T + 64 );
        r.pool.ledger = &ledger;
        r.pool.capacity = 2;
        g_run = &r;
        ThreadOut out[4];
        bool free_ok = true; std::string not_free;
        unsigned noise = rng.below( 8 ), stalls = rng.below( 4 );
        {
            Ad ad( want_nodes, rng );
            r.nodes = ad.n;
            cdsv_rt_configure( r.run_seed, noise, stalls, uint64_t( ops ) * 4 );
            Barrier bar( r.T );
            crew.run( r.T, [&]( unsigned tid ) {
                t_who = tid + 1;
                Worker<Ad> w( ad, cal, out[tid], mix64( r.run_seed ) ^ mix64( 0xBEEF + tid ));
                bar.wait();
                cdsv_rt_thread_begin( tid );
                w.run( ops );
                cdsv_rt_thread_end();
            } );
            // ---- quiescent: all workers are back in the crew, nobody holds anything
            free_ok = ad.all_free( not_free );
            ad.stats( ps );
        }   // locks / monitor / pool destroyed here (their destructors assert "unlocked" in the debug build)
        bool counters_exact = true;
        for ( unsigned i = 0; i < r.nodes; ++i ) {
            Cell& c = r.cell[i];
            uint64_t touches = 0;
            for ( unsigned t = 0; t < r.T; ++t ) touches += out[t].touches[i];
            int occ = c.occ.load();
            if ( occ != 0 ) harness_failure( "locks: occupancy counter not zero at quiescence" );
            if ( c.plain != touches ) counters_exact = false;
            if ( c.plain != touches )
                violation( "C22", "critical-section-update-lost:" + variant,
                           "the plain counter guarded by node/lock " + std::to_string( i ) + " was incremented " + std::to_string( touches ) + " times inside critical sections but holds "
                           + std::to_string( c.plain ),
                           "{" + r.ctx() + ",\"node\":" + std::to_string( i ) + ",\"increments\":" + std::to_string( touches ) + ",\"value\":" + std::to_string( c.plain ) + "}" );
        }
        if ( !free_ok )
            violation( "C22", "node-lock-not-returned-at-quiescence:" + variant, "no thread holds or awaits node " + not_free + " but its injection still owns a pool lock / a reference",
                       "{" + r.ctx() + ",\"node\":" + not_free + "}" );
        if ( Ad::is_pool && r.pool.allocs.load() != r.pool.deallocs.load())
            violation( "C22", "pool-locks-outstanding-at-quiescence:" + variant,
                       "pool_monitor took " + std::to_string( r.pool.allocs.load()) + " locks from the pool and returned " + std::to_string( r.pool.deallocs.load()) + " although no node is locked",
                       "{" + r.ctx() + ",\"allocated\":" + std::to_string( r.pool.allocs.load()) + ",\"returned\":" + std::to_string( r.pool.deallocs.load()) + "}" );
        g_run = nullptr;

        // ---- evidence
        ThreadOut s;
        uint64_t fp = mix64( std::hash<std::string>()( variant )) ^ mix64( r.T * 16 + r.nodes );
        for ( unsigned t = 0; t < r.T; ++t ) {
            ThreadOut& o = out[t];
            s.ops += o.ops; s.acquisitions += o.acquisitions; s.nested += o.nested; s.try_failed += o.try_failed; s.try_failed_other_inside += o.try_failed_other_inside;
            s.lock_while_held += o.lock_while_held; s.lock_spun += o.lock_spun; s.handovers += o.handovers; s.self_try += o.self_try; s.lock_all += o.lock_all; s.scoped += o.scoped;
            s.owner_relock_failed += o.owner_relock_failed;
            fp = mix64( fp ^ ( log2_bucket( o.lock_calls ) | ( log2_bucket( o.try_calls ) << 6 ) | ( log2_bucket( o.unlock_calls ) << 12 ) | ( log2_bucket( o.nested ) << 18 )));
        }
        fp = mix64( fp ^ ( log2_bucket( s.try_failed_other_inside ) | ( log2_bucket( s.lock_while_held ) << 6 ) | ( log2_bucket( s.lock_spun ) << 12 ) | ( log2_bucket( s.handovers ) << 18 )
                   | ( log2_bucket( r.pool.allocs.load()) << 24 )));
        bool nontrivial = ( s.try_failed_other_inside + s.lock_while_held + s.lock_spun ) > 0;
        ++tot.runs; tot.ops += s.ops; tot.acquisitions += s.acquisitions; tot.nested += s.nested; tot.try_failed += s.try_failed; tot.try_failed_other_inside += s.try_failed_other_inside;
        tot.lock_while_held += s.lock_while_held; tot.lock_spun += s.lock_spun; tot.handovers += s.handovers; tot.self_try += s.self_try; tot.lock_all += s.lock_all; tot.scoped += s.scoped;
        tot.owner_relock_failed += s.owner_relock_failed; tot.pool_allocs += r.pool.allocs.load(); tot.pool_deallocs += r.pool.deallocs.load(); tot.ledger_addresses += ledger.distinct_addresses();
        if ( nontrivial ) { ++tot.nontrivial; ps.add_fp( fp ); }
        if ( nontrivial && s.handovers > 1 && ( run_index % 5 ) == 2 && ps.need_sample( 4 )) {
            std::string pt = "[";
            for ( unsigned t = 0; t < r.T; ++t ) {
                ThreadOut& o = out[t];
                if ( t ) pt += ",";
                pt += "{\"lock\":" + std::to_string( o.lock_calls ) + ",\"try_lock\":" + std::to_string( o.try_calls ) + ",\"unlock\":" + std::to_string( o.unlock_calls )
                    + ",\"critical_sections\":" + std::to_string( o.acquisitions ) + ",\"nested_acquisitions\":" + std::to_string( o.nested ) + ",\"try_lock_failed\":" + std::to_string( o.try_failed )
                    + ",\"library_atomic_ops\":" + std::to_string( o.steps ) + "}";
            }
            pt += "]";
            ps.add_sample( "{" + r.ctx() + ",\"noise_class\":" + std::to_string( noise ) + ",\"targeted_stalls\":" + std::to_string( stalls ) + ",\"per_thread\":" + pt
                           + ",\"try_lock_failed_while_another_thread_inside\":" + std::to_string( s.try_failed_other_inside ) + ",\"lock_called_while_another_thread_inside\":" + std::to_string( s.lock_while_held )
                           + ",\"lock_calls_that_spun\":" + std::to_string( s.lock_spun ) + ",\"handovers_between_threads\":" + std::to_string( s.handovers )
                           + ",\"pool_locks_allocated\":" + std::to_string( r.pool.allocs.load()) + ",\"pool_locks_returned\":" + std::to_string( r.pool.deallocs.load())
                           + ",\"guarded_counters_exact\":" + ( counters_exact ? "true" : "false" ) + ",\"violations_so_far\":" + std::to_string( violation_total()) + "}" );
        }
    }

#if defined(__SANITIZE_THREAD__)
    const double BUDGET_QUICK_S = 14.0;
#else
    const double BUDGET_QUICK_S = 18.0;
#endif
    double g_deadline_step = 0, g_t0 = 0;
    HangGuard* g_guard = nullptr;
    unsigned g_variant_no = 0;

    template <class Ad>
    void run_variant( std::string const& name, uint64_t runs )
    {
        unsigned my_no = g_variant_no++;
        if ( !args().want( name )) return;
        set_variant( name );
        PropStats& ps = prop( "C22" );
        Calib cal = calibrate<Ad>( name );
        Totals tot;
        std::unique_ptr<Crew> crew;
        double deadline = g_t0 + g_deadline_step * ( my_no + 1 );
        uint64_t i = 0;
        for ( ; i < runs; ++i ) {
            if ( i && i % 10 == 0 && wall_now() > deadline ) break;     // wall-clock budget of the tier (only cuts the number of runs)
            if ( i % 20 == 0 ) { crew.reset(); crew.reset( new Crew( 4 )); }   // fresh OS threads (and thread ids) now and then
            one_run<Ad>( *crew, name, cal, i, tot, ps );
            g_guard->tick();
        }
        if ( i < runs ) ps.add_extra( "runs_not_made_because_of_the_wall_clock_budget", runs - i );
        ps.evaluations.fetch_add( tot.runs );
        ps.operations.fetch_add( tot.ops );
        ps.nontrivial.fetch_add( tot.nontrivial );
        ps.add_variant( name, tot.runs );
        ps.add_extra( "critical_sections_entered", tot.acquisitions );
        ps.add_extra( "nested_acquisitions_by_owner", tot.nested );
        ps.add_extra( "try_lock_failed", tot.try_failed );
        ps.add_extra( "try_lock_on_own_non_reentrant_lock(failed_as_it_must)", tot.self_try );
        ps.add_extra( "owner_relock_of_reentrant_lock_failed", tot.owner_relock_failed );
        ps.add_extra( "handovers_between_threads", tot.handovers );
        ps.add_extra( "lock_all_calls", tot.lock_all );
        ps.add_extra( "scoped_locks", tot.scoped );
        ps.add_extra( "pool_locks_allocated", tot.pool_allocs );
        ps.add_extra( "pool_locks_returned", tot.pool_deallocs );
        ps.add_extra( "pool_lock_addresses_seen", tot.ledger_addresses );
        ps.add_mech( "try_lock_failed_while_another_thread_inside", tot.try_failed_other_inside );
        ps.add_mech( "lock_called_while_another_thread_inside", tot.lock_while_held );
        ps.add_mech( "lock_spun(more atomic ops than any single-threaded lock)", tot.lock_spun );
        ps.add_extra( "runs_with_contention:" + name, tot.nontrivial );
        ps.add_extra( "calibrated_max_atomic_ops_lock:" + name, cal.max_lock );
    }

    // pools of instrumented locks
    template <class Inner> struct pools {
        typedef InstrLock<Inner> lock_t;
        typedef InstrPool< cds::memory::vyukov_queue_pool<lock_t> > vyukov;
        typedef InstrPool< cds::memory::lazy_vyukov_queue_pool<lock_t> > lazy;
    };
}

int main( int argc, char** argv )
{
    parse_args( argc, argv );
    limit_memory_gb( 8 );
    prop( "C22" ).rule = "one evaluation = one seeded run: 2-4 perturbed threads apply lock / try_lock / try_lock(n) / unlock (nesting up to 3 for reentrant locks, lock_all and scoped locks where offered) "
                         "to 1-3 locks or monitor nodes, every acquisition checked by the occupancy counter, then all threads park and the guarded plain counters are compared with the number of increments; "
                         "operations = lock/try_lock/unlock calls; non-trivial = runs in which a try_lock failed while another thread was inside, or lock() was called while another thread was inside, "
                         "or a lock() executed more library atomic operations than any single-threaded lock() (it spun); "
                         "distinct_nontrivial = distinct hashes of (variant, threads, nodes, per-thread log2 of lock/try/unlock/nested counts, log2 of each contention counter, log2 pool allocations) among those runs";
    uint64_t runs = args().n( 160, 3200 );
#if defined(__SANITIZE_THREAD__)
    runs = args().n( 60, 1200 );
#elif defined(__SANITIZE_ADDRESS__)
    runs = args().n( 120, 2400 );
#endif
    HangGuard guard( "locks", 12.0 );
    g_guard = &guard;
    g_t0 = wall_now();
    g_deadline_step = ( args().thorough ? 360.0 : BUDGET_QUICK_S ) * ( args().scale > 1 ? args().scale : 1.0 ) / 21.0;   // --scale < 1 cuts the planned runs, not the budget
    using namespace cds::sync;
    namespace bk = cds::backoff;
    typedef cds::sync::spin Spin;
    run_variant< PlainAdapter< spin_lock<bk::LockDefault> > >( "spin_lock<LockDefault>", runs );
    run_variant< PlainAdapter< spin_lock<bk::empty> > >( "spin_lock<empty>", runs );
    run_variant< PlainAdapter< spin_lock<bk::yield> > >( "spin_lock<yield>", runs );
    run_variant< PlainAdapter< spin_lock<bk::pause> > >( "spin_lock<pause>", runs );
    run_variant< PlainAdapter< spin_lock<bk::hint> > >( "spin_lock<hint>", runs );
    run_variant< PlainAdapter< spin_lock<bk::exponential<> > > >( "spin_lock<exponential>", runs );
    run_variant< PlainAdapter< reentrant_spin32 > >( "reentrant_spin32<LockDefault>", runs );
    run_variant< PlainAdapter< reentrant_spin64 > >( "reentrant_spin64<LockDefault>", runs );
    run_variant< PlainAdapter< reentrant_spin_lock<uint32_t, bk::pause> > >( "reentrant_spin_lock<uint32,pause>", runs );
    run_variant< PlainAdapter< reentrant_spin_lock<uint64_t, bk::yield> > >( "reentrant_spin_lock<uint64,yield>", runs );
    run_variant< ArrayAdapter< Spin, trivial_select_policy > >( "lock_array<spin,trivial>", runs );
    run_variant< ArrayAdapter< Spin, mod_select_policy > >( "lock_array<spin,mod>", runs );
    run_variant< ArrayAdapter< Spin, pow2_select_policy > >( "lock_array<spin,pow2>", runs );
    run_variant< ArrayAdapter< reentrant_spin32, mod_select_policy > >( "lock_array<reentrant_spin32,mod>", runs );
    run_variant< ArrayAdapter< std::mutex, mod_select_policy > >( "lock_array<std::mutex,mod>", runs );
    run_variant< MonitorAdapter< injecting_monitor<Spin>, Spin, false, false > >( "injecting_monitor<spin>", runs );
    run_variant< MonitorAdapter< injecting_monitor<reentrant_spin32>, reentrant_spin32, false, false > >( "injecting_monitor<reentrant_spin32>", runs );
    run_variant< MonitorAdapter< injecting_monitor<std::mutex>, std::mutex, false, false > >( "injecting_monitor<std::mutex>", runs );
    run_variant< MonitorAdapter< pool_monitor< pools<Spin>::vyukov, bk::Default, true >, InstrLock<Spin>, true, true > >( "pool_monitor<vyukov_queue_pool<spin>,Default,stat>", runs );
    run_variant< MonitorAdapter< pool_monitor< pools<Spin>::lazy, bk::yield, false >, InstrLock<Spin>, true, false > >( "pool_monitor<lazy_vyukov_queue_pool<spin>,yield>", runs );
    run_variant< MonitorAdapter< pool_monitor< pools<std::mutex>::vyukov, cds::opt::none, true >, InstrLock<std::mutex>, true, true > >( "pool_monitor<vyukov_queue_pool<std::mutex>,none,stat>", runs );
    g_guard = nullptr;
    return finish( "locks" );
}
