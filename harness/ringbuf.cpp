// C12: cds::container::WeakRingBuffer<T> and WeakRingBuffer<void> are exact single-producer / single-consumer FIFOs.
//
// The real code runs in many short EPISODES: a fresh ring, exactly one producer thread and one consumer thread, every
// libcds atomic operation a delay-injection point (engine mode N, own seed / noise class / targeted stalls per episode),
// own batch-size mix and pacing per episode. An online oracle checks every delivered element / record:
//
//  typed ring (uint64_t sequence numbers through EVERY push/pop overload; a 24-byte record through the functor overloads
//  only, all of its fields written/read by cdsv::payload_write/read so that the TSan payload monitor sees the hand-over):
//    * delivered values are exactly 0,1,2,... (no gap, no repeat, no reorder, batches contiguous, record fields intact);
//    * failed push of n   is a violation iff  capacity - (pushed - pops RETURNED before the push was invoked) >= n;
//    * failed pop  of n   is a violation iff  (pushes RETURNED before the pop was invoked) - popped >= n;
//      (two counters published AFTER the own call returned and read BEFORE the own call is invoked; with one producer and
//       one consumer both bounds hold under every interleaving);
//    * front() may return nullptr only under the pop-of-1 rule; pop_front() after a successful front() must succeed;
//      front() is an idempotent peek; after the threads joined the ring is empty.
//  byte ring WeakRingBuffer<void>:
//    * every record arrives with its exact size and every byte (keyed PRNG stream of (episode, seq, size)), in push order;
//    * a failed back() is a violation only if the ring is surely empty for the whole call AND twice the rounded record
//      size (payload rounded up to 8 + 8-byte header) fits in the capacity (records never wrap: DESIGN.md, C12);
//    * front() may report "empty" only if no record whose push_back() had returned is still unpopped.
//
// Preconditions taken from the asserts of weak_ringbuffer.h (not from prose): batch count < capacity (count == capacity is
// exercised in NDEBUG builds only), rounded record size < capacity (sizes up to capacity-16 in assert builds, capacity-9 in
// NDEBUG builds), byte capacity a multiple of 8 (the 8-byte header / tail marker is written at 8-byte offsets).
//
// Sequential probe (forked child, so that an abort is reported under its own key instead of taking the harness down):
// front() on a completely full ring followed by another front()/pop(). Found by this harness on the original tree (the
// consumer-side asserts said `< capacity()`; repaired in /repo 6b53ed0) and kept as the regression monitor. The concurrent
// episodes use front() followed by any other consumer call freely, also on a full ring.
#include <cdsv/core.h>
#include <cds/container/weak_ringbuffer.h>
#include <memory>
#include <sys/wait.h>
#include <signal.h>

// ------------------------------------------------------------------------------------------------ payload frames (TSan)
namespace cdsv {
    inline uint64_t stream_word( uint64_t key, size_t j ) { return mix64( key + 0x632be59bd9b4e019ull * ( j + 1 )); }

    // writes the record bytes into memory handed out by the ring (plain stores; innermost frame of a payload race)
    __attribute__((noinline)) void payload_fill( uint8_t* p, size_t n, uint64_t key )
    {
        uint64_t w = 0;
        for ( size_t i = 0; i < n; ++i ) {
            if (( i & 7 ) == 0 ) w = stream_word( key, i >> 3 );
            p[i] = uint8_t( w >> (( i & 7 ) * 8 ));
        }
    }
    // reads the record bytes back (plain loads); returns the first mismatching offset or -1
    __attribute__((noinline)) long payload_verify( uint8_t const* p, size_t n, uint64_t key )
    {
        uint64_t w = 0;
        long bad = -1;
        for ( size_t i = 0; i < n; ++i ) {
            if (( i & 7 ) == 0 ) w = stream_word( key, i >> 3 );
            if ( p[i] != uint8_t( w >> (( i & 7 ) * 8 )) && bad < 0 ) bad = long( i );
        }
        return bad;
    }
}

namespace {
    using namespace cdsv;
    namespace cc = cds::container;

#ifdef NDEBUG
    const bool kAsserts = false;
#else
    const bool kAsserts = true;
#endif

    // Under TSan the monitor must not create happens-before edges of its own between producer and consumer (they would hide
    // a missing release/acquire in the ring): counters are relaxed (x86-TSO keeps the order the rules need, the TSan runtime
    // calls are compiler barriers) and the seq_cst logical clock is not used. Elsewhere: release/acquire + clock.
#if defined(__SANITIZE_THREAD__)
    const std::memory_order MO_PUB = std::memory_order_relaxed;
    const std::memory_order MO_OBS = std::memory_order_relaxed;
    inline uint64_t stamp() { return 0; }
    const uint32_t kQuickMax = 2500, kThoroughMax = 8000;       // elements per typed episode (TSan runs 5-10x slower)
#else
    const uint32_t kQuickMax = 4000, kThoroughMax = 20000;
    const std::memory_order MO_PUB = std::memory_order_release;
    const std::memory_order MO_OBS = std::memory_order_acquire;
    inline uint64_t stamp() { return tick(); }
#endif

    inline uint64_t fnv( std::string const& s )
    {
        uint64_t h = 1469598103934665603ull;
        for ( unsigned char c : s ) { h ^= c; h *= 1099511628211ull; }
        return h;
    }
    inline unsigned lg_bucket( uint64_t x ) { unsigned b = 0; while ( x ) { ++b; x >>= 1; } return b; }
    inline void pace( unsigned n ) { for ( unsigned i = 0; i < n; ++i ) __asm__ __volatile__( "pause" ::: "memory" ); }

    struct Totals {
        uint64_t episodes = 0, nontrivial = 0, full_and_empty = 0;
        uint64_t wraps = 0, failed_push = 0, failed_pop = 0, delivered = 0, bytes = 0;
        uint64_t tail_markers = 0, tail0 = 0, tail8 = 0, tail16 = 0, tail_other = 0, nowrap_reject = 0, straddle = 0, fallback = 0, placement_unexpected = 0;
        uint64_t full_cap_batches = 0, peeks = 0, double_peeks = 0, front_on_full = 0;
        std::set<std::string> sampled;
    } g_tot;

    // ------------------------------------------------------------------------------------------------ episode parameters
    struct Mix {
        unsigned pmax = 1, cmax = 1;        // largest batch of the producer / consumer in this episode
        unsigned pcls = 0, ccls = 0;        // batch-size class (0 singles only, 1 small, 2 half, 3 up to capacity-1)
        unsigned psingle = 4, csingle = 4;  // probability (x/8) of a single-element form
        unsigned slow = 0;                  // 0 nobody, 1 producer, 2 consumer, 3 alternating phases
        unsigned pause_n = 0;
        uint64_t phase_len = 1000;
        unsigned noise = 0, stalls = 0;
    };

    inline unsigned draw_batch_class( Rng& r, size_t cap, unsigned& cls )
    {
        size_t lim = cap - 1;               // assert( count < capacity())
        if ( lim < 1 ) lim = 1;
        cls = r.below( 4 );
        size_t v;
        switch ( cls ) {
        case 0: v = 1; break;
        case 1: v = 3; break;
        case 2: v = cap / 2; break;
        default: v = lim; break;
        }
        if ( v < 1 ) v = 1;
        if ( v > lim ) v = lim;
        return unsigned( v );
    }

    inline Mix draw_mix( Rng& r, size_t cap, uint64_t ep_seed )
    {
        Mix m;
        m.pmax = draw_batch_class( r, cap, m.pcls );
        m.cmax = draw_batch_class( r, cap, m.ccls );
        m.psingle = r.below( 9 );
        m.csingle = r.below( 9 );
        m.slow = r.below( 4 );
        m.pause_n = r.chance( 1, 3 ) ? 0 : r.range( 5, 100 );
        m.phase_len = r.range( 50, 3000 );
        m.noise = unsigned( ep_seed % 8 );
        m.stalls = unsigned(( ep_seed >> 8 ) % 4 );
        return m;
    }

    struct Shared {
        std::atomic<uint64_t> pushed_done{ 0 };    // elements/records whose push call has RETURNED
        std::atomic<uint64_t> popped_done{ 0 };    // elements/records whose pop call has RETURNED
        std::atomic<bool> abort{ false };
        double t_start = 0;
    };

    struct Side {
        uint64_t calls = 0, fails = 0, done = 0, straddle = 0, fullcap = 0, peeks = 0, peeks2 = 0, forced = 0;
        uint64_t forms = 0;     // bit mask of the call forms used
    };

    inline bool watchdog( Shared& sh, uint64_t& spin, std::string const& variant )
    {
        if (( ++spin & 0xfffff ) == 0 && wall_now() - sh.t_start > 120.0 ) {
            if ( !sh.abort.exchange( true ))
                inconclusive( "episode watchdog (120 s) fired in " + variant );
            return true;
        }
        return false;
    }

    inline std::string mix_json( Mix const& m )
    {
        std::ostringstream o;
        o << "{\"producer_max_batch\":" << m.pmax << ",\"consumer_max_batch\":" << m.cmax << ",\"producer_single_of_8\":" << m.psingle << ",\"consumer_single_of_8\":" << m.csingle
          << ",\"slow_side\":" << m.slow << ",\"pause\":" << m.pause_n << ",\"noise_class\":" << m.noise << ",\"stalls\":" << m.stalls << "}";
        return o.str();
    }

    // ------------------------------------------------------------------------------------------------ typed ring
    struct Obs { uint64_t seq; bool intact; };

    struct Rec24 { Payload a, b, c; };
    static_assert( sizeof( Rec24 ) == 24, "24-byte record" );
    struct RecOut { uint64_t a, b, c; };

    struct Scratch {
        std::vector<uint64_t> a64;
        std::vector<uint32_t> a32;
        std::vector<RecOut> rec;
        explicit Scratch( size_t n ) : a64( n + 1 ), a32( n + 1 ), rec( n + 1 ) {}
    };

    struct RecPush { void operator()( Rec24& d, uint64_t const& s ) const { payload_write( &d.a, s ); payload_write( &d.b, mix64( s )); payload_write( &d.c, ~s ); } };
    struct RecPop  { void operator()( RecOut& d, Rec24& s ) const { d.a = payload_read( &s.a ); d.b = payload_read( &s.b ); d.c = payload_read( &s.c ); } };
    inline Obs rec_obs( RecOut const& r ) { return Obs{ r.a, r.b == mix64( r.a ) && r.c == ~r.a }; }

    struct U64Tag {};
    struct RecTag {};
    template <class Ring, class Tag> struct Ops;

    // uint64_t elements: every overload of the typed ring
    template <class Ring>
    struct Ops<Ring, U64Tag> {
        static const char* family() { return "u64"; }
        enum { push_batch_forms = 3, push_single_forms = 7, pop_batch_forms = 2, pop_single_forms = 4 };
        static bool push_batch( Ring& r, unsigned form, uint64_t seq0, size_t n, Scratch& s )
        {
            switch ( form ) {
            case 0: for ( size_t i = 0; i < n; ++i ) s.a64[i] = seq0 + i; return r.push( s.a64.data(), n );
            case 1: for ( size_t i = 0; i < n; ++i ) s.a64[i] = seq0 + i; return r.push( s.a64.data(), n, []( uint64_t& d, uint64_t const& src ) { d = src; } );
            default: for ( size_t i = 0; i < n; ++i ) s.a32[i] = uint32_t( seq0 + i ); return r.push( s.a32.data(), n );   // Q != value_type
            }
        }
        static bool push_single( Ring& r, unsigned form, uint64_t seq )
        {
            uint64_t v = seq;
            switch ( form ) {
            case 0: return r.push( v );                       // push( value_type const& )
            case 1: return r.push( std::move( v ));           // push( value_type&& )
            case 2: return r.enqueue( v );
            case 3: return r.enqueue( std::move( v ));
            case 4: return r.emplace( seq );
            case 5: return r.push_with( [seq]( uint64_t& d ) { d = seq; } );
            default: return r.enqueue_with( [seq]( uint64_t& d ) { d = seq; } );
            }
        }
        static bool pop_batch( Ring& r, unsigned form, size_t m, Scratch& s, Obs* out )
        {
            bool ok;
            if ( form == 0 ) ok = r.pop( s.a64.data(), m );
            else ok = r.pop( s.a64.data(), m, []( uint64_t& d, uint64_t& src ) { d = src; } );
            if ( ok ) for ( size_t i = 0; i < m; ++i ) out[i] = Obs{ s.a64[i], true };
            return ok;
        }
        static bool pop_single( Ring& r, unsigned form, Obs& out )
        {
            uint64_t v = ~uint64_t( 0 );
            bool ok;
            switch ( form ) {
            case 0: ok = r.pop( v ); break;
            case 1: ok = r.dequeue( v ); break;
            case 2: ok = r.pop_with( [&v]( uint64_t& src ) { v = src; } ); break;
            default: ok = r.dequeue_with( [&v]( uint64_t& src ) { v = src; } ); break;
            }
            out = Obs{ v, true };
            return ok;
        }
        static Obs peek( uint64_t* p ) { return Obs{ *p, true }; }
        static size_t seq_fill( Ring& r, size_t n ) { size_t k = 0; for ( ; k < n; ++k ) if ( !r.push( uint64_t( k ))) break; return k; }
    };

    // 24-byte record: functor overloads only, every field access is a cdsv::payload_* frame
    template <class Ring>
    struct Ops<Ring, RecTag> {
        static const char* family() { return "rec24"; }
        enum { push_batch_forms = 1, push_single_forms = 2, pop_batch_forms = 1, pop_single_forms = 2 };
        static bool push_batch( Ring& r, unsigned, uint64_t seq0, size_t n, Scratch& s )
        {
            for ( size_t i = 0; i < n; ++i ) s.a64[i] = seq0 + i;
            return r.push( s.a64.data(), n, RecPush());
        }
        static bool push_single( Ring& r, unsigned form, uint64_t seq )
        {
            if ( form == 0 ) return r.push_with( [seq]( Rec24& d ) { RecPush()( d, seq ); } );
            return r.enqueue_with( [seq]( Rec24& d ) { RecPush()( d, seq ); } );
        }
        static bool pop_batch( Ring& r, unsigned, size_t m, Scratch& s, Obs* out )
        {
            bool ok = r.pop( s.rec.data(), m, RecPop());
            if ( ok ) for ( size_t i = 0; i < m; ++i ) out[i] = rec_obs( s.rec[i] );
            return ok;
        }
        static bool pop_single( Ring& r, unsigned form, Obs& out )
        {
            RecOut o{ ~uint64_t( 0 ), 0, 0 };
            bool ok;
            if ( form == 0 ) ok = r.pop_with( [&o]( Rec24& src ) { RecPop()( o, src ); } );
            else ok = r.dequeue_with( [&o]( Rec24& src ) { RecPop()( o, src ); } );
            out = rec_obs( o );
            return ok;
        }
        static Obs peek( Rec24* p ) { RecOut o; RecPop()( o, *p ); return rec_obs( o ); }
        static size_t seq_fill( Ring& r, size_t n ) { size_t k = 0; for ( ; k < n; ++k ) { uint64_t s = k; if ( !r.push_with( [s]( Rec24& d ) { RecPush()( d, s ); } )) break; } return k; }
    };

    template <class Ring, class Tag>
    struct TypedEpisode {
        typedef Ops<Ring, Tag> ops;
        std::string variant;
        std::unique_ptr<Ring> ring;
        size_t cap;
        uint64_t N;
        uint64_t ep_seed;
        Mix mix;
        Shared sh;
        Side prod, cons;
        std::vector<uint64_t> first_values;

        std::string ctx( const char* what, uint64_t inv, uint64_t ret, uint64_t pushed, uint64_t popped, uint64_t n ) const
        {
            std::ostringstream o;
            o << "{\"variant\":" << jstr( variant ) << ",\"capacity\":" << cap << ",\"episode_seed\":" << ep_seed << ",\"elements\":" << N << ",\"what\":" << jstr( what )
              << ",\"inv\":" << inv << ",\"ret\":" << ret << ",\"pushed\":" << pushed << ",\"popped\":" << popped << ",\"count\":" << n << ",\"mix\":" << mix_json( mix ) << "}";
            return o.str();
        }

        void producer()
        {
            cdsv_rt_thread_begin( 0 );
            Rng rng( ep_seed ^ 0x70726f64ull );
            Scratch scr( cap );
            uint64_t pushed = 0, spin = 0;
            unsigned consecutive_fail = 0;
            while ( pushed < N && !sh.abort.load( std::memory_order_relaxed )) {
                if ( mix.pause_n && ( mix.slow == 1 || ( mix.slow == 3 && (( pushed / mix.phase_len ) & 1 ) == 0 )))
                    pace( rng.below( mix.pause_n + 1 ));
                uint64_t remaining = N - pushed;
                bool single = ( mix.pmax == 1 && ( kAsserts || mix.pcls != 3 )) || rng.chance( mix.psingle, 8 ) || consecutive_fail > 8;
                size_t n = 1;
                unsigned form = 0;
                if ( !single ) {
                    size_t lim = mix.pmax;
                    if ( !kAsserts && mix.pcls == 3 && rng.chance( 1, 8 )) lim = cap;     // count == capacity: only without the assert
                    if ( lim > remaining ) lim = size_t( remaining );
                    n = rng.chance( 1, 4 ) ? lim : rng.range( 1, unsigned( lim ));
                    form = rng.below( ops::push_batch_forms );
                    if ( n == cap ) ++prod.fullcap;
                }
                else
                    form = rng.below( ops::push_single_forms );
                uint64_t obs = sh.popped_done.load( MO_OBS );
                uint64_t inv = stamp();
                bool ok = single ? ops::push_single( *ring, form, pushed ) : ops::push_batch( *ring, form, pushed, n, scr );
                uint64_t ret = stamp();
                ++prod.calls;
                prod.forms |= uint64_t( 1 ) << (( single ? 8 : 0 ) + form );
                if ( ok ) {
                    if (( pushed % cap ) + n > cap ) ++prod.straddle;
                    pushed += n;
                    sh.pushed_done.store( pushed, MO_PUB );
                    consecutive_fail = 0;
                }
                else {
                    ++prod.fails;
                    ++consecutive_fail;
                    uint64_t in_ring_ub = pushed - obs;       // upper bound of the occupancy during the whole call
                    if ( cap - in_ring_ub >= n && in_ring_ub <= cap ) {
                        sh.abort.store( true );
                        violation( "C12", "push-failed-with-space:" + variant,
                                   "push of " + std::to_string( n ) + " element(s) failed although at most " + std::to_string( in_ring_ub ) + " of " + std::to_string( cap )
                                   + " cells could be occupied (pops that had returned before the push was invoked are counted as free)",
                                   ctx( single ? "push-single" : "push-batch", inv, ret, pushed, obs, n ));
                    }
                    if (( consecutive_fail & 15 ) == 0 ) sched_yield(); else pace(( consecutive_fail < 32 ? consecutive_fail : 32 ) * 2 );
                    if ( watchdog( sh, spin, variant )) break;
                }
                if ( rng.chance( 1, 64 )) {
                    size_t s = ring->size();
                    ( void ) ring->empty(); ( void ) ring->full();
                    if ( s > cap ) {
                        sh.abort.store( true );
                        violation( "C12", "size-exceeds-capacity:" + variant, "producer-side size() returned " + std::to_string( s ) + " > capacity " + std::to_string( cap ),
                                   ctx( "size", 0, 0, pushed, obs, s ));
                    }
                }
            }
            prod.done = pushed;
            cdsv_rt_thread_end();
        }

        // returns false if the episode must stop
        bool check_values( Obs const* o, size_t m, uint64_t popped, const char* how, uint64_t inv, uint64_t ret, uint64_t obs )
        {
            for ( size_t i = 0; i < m; ++i ) {
                uint64_t exp = popped + i;
                if ( first_values.size() < 8 ) first_values.push_back( o[i].seq );
                if ( o[i].seq == exp && o[i].intact ) continue;
                sh.abort.store( true );
                std::string key = !o[i].intact ? "corrupt-element:" : o[i].seq > exp ? "lost-element:" : "repeat-or-reorder:";
                std::ostringstream w;
                w << "{\"variant\":" << jstr( variant ) << ",\"capacity\":" << cap << ",\"episode_seed\":" << ep_seed << ",\"how\":" << jstr( how ) << ",\"batch\":" << m << ",\"index_in_batch\":" << i
                  << ",\"expected\":" << exp << ",\"got\":" << o[i].seq << ",\"fields_intact\":" << ( o[i].intact ? "true" : "false" ) << ",\"inv\":" << inv << ",\"ret\":" << ret
                  << ",\"pushes_returned_before_inv\":" << obs << ",\"batch_values\":[";
                for ( size_t k = 0; k < m && k < 16; ++k ) { if ( k ) w << ","; w << o[k].seq; }
                w << "],\"mix\":" << mix_json( mix ) << "}";
                violation( "C12", key + variant,
                           std::string( how ) + " delivered value " + std::to_string( o[i].seq ) + " where " + std::to_string( exp ) + " was due (element " + std::to_string( i ) + " of a batch of " + std::to_string( m ) + ")",
                           w.str());
                return false;
            }
            return true;
        }

        void consumer()
        {
            cdsv_rt_thread_begin( 1 );
            Rng rng( ep_seed ^ 0x636f6e73ull );
            Scratch scr( cap );
            std::vector<Obs> out( cap + 1 );
            uint64_t popped = 0, spin = 0;
            unsigned consecutive_fail = 0;
            while ( popped < N && !sh.abort.load( std::memory_order_relaxed )) {
                if ( mix.pause_n && ( mix.slow == 2 || ( mix.slow == 3 && (( popped / mix.phase_len ) & 1 ) == 1 )))
                    pace( rng.below( mix.pause_n + 1 ));
                uint64_t remaining = N - popped;
                bool sure_one = false;      // a successful front() proved that one element is present
                unsigned how = rng.below( 8 );   // 0..2: front()-based forms, otherwise plain pops
                bool failed = false;
                if ( how <= 2 ) {
                    uint64_t obs = sh.pushed_done.load( MO_OBS );
                    uint64_t inv = stamp();
                    auto* p = ring->front();
                    uint64_t ret = stamp();
                    ++cons.calls; ++cons.peeks;
                    cons.forms |= uint64_t( 1 ) << 16;
                    if ( !p ) {
                        ++cons.fails;
                        failed = true;
                        if ( obs > popped ) {
                            sh.abort.store( true );
                            violation( "C12", "front-null-with-elements:" + variant,
                                       "front() returned nullptr although " + std::to_string( obs - popped ) + " element(s) pushed by calls that had returned before front() was invoked were still unpopped",
                                       ctx( "front", inv, ret, obs, popped, 1 ));
                        }
                    }
                    else {
                        Obs pk = ops::peek( p );
                        if ( !check_values( &pk, 1, popped, "front()", inv, ret, obs )) break;
                        sure_one = true;
                        if ( obs - popped >= cap ) ++cons.forced;     // front() surely saw a completely full ring
                        if ( how == 1 ) {
                            auto* p2 = ring->front();
                            ++cons.calls; ++cons.peeks2;
                            if ( p2 != p ) {
                                sh.abort.store( true );
                                violation( "C12", "peek-mismatch:" + variant, "two consecutive front() calls of the consumer returned different cells", ctx( "front-twice", inv, ret, obs, popped, 1 ));
                                break;
                            }
                        }
                        if ( how <= 1 ) {
                            bool ok = ring->pop_front();
                            ++cons.calls;
                            cons.forms |= uint64_t( 1 ) << 17;
                            if ( !ok ) {
                                sh.abort.store( true );
                                violation( "C12", "pop_front-failed-after-front:" + variant, "pop_front() returned false right after front() had returned an element", ctx( "pop_front", inv, ret, obs, popped, 1 ));
                                break;
                            }
                            ++popped;
                            sh.popped_done.store( popped, MO_PUB );
                            consecutive_fail = 0;
                            continue;
                        }
                        // how == 2: peek, then remove the element through one of the other pop forms below
                    }
                }
                if ( !failed ) {
                    bool single = ( mix.cmax == 1 && ( kAsserts || mix.ccls != 3 )) || rng.chance( mix.csingle, 8 ) || consecutive_fail > 8;
                    size_t m = 1;
                    unsigned form;
                    if ( !single ) {
                        size_t lim = mix.cmax;
                        if ( !kAsserts && mix.ccls == 3 && rng.chance( 1, 8 )) lim = cap;
                        if ( lim > remaining ) lim = size_t( remaining );
                        m = rng.chance( 1, 4 ) ? lim : rng.range( 1, unsigned( lim ));
                        form = rng.below( ops::pop_batch_forms );
                        if ( m == cap ) ++cons.fullcap;
                    }
                    else
                        form = rng.below( ops::pop_single_forms );
                    uint64_t obs = sh.pushed_done.load( MO_OBS );
                    uint64_t inv = stamp();
                    bool ok = single ? ops::pop_single( *ring, form, out[0] ) : ops::pop_batch( *ring, form, m, scr, out.data());
                    uint64_t ret = stamp();
                    ++cons.calls;
                    cons.forms |= uint64_t( 1 ) << (( single ? 8 : 0 ) + form );
                    if ( ok ) {
                        if ( !check_values( out.data(), m, popped, single ? "single pop" : "batch pop", inv, ret, obs )) break;
                        popped += m;
                        sh.popped_done.store( popped, MO_PUB );
                        consecutive_fail = 0;
                    }
                    else {
                        ++cons.fails;
                        failed = true;
                        uint64_t present_lb = obs > popped ? obs - popped : 0;     // lower bound of the occupancy during the whole call
                        if ( sure_one && present_lb < 1 ) present_lb = 1;
                        if ( present_lb >= m ) {
                            sh.abort.store( true );
                            violation( "C12", "pop-failed-with-elements:" + variant,
                                       "pop of " + std::to_string( m ) + " element(s) failed although at least " + std::to_string( present_lb )
                                       + " element(s) pushed by calls that had returned before the pop was invoked were still unpopped",
                                       ctx( single ? "pop-single" : "pop-batch", inv, ret, obs, popped, m ));
                        }
                    }
                }
                if ( failed ) {
                    ++consecutive_fail;
                    if (( consecutive_fail & 15 ) == 0 ) sched_yield(); else pace(( consecutive_fail < 32 ? consecutive_fail : 32 ) * 2 );
                    if ( watchdog( sh, spin, variant )) break;
                }
                if ( rng.chance( 1, 64 )) {
                    size_t s = ring->size();
                    ( void ) ring->empty(); ( void ) ring->full();
                    if ( s > cap ) {
                        sh.abort.store( true );
                        violation( "C12", "size-exceeds-capacity:" + variant, "consumer-side size() returned " + std::to_string( s ) + " > capacity " + std::to_string( cap ),
                                   ctx( "size", 0, 0, 0, popped, s ));
                    }
                }
            }
            cons.done = popped;
            cdsv_rt_thread_end();
        }

        // after both threads joined: sequential, exact
        void final_checks()
        {
            if ( sh.abort.load()) return;
            bool bad = false;
            std::string why;
            if ( !ring->empty()) { bad = true; why = "empty() is false"; }
            else if ( ring->size() != 0 ) { bad = true; why = "size() is " + std::to_string( ring->size()); }
            else if ( ring->full()) { bad = true; why = "full() is true"; }
            else if ( ring->front() != nullptr ) { bad = true; why = "front() is not nullptr"; }
            else if ( ring->pop_front()) { bad = true; why = "pop_front() succeeded"; }
            else {
                Obs o;
                if ( ops::pop_single( *ring, 0, o )) { bad = true; why = "a pop succeeded"; }
            }
            if ( !bad ) {
                // refill up to capacity, then clear(): sequential
                size_t k = ops::seq_fill( *ring, cap );
                if ( k != cap ) { bad = true; why = "only " + std::to_string( k ) + " of capacity() pushes succeeded on an empty ring"; }
                else if ( !ring->full() || ring->size() != cap ) { bad = true; why = "ring filled with capacity() elements does not report full()/size()==capacity"; }
                else if ( ops::seq_fill( *ring, 1 ) != 0 ) { bad = true; why = "push succeeded on a full ring"; }
                else {
                    if ( ring->front() == nullptr || ring->front() == nullptr ) { bad = true; why = "front() is nullptr on a full ring"; }
                    clear_ring( Tag());
                    if ( !ring->empty() || ring->size() != 0 ) { bad = true; why = "ring not empty after clear()"; }
                }
            }
            if ( bad )
                violation( "C12", "final-state:" + variant, "after all " + std::to_string( N ) + " elements were delivered and both threads joined: " + why,
                           ctx( "final", 0, 0, prod.done, cons.done, 0 ));
        }
        void clear_ring( U64Tag ) { ring->clear(); }
        void clear_ring( RecTag ) { Obs o; while ( ops::pop_single( *ring, 0, o )) {} }

        void run()
        {
            sh.t_start = wall_now();
            cdsv_rt_configure( ep_seed, mix.noise, mix.stalls, N * 3 );
            std::thread tp( [this]() { producer(); } );
            std::thread tc( [this]() { consumer(); } );
            tp.join();
            tc.join();
            final_checks();
        }
    };

    inline void account_episode( std::string const& variant, std::string const& family, Mix const& mix, uint64_t wraps, uint64_t fpush, uint64_t fpop, uint64_t calls, uint64_t delivered,
                                 std::string const& sample_tail )
    {
        PropStats& p = prop( "C12" );
        p.evaluations.fetch_add( 1 );
        p.operations.fetch_add( calls );
        ++g_tot.episodes;
        g_tot.wraps += wraps; g_tot.failed_push += fpush; g_tot.failed_pop += fpop; g_tot.delivered += delivered;
        bool fe = fpush > 0 && fpop > 0;
        if ( fe ) ++g_tot.full_and_empty;
        if ( fe || wraps > 0 ) {
            p.nontrivial.fetch_add( 1 );
            ++g_tot.nontrivial;
            uint64_t fp = fnv( variant );
            fp = mix64( fp ^ lg_bucket( wraps ));
            fp = mix64( fp ^ ( uint64_t( lg_bucket( fpush )) << 8 ));
            fp = mix64( fp ^ ( uint64_t( lg_bucket( fpop )) << 16 ));
            fp = mix64( fp ^ ( uint64_t( mix.pcls ) << 24 ) ^ ( uint64_t( mix.ccls ) << 28 ));
            p.add_fp( fp );
            if ( fe && !g_tot.sampled.count( family ) && p.need_sample( 4 )) {
                g_tot.sampled.insert( family );
                std::ostringstream o;
                o << "{\"variant\":" << jstr( variant ) << ",\"build\":" << jstr( args().build ) << ",\"delivered\":" << delivered << ",\"calls\":" << calls << ",\"wraps\":" << wraps
                  << ",\"failed_push_full\":" << fpush << ",\"failed_pop_empty\":" << fpop << ",\"mix\":" << mix_json( mix ) << sample_tail << "}";
                p.add_sample( o.str(), 4 );
            }
        }
    }

    template <class Ring, class Tag>
    void run_typed( std::string const& variant, size_t ctor_cap )
    {
        if ( !args().want( variant )) return;
        set_variant( variant );
        uint64_t episodes = args().n( 4, 80 );
        for ( uint64_t e = 0; e < episodes; ++e ) {
            TypedEpisode<Ring, Tag> ep;
            ep.variant = variant;
            ep.ep_seed = mix64( mix64( args().seed ) ^ fnv( variant ) ^ ( e * 0x9e3779b97f4a7c15ull ));
            Rng rng( ep.ep_seed );
            ep.ring.reset( new Ring( ctor_cap ));
            ep.cap = ep.ring->capacity();          // capacities are read, not assumed
            ep.N = args().thorough ? rng.range( 2000, kThoroughMax ) : rng.range( 1000, kQuickMax );
            ep.mix = draw_mix( rng, ep.cap, ep.ep_seed );
            ep.run();
            uint64_t wraps = ep.cons.done / ep.cap;
            std::ostringstream tail;
            tail << ",\"capacity\":" << ep.cap << ",\"batches_straddling_array_end\":" << ep.prod.straddle << ",\"first_values\":[";
            for ( size_t i = 0; i < ep.first_values.size(); ++i ) { if ( i ) tail << ","; tail << ep.first_values[i]; }
            tail << "]";
            account_episode( variant, Ops<Ring, Tag>::family(), ep.mix, wraps, ep.prod.fails, ep.cons.fails, ep.prod.calls + ep.cons.calls, ep.cons.done, tail.str());
            g_tot.straddle += ep.prod.straddle;
            g_tot.full_cap_batches += ep.prod.fullcap + ep.cons.fullcap;
            g_tot.peeks += ep.cons.peeks; g_tot.double_peeks += ep.cons.peeks2; g_tot.front_on_full += ep.cons.forced;
            if ( violation_total() > 20 ) break;
        }
        prop( "C12" ).add_variant( variant, episodes );
    }

    // ------------------------------------------------------------------------------------------------ byte ring
    inline size_t real_size( size_t n ) { return (( n + 7 ) & ~size_t( 7 )) + 8; }

    struct ByteMix {
        unsigned profile = 0;      // 0 half-safe (2*rounded size <= capacity always), 1 mixed, 2 large-heavy, 3 small
        unsigned w_tail = 2;       // weight (of 8) of records aimed at leaving a tail of 0 / 8 / 16 bytes
        bool copy_form = false;    // also use push_back( data, size )
    };

    template <class Ring>
    struct ByteEpisode {
        std::string variant;
        std::unique_ptr<Ring> ring;
        size_t cap = 0;
        uint64_t N = 0;
        uint64_t ep_seed = 0;
        Mix mix;
        ByteMix bmix;
        Shared sh;
        Side prod, cons;
        std::unique_ptr<std::atomic<uint32_t>[]> sizes;     // size of record seq, stored by the producer before back()
        uint64_t wraps = 0, tail_markers = 0, tail0 = 0, tail8 = 0, tail16 = 0, tail_other = 0, nowrap_reject = 0, fallback = 0, placement_unexpected = 0, bytes = 0;
        std::vector<uint32_t> first_sizes;

        uint64_t key_of( uint64_t seq, size_t size ) const { return mix64( ep_seed ^ mix64( seq * 2 + 1 ) ^ ( uint64_t( size ) << 40 )); }

        std::string ctx( const char* what, uint64_t inv, uint64_t ret, uint64_t pushed, uint64_t popped, uint64_t size ) const
        {
            std::ostringstream o;
            o << "{\"variant\":" << jstr( variant ) << ",\"capacity\":" << cap << ",\"episode_seed\":" << ep_seed << ",\"records\":" << N << ",\"what\":" << jstr( what )
              << ",\"inv\":" << inv << ",\"ret\":" << ret << ",\"pushed\":" << pushed << ",\"popped\":" << popped << ",\"size\":" << size << ",\"rounded_size\":" << real_size( size )
              << ",\"profile\":" << bmix.profile << ",\"mix\":" << mix_json( mix ) << "}";
            return o.str();
        }

        size_t draw_size( Rng& rng, size_t off_norm )
        {
            size_t max_size = cap - 16;                         // rounded size <= capacity - 8 < capacity (assert in back())
            if ( !kAsserts && rng.chance( 1, 32 )) max_size = cap - 9;
            size_t half = cap / 2 >= 16 ? cap / 2 - 8 : 1;      // largest size with 2 * rounded size <= capacity
            if ( half > max_size ) half = max_size;
            if ( rng.below( 8 ) < bmix.w_tail ) {
                size_t d = size_t( rng.below( 3 )) * 8;         // leave a tail of 0, 8 or 16 bytes behind this record
                size_t tail_rem = cap - off_norm;
                if ( tail_rem >= d + 16 ) {
                    size_t real = tail_rem - d;
                    size_t sz = real - 8 - rng.below( 8 );
                    if ( sz >= 1 && sz <= ( bmix.profile == 0 ? half : max_size ))
                        return sz;
                }
            }
            size_t lim;
            switch ( bmix.profile ) {
            case 0: lim = half; break;
            case 1: { unsigned c = rng.below( 4 ); lim = c == 0 ? 24 : c == 1 ? cap / 8 : c == 2 ? half : max_size; break; }
            case 2: lim = rng.chance( 1, 2 ) ? max_size : half; break;
            default: lim = 24; break;
            }
            if ( lim < 1 ) lim = 1;
            if ( lim > max_size ) lim = max_size;
            return rng.chance( 1, 6 ) ? lim : size_t( rng.range( 1, unsigned( lim )));
        }

        void producer()
        {
            cdsv_rt_thread_begin( 0 );
            Rng rng( ep_seed ^ 0x70726f64ull );
            std::vector<uint8_t> scratch( cap + 8 );
            uint64_t pushed = 0, spin = 0;
            uint8_t* base = nullptr;
            size_t off_next = 0;          // offset at which the next record starts if it fits behind the previous one
            unsigned consecutive_fail = 0;
            while ( pushed < N && !sh.abort.load( std::memory_order_relaxed )) {
                size_t size = draw_size( rng, off_next % cap );
                unsigned empty_fails = 0;
                for (;;) {
                    if ( sh.abort.load( std::memory_order_relaxed )) break;
                    if ( mix.pause_n && ( mix.slow == 1 || ( mix.slow == 3 && (( pushed / mix.phase_len ) & 1 ) == 0 )))
                        pace( rng.below( mix.pause_n + 1 ));
                    sizes[pushed].store( uint32_t( size ), std::memory_order_relaxed );
                    std::atomic_signal_fence( std::memory_order_seq_cst );
                    bool copy = bmix.copy_form && base && rng.chance( 1, 2 );      // the first record goes through back(): its address is the buffer start + 8
                    uint64_t key = key_of( pushed, size );
                    if ( copy ) payload_fill( scratch.data(), size, key );      // private memory
                    uint64_t obs = sh.popped_done.load( MO_OBS );
                    uint64_t inv = stamp();
                    uint8_t* p = nullptr;
                    bool ok;
                    if ( copy ) {
                        ok = ring->push_back( scratch.data(), size );
                        prod.forms |= 2;
                    }
                    else {
                        p = static_cast<uint8_t*>( ring->back( size ));
                        ok = p != nullptr;
                        prod.forms |= 1;
                    }
                    uint64_t ret = stamp();
                    ++prod.calls;
                    if ( ok ) {
                        if ( p ) {
                            // layout bookkeeping from the address handed out (evidence only)
                            if ( !base ) base = p - 8;              // fresh ring: the first record starts at offset 0
                            size_t rec_off = size_t( p - 8 - base );
                            size_t off_norm = off_next % cap;
                            if ( pushed > 0 && rec_off == 0 && off_next != 0 ) {
                                ++wraps;
                                if ( off_norm == 0 ) ++tail0;
                                else {
                                    ++tail_markers;
                                    size_t t = cap - off_norm;
                                    if ( t == 8 ) ++tail8; else if ( t == 16 ) ++tail16; else ++tail_other;
                                }
                            }
                            else if ( rec_off != off_norm && pushed > 0 ) ++placement_unexpected;
                            off_next = rec_off + real_size( size );
                            payload_fill( p, size, key );
                            ring->push_back();
                            ++prod.calls;
                        }
                        else {
                            // address unknown: replay the documented placement rule to keep the bookkeeping going
                            size_t off_norm = off_next % cap;
                            size_t rs = real_size( size );
                            if ( pushed > 0 && off_norm == 0 && off_next != 0 ) { ++wraps; ++tail0; off_norm = 0; }
                            else if ( cap - off_norm < rs ) {
                                ++wraps; ++tail_markers;
                                size_t t = cap - off_norm;
                                if ( t == 8 ) ++tail8; else if ( t == 16 ) ++tail16; else ++tail_other;
                                off_norm = 0;
                            }
                            off_next = off_norm + rs;
                        }
                        bytes += size;
                        ++pushed;
                        sh.pushed_done.store( pushed, MO_PUB );
                        consecutive_fail = 0;
                        break;
                    }
                    ++prod.fails;
                    ++consecutive_fail;
                    if ( obs == pushed ) {
                        // every record pushed so far had been popped before the call was invoked: the ring was empty throughout
                        if ( 2 * real_size( size ) <= cap ) {
                            sh.abort.store( true );
                            violation( "C12", "back-failed-on-empty-ring:" + variant,
                                       "reserving a record of " + std::to_string( size ) + " byte(s) (rounded " + std::to_string( real_size( size )) + ") failed on a surely empty ring of capacity "
                                       + std::to_string( cap ) + " although twice the rounded size fits",
                                       ctx( copy ? "push_back(data,size)" : "back(size)", inv, ret, pushed, obs, size ));
                            break;
                        }
                        ++nowrap_reject;        // design limit: records never wrap
                        if ( ++empty_fails >= 2 ) {
                            size = rng.range( 1, 8 );       // rounded size 16 always fits into an empty ring
                            ++fallback;
                            empty_fails = 0;
                        }
                    }
                    if (( consecutive_fail & 15 ) == 0 ) sched_yield(); else pace(( consecutive_fail < 32 ? consecutive_fail : 32 ) * 2 );
                    if ( watchdog( sh, spin, variant )) break;
                }
                if ( rng.chance( 1, 64 )) {
                    size_t s = ring->size();
                    ( void ) ring->empty(); ( void ) ring->full();
                    if ( s > cap ) {
                        sh.abort.store( true );
                        violation( "C12", "size-exceeds-capacity:" + variant, "producer-side size() returned " + std::to_string( s ) + " > capacity " + std::to_string( cap ), ctx( "size", 0, 0, pushed, 0, s ));
                    }
                }
            }
            prod.done = pushed;
            cdsv_rt_thread_end();
        }

        void consumer()
        {
            cdsv_rt_thread_begin( 1 );
            Rng rng( ep_seed ^ 0x636f6e73ull );
            uint64_t popped = 0, spin = 0;
            unsigned consecutive_fail = 0;
            while ( popped < N && !sh.abort.load( std::memory_order_relaxed )) {
                if ( mix.pause_n && ( mix.slow == 2 || ( mix.slow == 3 && (( popped / mix.phase_len ) & 1 ) == 1 )))
                    pace( rng.below( mix.pause_n + 1 ));
                uint64_t obs = sh.pushed_done.load( MO_OBS );
                uint64_t inv = stamp();
                std::pair<void*, size_t> f = ring->front();
                uint64_t ret = stamp();
                ++cons.calls; ++cons.peeks;
                if ( !f.first ) {
                    ++cons.fails;
                    if ( obs > popped ) {
                        sh.abort.store( true );
                        violation( "C12", "front-null-with-records:" + variant,
                                   "front() reported an empty ring although " + std::to_string( obs - popped ) + " record(s) whose push_back() had returned before front() was invoked were still unpopped",
                                   ctx( "front", inv, ret, obs, popped, 0 ));
                        break;
                    }
                    ++consecutive_fail;
                    if (( consecutive_fail & 15 ) == 0 ) sched_yield(); else pace(( consecutive_fail < 32 ? consecutive_fail : 32 ) * 2 );
                    if ( watchdog( sh, spin, variant )) break;
                    continue;
                }
                consecutive_fail = 0;
                std::atomic_signal_fence( std::memory_order_seq_cst );
                size_t exp_size = sizes[popped].load( std::memory_order_relaxed );
                if ( first_sizes.size() < 8 ) first_sizes.push_back( uint32_t( f.second ));
                if ( f.second != exp_size ) {
                    sh.abort.store( true );
                    violation( "C12", "record-size:" + variant,
                               "record " + std::to_string( popped ) + " arrived with size " + std::to_string( f.second ) + " instead of " + std::to_string( exp_size ),
                               ctx( "front", inv, ret, obs, popped, exp_size ));
                    break;
                }
                uint8_t const* p = static_cast<uint8_t const*>( f.first );
                long bad = payload_verify( p, f.second, key_of( popped, f.second ));
                if ( bad >= 0 ) {
                    sh.abort.store( true );
                    // does the content belong to a neighbouring record of the same size? (evidence for the witness only)
                    long neighbour = 0;
                    for ( long d = -4; d <= 4; ++d ) {
                        if ( d == 0 || long( popped ) + d < 0 || uint64_t( long( popped ) + d ) >= N ) continue;
                        if ( payload_verify( p, f.second, key_of( uint64_t( long( popped ) + d ), f.second )) < 0 ) { neighbour = d; break; }
                    }
                    std::ostringstream w;
                    w << "{\"variant\":" << jstr( variant ) << ",\"capacity\":" << cap << ",\"episode_seed\":" << ep_seed << ",\"record\":" << popped << ",\"size\":" << f.second
                      << ",\"first_bad_offset\":" << bad << ",\"got_byte\":" << unsigned( p[bad] ) << ",\"content_matches_record_at_distance\":" << neighbour
                      << ",\"inv\":" << inv << ",\"ret\":" << ret << ",\"pushes_returned_before_inv\":" << obs << ",\"profile\":" << bmix.profile << ",\"mix\":" << mix_json( mix ) << "}";
                    violation( "C12", "record-bytes:" + variant,
                               "record " + std::to_string( popped ) + " (" + std::to_string( f.second ) + " bytes) differs from what was pushed at byte " + std::to_string( bad )
                               + ( neighbour ? " (content equals record " + std::to_string( long( popped ) + neighbour ) + ")" : "" ),
                               w.str());
                    break;
                }
                if ( rng.chance( 1, 4 )) {
                    std::pair<void*, size_t> f2 = ring->front();
                    ++cons.calls; ++cons.peeks2;
                    if ( f2.first != f.first || f2.second != f.second ) {
                        sh.abort.store( true );
                        violation( "C12", "peek-mismatch:" + variant, "two consecutive front() calls of the consumer returned different records", ctx( "front-twice", inv, ret, obs, popped, f.second ));
                        break;
                    }
                }
                bool ok = ring->pop_front();
                ++cons.calls;
                if ( !ok ) {
                    sh.abort.store( true );
                    violation( "C12", "pop_front-failed-after-front:" + variant, "pop_front() returned false right after front() had returned a record", ctx( "pop_front", inv, ret, obs, popped, f.second ));
                    break;
                }
                ++popped;
                sh.popped_done.store( popped, MO_PUB );
                if ( rng.chance( 1, 64 )) {
                    size_t s = ring->size();
                    ( void ) ring->empty(); ( void ) ring->full();
                    if ( s > cap ) {
                        sh.abort.store( true );
                        violation( "C12", "size-exceeds-capacity:" + variant, "consumer-side size() returned " + std::to_string( s ) + " > capacity " + std::to_string( cap ), ctx( "size", 0, 0, 0, popped, s ));
                    }
                }
            }
            cons.done = popped;
            cdsv_rt_thread_end();
        }

        void final_checks()
        {
            if ( sh.abort.load()) return;
            std::string why;
            if ( ring->front().first != nullptr ) why = "front() still returns a record";
            else if ( !ring->empty()) why = "empty() is false";
            else if ( ring->size() != 0 ) why = "size() is " + std::to_string( ring->size());
            else if ( ring->full()) why = "full() is true";
            else {
                // two small records, then clear(): sequential
                uint8_t d[8] = { 1, 2, 3, 4, 5, 6, 7, 8 };
                if ( !ring->push_back( d, 5 ) || !ring->push_back( d, 8 )) why = "a 16-byte (rounded) record was rejected by an empty ring";
                else {
                    std::pair<void*, size_t> f = ring->front();
                    if ( !f.first || f.second != 5 || memcmp( f.first, d, 5 ) != 0 ) why = "sequential push_back/front mismatch";
                    else {
                        ring->clear();
                        if ( !ring->empty() || ring->front().first != nullptr ) why = "ring not empty after clear()";
                    }
                }
            }
            if ( !why.empty())
                violation( "C12", "final-state:" + variant, "after all " + std::to_string( N ) + " records were delivered and both threads joined: " + why, ctx( "final", 0, 0, prod.done, cons.done, 0 ));
        }

        void run()
        {
            sh.t_start = wall_now();
            cdsv_rt_configure( ep_seed, mix.noise, mix.stalls, N * 4 );
            std::thread tp( [this]() { producer(); } );
            std::thread tc( [this]() { consumer(); } );
            tp.join();
            tc.join();
            final_checks();
        }
    };

    template <class Ring>
    void run_byte( std::string const& variant, size_t ctor_cap, bool copy_form )
    {
        if ( !args().want( variant )) return;
        set_variant( variant );
        uint64_t episodes = args().n( 4, 80 );
        for ( uint64_t e = 0; e < episodes; ++e ) {
            ByteEpisode<Ring> ep;
            ep.variant = variant;
            ep.ep_seed = mix64( mix64( args().seed ) ^ fnv( variant ) ^ ( e * 0x9e3779b97f4a7c15ull ));
            Rng rng( ep.ep_seed );
            ep.ring.reset( new Ring( ctor_cap ));
            ep.cap = ep.ring->capacity();
            if ( ep.cap % 8 != 0 || ep.cap < 32 ) harness_failure( "byte ring capacity must be a multiple of 8 and >= 32: " + variant );
            // keep the bytes moved per episode bounded: fewer records for large capacities
            uint64_t lo = 300, hi = args().thorough ? 6000 : 1200;
            if ( ep.cap >= 1000 ) { lo = 200; hi = args().thorough ? 3000 : 600; }
            ep.N = rng.range( uint32_t( lo ), uint32_t( hi ));
            ep.mix = draw_mix( rng, ep.cap, ep.ep_seed );
            ep.bmix.profile = rng.below( 4 );
            ep.bmix.w_tail = rng.below( 5 );
            ep.bmix.copy_form = copy_form;
            ep.sizes.reset( new std::atomic<uint32_t>[ep.N] );
            for ( uint64_t i = 0; i < ep.N; ++i ) ep.sizes[i].store( 0, std::memory_order_relaxed );
            ep.run();
            std::ostringstream tail;
            tail << ",\"capacity\":" << ep.cap << ",\"size_profile\":" << ep.bmix.profile << ",\"tail_markers\":" << ep.tail_markers << ",\"wraps_without_marker\":" << ep.tail0
                 << ",\"bytes\":" << ep.bytes << ",\"rejected_on_empty_ring_because_records_never_wrap\":" << ep.nowrap_reject << ",\"first_record_sizes\":[";
            for ( size_t i = 0; i < ep.first_sizes.size(); ++i ) { if ( i ) tail << ","; tail << ep.first_sizes[i]; }
            tail << "]";
            Mix fm = ep.mix;
            fm.pcls = ep.bmix.profile; fm.ccls = ep.bmix.w_tail > 0;       // the byte ring's "batch-size mix" is the record-size profile
            account_episode( variant, copy_form ? "byte/copy" : "byte/fill", fm, ep.wraps, ep.prod.fails, ep.cons.fails, ep.prod.calls + ep.cons.calls, ep.cons.done, tail.str());
            g_tot.bytes += ep.bytes;
            g_tot.tail_markers += ep.tail_markers; g_tot.tail0 += ep.tail0; g_tot.tail8 += ep.tail8; g_tot.tail16 += ep.tail16; g_tot.tail_other += ep.tail_other;
            g_tot.nowrap_reject += ep.nowrap_reject; g_tot.fallback += ep.fallback; g_tot.placement_unexpected += ep.placement_unexpected;
            g_tot.peeks += ep.cons.peeks; g_tot.double_peeks += ep.cons.peeks2; g_tot.front_on_full += ep.cons.forced;
            if ( violation_total() > 20 ) break;
        }
        prop( "C12" ).add_variant( variant, episodes );
    }

    // ------------------------------------------------------------------------------------------------ sequential probe in a child
    struct ChildResult { bool signalled = false; int sig = 0; int code = 0; std::string err; };

    template <class F>
    ChildResult run_child( F f )
    {
        ChildResult r;
        int fd[2];
        if ( pipe( fd ) != 0 ) harness_failure( "pipe" );
        fflush( stdout ); fflush( stderr );
        pid_t pid = fork();
        if ( pid < 0 ) harness_failure( "fork" );
        if ( pid == 0 ) {
            close( fd[0] );
            dup2( fd[1], 2 );
            rlimit rl; rl.rlim_cur = rl.rlim_max = 0;
            setrlimit( RLIMIT_CORE, &rl );
            int rc = f();
            _exit( rc );
        }
        close( fd[1] );
        char buf[512];
        ssize_t n;
        while (( n = read( fd[0], buf, sizeof buf )) > 0 )
            if ( r.err.size() < 4000 ) r.err.append( buf, size_t( n ));
        close( fd[0] );
        int st = 0;
        waitpid( pid, &st, 0 );
        if ( WIFSIGNALED( st )) { r.signalled = true; r.sig = WTERMSIG( st ); }
        else r.code = WEXITSTATUS( st );
        return r;
    }

    int probe_typed()
    {
        cc::WeakRingBuffer<uint64_t> r( 4 );
        for ( uint64_t i = 0; i < 4; ++i ) if ( !r.push( i )) return 3;
        uint64_t* p = r.front();            // consumer refreshes its cached back: cback_ - front == capacity
        if ( !p || *p != 0 ) return 4;
        uint64_t* q = r.front();            // weak_ringbuffer.h: assert( cback_ - front < capacity())
        if ( q != p ) return 5;
        uint64_t v = 99;
        if ( !r.pop( v ) || v != 0 ) return 6;
        return 0;
    }
    int probe_byte()
    {
        cc::WeakRingBuffer<void> r( 64 );
        uint8_t d[24] = { 0 };
        if ( !r.push_back( d, 24 ) || !r.push_back( d, 24 )) return 3;     // 2 x (24 + 8) = 64: completely full
        std::pair<void*, size_t> f = r.front();
        if ( !f.first || f.second != 24 ) return 4;
        std::pair<void*, size_t> g = r.front();
        if ( g.first != f.first || g.second != 24 ) return 5;
        if ( !r.pop_front() || !r.pop_front() || r.pop_front()) return 6;
        return 0;
    }

    void run_probe( const char* which, int ( *fn )(), const char* calls )
    {
        std::string variant = std::string( "probe/front-on-full-ring/" ) + which;
        if ( !args().want( variant )) return;
        set_variant( variant );
        ChildResult r = run_child( fn );
        bool died = r.signalled;
        PropStats& p = prop( "C12" );
        p.evaluations.fetch_add( 1 );
        p.operations.fetch_add( 7 );
        p.add_variant( variant, 1 );
        if ( died || r.code != 0 ) {
            std::string e = r.err;
            size_t a = e.find( "Assertion" );
            if ( a != std::string::npos ) e = e.substr( a );
            if ( e.size() > 300 ) e.resize( 300 );
            std::ostringstream w;
            w << "{\"sequential\":true,\"calls\":" << jstr( calls ) << ",\"child_signal\":" << r.sig << ",\"child_exit\":" << r.code << ",\"stderr\":" << jstr( e ) << "}";
            violation( "C12", std::string( died ? "assert-front-on-full-ring:" : "front-on-full-ring-wrong-result:" ) + which,
                       std::string( "single-threaded: fill the ring completely, front(), then front()/pop(): " ) + ( died ? "the process is killed by signal " + std::to_string( r.sig ) : "wrong result, step " + std::to_string( r.code ))
                       + ( e.empty() ? "" : " (" + e + ")" ),
                       w.str());
        }
    }

    // ------------------------------------------------------------------------------------------------ ring types
    typedef cc::weak_ringbuffer::traits traits_dyn;        // default: dynamic buffer, capacity rounded up to a power of two
    struct traits_dyn_np2: public cc::weak_ringbuffer::traits {
        typedef cds::opt::v::uninitialized_dynamic_buffer<void*, CDS_DEFAULT_ALLOCATOR, false> buffer;
    };
    template <size_t N, bool Exp2>
    struct traits_static: public cc::weak_ringbuffer::traits {
        typedef cds::opt::v::uninitialized_static_buffer<void*, N, Exp2> buffer;
    };
    struct traits_seqcst: public cc::weak_ringbuffer::traits {
        typedef cds::opt::v::sequential_consistent memory_model;
    };
    typedef cc::weak_ringbuffer::make_traits< cds::opt::buffer< cds::opt::v::uninitialized_static_buffer<void*, 16> >, cds::opt::padding< cds::opt::no_special_padding > >::type traits_opts;
}

int main( int argc, char** argv )
{
    parse_args( argc, argv );
    limit_memory_gb( 4 );
    signal( SIGPIPE, SIG_IGN );
    PropStats& p = prop( "C12" );
    p.rule = "one evaluation = one SPSC episode (fresh ring, exactly one producer and one consumer thread, 1000-20000 elements or 200-6000 variable-size records, own perturbation seed / noise class / "
             "stalls and own batch-size or record-size mix) in which every delivered element or record is checked online (plus 2 single-threaded probe cases); non-trivial = the episode had at least one "
             "failed push (ring full) AND at least one failed pop/front (ring empty), or the back position wrapped past the end of the array at least once; distinct_nontrivial = distinct hashes of "
             "(variant, log2 buckets of wraps, failed pushes, failed pops, producer and consumer batch-size class or record-size profile) among the non-trivial episodes";

    run_probe( "typed", probe_typed, "WeakRingBuffer<uint64_t> r(4); r.push(0..3); r.front(); r.front(); r.pop(v)" );
    run_probe( "byte", probe_byte, "WeakRingBuffer<void> r(64); r.push_back(d,24) x2; r.front(); r.front(); r.pop_front() x2" );

    // typed ring, uint64_t, every overload
    run_typed< cc::WeakRingBuffer<uint64_t, traits_dyn>, U64Tag >( "typed/u64/dynamic/cap2", 2 );
    run_typed< cc::WeakRingBuffer<uint64_t, traits_dyn>, U64Tag >( "typed/u64/dynamic/cap8", 8 );
    run_typed< cc::WeakRingBuffer<uint64_t, traits_dyn>, U64Tag >( "typed/u64/dynamic/cap16", 16 );
    run_typed< cc::WeakRingBuffer<uint64_t, traits_dyn>, U64Tag >( "typed/u64/dynamic/cap100-rounded-to-128", 100 );
    run_typed< cc::WeakRingBuffer<uint64_t, traits_dyn_np2>, U64Tag >( "typed/u64/dynamic-nonpow2/cap3", 3 );
    run_typed< cc::WeakRingBuffer<uint64_t, traits_dyn_np2>, U64Tag >( "typed/u64/dynamic-nonpow2/cap5", 5 );
    run_typed< cc::WeakRingBuffer<uint64_t, traits_dyn_np2>, U64Tag >( "typed/u64/dynamic-nonpow2/cap100", 100 );
    run_typed< cc::WeakRingBuffer<uint64_t, traits_static<2, true>>, U64Tag >( "typed/u64/static/cap2", 2 );
    run_typed< cc::WeakRingBuffer<uint64_t, traits_static<8, true>>, U64Tag >( "typed/u64/static/cap8", 8 );
    run_typed< cc::WeakRingBuffer<uint64_t, traits_static<3, false>>, U64Tag >( "typed/u64/static-nonpow2/cap3", 3 );
    run_typed< cc::WeakRingBuffer<uint64_t, traits_static<5, false>>, U64Tag >( "typed/u64/static-nonpow2/cap5", 5 );
    run_typed< cc::WeakRingBuffer<uint64_t, traits_static<100, false>>, U64Tag >( "typed/u64/static-nonpow2/cap100", 100 );
    run_typed< cc::WeakRingBuffer<uint64_t, traits_seqcst>, U64Tag >( "typed/u64/dynamic-seqcst/cap8", 8 );
    run_typed< cc::WeakRingBuffer<uint64_t, traits_opts>, U64Tag >( "typed/u64/static-nopadding/cap16", 16 );
    // typed ring, 24-byte record, functor overloads only (TSan payload monitor)
    run_typed< cc::WeakRingBuffer<Rec24, traits_dyn>, RecTag >( "typed/rec24/dynamic/cap2", 2 );
    run_typed< cc::WeakRingBuffer<Rec24, traits_dyn>, RecTag >( "typed/rec24/dynamic/cap16", 16 );
    run_typed< cc::WeakRingBuffer<Rec24, traits_dyn_np2>, RecTag >( "typed/rec24/dynamic-nonpow2/cap3", 3 );
    run_typed< cc::WeakRingBuffer<Rec24, traits_dyn_np2>, RecTag >( "typed/rec24/dynamic-nonpow2/cap100", 100 );
    run_typed< cc::WeakRingBuffer<Rec24, traits_static<8, true>>, RecTag >( "typed/rec24/static/cap8", 8 );
    run_typed< cc::WeakRingBuffer<Rec24, traits_static<5, false>>, RecTag >( "typed/rec24/static-nonpow2/cap5", 5 );
    // byte ring: "fill" = back() + cdsv::payload_fill + push_back() only (TSan payload monitor); "copy" = also push_back( data, size )
    run_byte< cc::WeakRingBuffer<void, traits_dyn> >( "byte/dynamic/cap64/fill", 64, false );
    run_byte< cc::WeakRingBuffer<void, traits_dyn> >( "byte/dynamic/cap64/copy", 64, true );
    run_byte< cc::WeakRingBuffer<void, traits_dyn_np2> >( "byte/dynamic-nonpow2/cap104/fill", 104, false );
    run_byte< cc::WeakRingBuffer<void, traits_dyn_np2> >( "byte/dynamic-nonpow2/cap104/copy", 104, true );
    run_byte< cc::WeakRingBuffer<void, traits_dyn> >( "byte/dynamic/cap128/fill", 128, false );
    run_byte< cc::WeakRingBuffer<void, traits_dyn> >( "byte/dynamic/cap128/copy", 128, true );
    run_byte< cc::WeakRingBuffer<void, traits_dyn_np2> >( "byte/dynamic-nonpow2/cap1000/fill", 1000, false );
    run_byte< cc::WeakRingBuffer<void, traits_dyn_np2> >( "byte/dynamic-nonpow2/cap1000/copy", 1000, true );
    run_byte< cc::WeakRingBuffer<void, traits_dyn> >( "byte/dynamic/cap4096/fill", 4096, false );
    run_byte< cc::WeakRingBuffer<void, traits_dyn> >( "byte/dynamic/cap4096/copy", 4096, true );
    run_byte< cc::WeakRingBuffer<void, traits_static<256, true>> >( "byte/static/cap256/fill", 256, false );
    run_byte< cc::WeakRingBuffer<void, traits_seqcst> >( "byte/dynamic-seqcst/cap128/fill", 128, false );

    p.add_mech( "ring.wraps", g_tot.wraps );
    p.add_mech( "ring.failed_push_full", g_tot.failed_push );
    p.add_mech( "ring.failed_pop_empty", g_tot.failed_pop );
    p.add_mech( "byte.tail_markers", g_tot.tail_markers );
    p.add_extra( "episodes", g_tot.episodes );
    p.add_extra( "episodes_with_full_and_empty", g_tot.full_and_empty );
    p.add_extra( "elements_or_records_delivered", g_tot.delivered );
    p.add_extra( "typed.batches_straddling_array_end", g_tot.straddle );
    p.add_extra( "typed.batches_of_exactly_capacity(NDEBUG only)", g_tot.full_cap_batches );
    p.add_extra( "front_calls", g_tot.peeks );
    p.add_extra( "front_called_twice", g_tot.double_peeks );
    p.add_extra( "typed.front_on_surely_full_ring_then_other_consumer_call", g_tot.front_on_full );
    p.add_extra( "byte.bytes_delivered", g_tot.bytes );
    p.add_extra( "byte.wraps_tail_0", g_tot.tail0 );
    p.add_extra( "byte.wraps_tail_8", g_tot.tail8 );
    p.add_extra( "byte.wraps_tail_16", g_tot.tail16 );
    p.add_extra( "byte.wraps_tail_larger", g_tot.tail_other );
    p.add_extra( "byte.rejected_on_empty_ring(records never wrap)", g_tot.nowrap_reject );
    p.add_extra( "byte.fallback_to_small_record", g_tot.fallback );
    p.add_extra( "byte.placement_not_as_modelled", g_tot.placement_unexpected );
    return finish( "ringbuf" );
}
