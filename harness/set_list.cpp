// C13 (+C18 quiescent checks, +C20 sequential mode): ordered lists as sets - MichaelList, LazyList, IterableList over HP, DHP and the URCU flavours.
#include <cdsv/setadapt.h>
#include <cds/urcu/general_instant.h>
#include <cds/urcu/general_buffered.h>
#include <cds/urcu/general_threaded.h>
#include <cds/urcu/signal_buffered.h>
#include <cds/container/michael_list_hp.h>
#include <cds/container/michael_list_dhp.h>
#include <cds/container/michael_list_rcu.h>
#include <cds/container/lazy_list_hp.h>
#include <cds/container/lazy_list_dhp.h>
#include <cds/container/lazy_list_rcu.h>
#include <cds/container/iterable_list_hp.h>
#include <cds/container/iterable_list_dhp.h>

namespace {
    using namespace cdsv;
    namespace cc = cds::container;

    typedef cds::atomicity::item_counter IC;
    typedef cds::atomicity::empty_item_counter NoIC;

    template <class S> struct Mk: MakeBase { static S* make() { return new S; } };
    template <class S> struct MkMichael: Mk<S> {
        static void mechanisms( S& s, PropStats& ps )
        {
            auto const& st = s.statistics();
            ps.add_mech( "michael_list.onInsertRetry", st.m_nInsertRetry.get()); ps.add_mech( "michael_list.onEraseRetry", st.m_nEraseRetry.get());
            ps.add_mech( "michael_list.onHelpingSuccess", st.m_nHelpingSuccess.get()); ps.add_mech( "michael_list.onUpdateRetry", st.m_nUpdateRetry.get());
        }
    };
    template <class S> struct MkLazy: Mk<S> {
        static constexpr bool extract_locked = true;    // only consulted for RCU-based lists
        static void mechanisms( S& s, PropStats& ps )
        {
            auto const& st = s.statistics();
            ps.add_mech( "lazy_list.onValidationFailed", st.m_nValidationFailed.get()); ps.add_mech( "lazy_list.onValidationSuccess", st.m_nValidationSuccess.get());
        }
    };
    template <class S> struct MkIter: Mk<S> {
        static void mechanisms( S& s, PropStats& ps )
        {
            auto const& st = s.statistics();
            ps.add_mech( "iterable_list.onInsertRetry", st.m_nInsertRetry.get()); ps.add_mech( "iterable_list.onReuseNode", st.m_nReuseNode.get());
            ps.add_mech( "iterable_list.onNodeMarkFailed", st.m_nNodeMarkFailed.get()); ps.add_mech( "iterable_list.onNodeSeqBreak", st.m_nNodeSeqBreak.get());
            ps.add_mech( "iterable_list.onEraseRetry", st.m_nEraseRetry.get()); ps.add_mech( "iterable_list.onUpdateExisting", st.m_nUpdateExisting.get());
        }
    };

    template <class ICt, bool UseCompare, class BO>
    struct ml_less: cc::michael_list::traits { typedef ItemLess less; typedef ICt item_counter; typedef cc::michael_list::stat<> stat; typedef BO back_off; };
    template <class ICt, class BO>
    struct ml_less<ICt, true, BO>: cc::michael_list::traits { typedef ItemCmp compare; typedef ICt item_counter; typedef cc::michael_list::stat<> stat; typedef BO back_off; };
    template <class ICt, bool UseCompare, class BO>
    struct ll_tr: cc::lazy_list::traits { typedef ItemLess less; typedef ICt item_counter; typedef cc::lazy_list::stat<> stat; typedef BO back_off; };
    template <class ICt, class BO>
    struct ll_tr<ICt, true, BO>: cc::lazy_list::traits { typedef ItemCmp compare; typedef ICt item_counter; typedef cc::lazy_list::stat<> stat; typedef BO back_off; };
    template <class ICt, bool UseCompare, class BO>
    struct il_tr: cc::iterable_list::traits { typedef ItemLess less; typedef ICt item_counter; typedef cc::iterable_list::stat<> stat; typedef BO back_off; };
    template <class ICt, class BO>
    struct il_tr<ICt, true, BO>: cc::iterable_list::traits { typedef ItemCmp compare; typedef ICt item_counter; typedef cc::iterable_list::stat<> stat; typedef BO back_off; };

    typedef cds::urcu::gc<cds::urcu::general_instant<>> rcu_gpi;
    typedef cds::urcu::gc<cds::urcu::general_buffered<>> rcu_gpb;
    typedef cds::urcu::gc<cds::urcu::general_threaded<>> rcu_gpt;
#ifdef CDS_URCU_SIGNAL_HANDLING_ENABLED
    typedef cds::urcu::gc<cds::urcu::signal_buffered<>> rcu_shb;
#endif

    static const unsigned M_LIST_GC = M_GC_SET | M_ERSW | M_FNDW;
    static const unsigned M_ITER_GC = M_GC_SET | M_UPS | M_ERSW | M_FNDW;
    static const unsigned M_LIST_RCU = M_GC_SET | M_ERSW | M_FNDW;

    template <class S, unsigned Sup, int UK, class Rcu, template <class> class MkT>
    void go( const char* name, bool check_size )
    {
        // IterableList gets a 2.5x budget: its defects found so far (F19 and the seeded C13-2) need a stall in a narrow window and showed
        // up about once in 2000 segments
        run_set_variant< SetAdapter<S, MkT<S>, Sup, UK, Rcu, true> >( "C13", name, true, check_size, 0, UK == UPD_REPLACING ? 2.5 : 1.0 );
    }
}

int main( int argc, char** argv )
{
    parse_args( argc, argv );
    limit_memory_gb( 8 );
    const char* rule = "one evaluation = one round/segment (2-4 threads, seeded programs over 2-8 keys, full alphabet incl. functor forms, update/upsert, extract, get, *_with) of one container variant; every key's sub-history "
                       "(incl. the sequential lookups at the barrier that pin the next initial state) is checked by WGL against the absent|present(id) register model; "
                       "non-trivial = >=1 pair of operations of different threads overlaps on one key; distinct = fingerprint of the per-key (op, normalised ids, results, event order) structures of the round";
    prop( "C13" ).rule = rule;
    prop( "C18" ).rule = "one evaluation = one quiescent point (all workers parked at the barrier after a checked round): iterator traversal yields exactly the keys that lookups report present, each once, strictly increasing for ordered containers; "
                         "size()/empty() exact where an item counter is configured; check_consistency() for trees; non-trivial/distinct = the preceding round had overlapping operations (fingerprint of that round)";
    prop( "C20" ).rule = "one evaluation = one single-threaded sequence of 1-200 API calls (random alphabet, 3 keys or 2000 keys) followed by lookups of every key; results (incl. update's pair, observed ids, functor call counts and is-new flags) "
                         "must match the sequential set/map model exactly, traversal/size()/empty() compared after every sequence; distinct = fingerprint of the call/result sequence";
    LibInit lib;
    {
        rcu_gpi gpi; rcu_gpb gpb( 8 ); rcu_gpt gpt( 8 );
#ifdef CDS_URCU_SIGNAL_HANDLING_ENABLED
        rcu_shb shb( 8 );
#endif
        SmrSetup smr( 8, 8 );    // constructs HP + DHP and attaches the main thread to every singleton constructed so far
        typedef cds::gc::HP HP; typedef cds::gc::DHP DHP;
        typedef cds::backoff::Default BoD; typedef cds::backoff::empty BoE;

        go< cc::MichaelList<HP, Item, ml_less<IC, false, BoE>>, M_LIST_GC, UPD_STD, void, MkMichael >( "MichaelList<HP,less,ic>", true );
        go< cc::MichaelList<DHP, Item, ml_less<NoIC, true, BoD>>, M_LIST_GC, UPD_STD, void, MkMichael >( "MichaelList<DHP,compare,noic,backoff>", false );
        go< cc::MichaelList<rcu_gpb, Item, ml_less<IC, false, BoE>>, M_LIST_RCU, UPD_STD, rcu_gpb, MkMichael >( "MichaelList<RCU_gpb,less,ic>", true );
        go< cc::MichaelList<rcu_gpi, Item, ml_less<IC, true, BoD>>, M_LIST_RCU, UPD_STD, rcu_gpi, MkMichael >( "MichaelList<RCU_gpi,compare,ic>", true );
        go< cc::MichaelList<rcu_gpt, Item, ml_less<NoIC, false, BoE>>, M_LIST_RCU, UPD_STD, rcu_gpt, MkMichael >( "MichaelList<RCU_gpt,less,noic>", false );
#ifdef CDS_URCU_SIGNAL_HANDLING_ENABLED
        go< cc::MichaelList<rcu_shb, Item, ml_less<IC, false, BoE>>, M_LIST_RCU, UPD_STD, rcu_shb, MkMichael >( "MichaelList<RCU_shb,less,ic>", true );
#endif
        go< cc::LazyList<HP, Item, ll_tr<IC, false, BoE>>, M_LIST_GC, UPD_STD, void, MkLazy >( "LazyList<HP,less,ic>", true );
        go< cc::LazyList<DHP, Item, ll_tr<NoIC, true, BoD>>, M_LIST_GC, UPD_STD, void, MkLazy >( "LazyList<DHP,compare,noic,backoff>", false );
        go< cc::LazyList<rcu_gpb, Item, ll_tr<IC, true, BoE>>, M_LIST_RCU, UPD_STD, rcu_gpb, MkLazy >( "LazyList<RCU_gpb,compare,ic>", true );
        go< cc::LazyList<rcu_gpi, Item, ll_tr<IC, false, BoD>>, M_LIST_RCU, UPD_STD, rcu_gpi, MkLazy >( "LazyList<RCU_gpi,less,ic>", true );
        go< cc::LazyList<rcu_gpt, Item, ll_tr<IC, false, BoE>>, M_LIST_RCU, UPD_STD, rcu_gpt, MkLazy >( "LazyList<RCU_gpt,less,ic>", true );
#ifdef CDS_URCU_SIGNAL_HANDLING_ENABLED
        go< cc::LazyList<rcu_shb, Item, ll_tr<NoIC, false, BoE>>, M_LIST_RCU, UPD_STD, rcu_shb, MkLazy >( "LazyList<RCU_shb,less,noic>", false );
#endif
        go< cc::IterableList<HP, Item, il_tr<IC, false, BoE>>, M_ITER_GC, UPD_REPLACING, void, MkIter >( "IterableList<HP,less,ic>", true );
        go< cc::IterableList<DHP, Item, il_tr<IC, true, BoD>>, M_ITER_GC, UPD_REPLACING, void, MkIter >( "IterableList<DHP,compare,ic,backoff>", true );
        go< cc::IterableList<HP, Item, il_tr<NoIC, true, BoE>>, M_ITER_GC, UPD_REPLACING, void, MkIter >( "IterableList<HP,compare,noic>", false );
    }
    return finish( "set_list" );
}
