// C25 / C26 / C27 / C28: "pure function" properties decided by running the real libcds code against naive references.
//  C25  bit reversal (swar/lookup/muldiv), bitop (MSB/LSB/SBC/ZBC/RBO/complement), beans (log2floor...), bit-string/byte/number splitters
//  C26  bit_reverse_counter (heap slot enumeration of MSPriorityQueue)
//  C27  split-list key encoding (regular_hash/dummy_hash, bucket_no/parent_bucket through a derived probe, small real split lists)
//  C28  FeldmanHashSet metrics::make normalisation and real sets fed with hashes sharing the longest possible prefixes
// Variant names are "<property>.<sub-check>"; with --prop only that property's variants run.
#include <cstdlib>
#include <cstdint>
#include <cassert>
#include <cstring>
#include <vector>
#include <set>
#include <map>
#include <string>

// The portable fall-backs of cds/details/bitop_generic.h (msb32, lsb32, ... "Source: Linux kernel") are compiled out on amd64
// because the inline-asm versions define cds_bitop_*_DEFINED first. They belong to the property's anchor file, so the unmodified
// header text is compiled a second time inside a wrapper namespace before any other libcds header defines those macros.
namespace cdsv_generic {
#include <cds/details/bitop_generic.h>
}
#undef CDSLIB_DETAILS_BITOP_GENERIC_H

#include <cdsv/core.h>
#include <cdsv/smr.h>
#include <cds/algo/bit_reversal.h>
#include <cds/algo/bitop.h>
#include <cds/algo/int_algo.h>
#include <cds/algo/split_bitstring.h>
#include <cds/details/bit_reverse_counter.h>
#include <cds/intrusive/free_list.h>
#include <cds/intrusive/michael_list_hp.h>
#include <cds/intrusive/split_list.h>
#include <cds/intrusive/feldman_hashset_hp.h>

#include <cdsv/pure_common.h>
#include <cdsv/pure_c25_bits.h>
#include <cdsv/pure_c25_split.h>
#include <cdsv/pure_c26.h>
#include <cdsv/pure_c27.h>
#include <cdsv/pure_c28.h>

int main( int argc, char** argv )
{
    using namespace pure;
    parse_args( argc, argv );
    limit_memory_gb( 8 );
    tab();
    auto mine = []( const char* id ) { return args().prop.empty() || args().prop == id; };

    if ( mine( "C25" )) prop( "C25" ).rule =
        "one evaluation = one (function under test, input) result compared with a bit-by-bit reference, or one (splitter type, source value, cut-width sequence, cut/safe_cut mode) case "
        "whose every returned field, bit_offset, rest_count, eos and the re-assembled source are compared with a little-endian bit-string model. "
        "Exhaustive sub-domains: all 256 bytes for muldiv32_byte/muldiv64_byte and every lookup-table entry at every byte position; thorough tier: ALL 2^32 inputs of every 32-bit function "
        "(quick: 2^24 inputs stratified over every 23-bit prefix and every 23-bit suffix, plus boundary values); 8-bit sources: all 256 values x all cut-width compositions accepted by the splitter; "
        "16-bit sources: all accepted compositions x a source sample, and all 65536 values x all compositions of at most 2 (quick) / 3 (thorough) parts; 32/64/48/160-bit sources and 64-bit function inputs: structured + seeded random. "
        "distinct_nontrivial counts: (function family, high-16-bit input bucket) pairs for 32-bit inputs, distinct structured 64-bit inputs, (msb,lsb,popcount) classes of random 64-bit inputs, "
        "(splitter type, cut-width sequence, mode) for splitter cases; every case exercises the function, so none is trivial. "
        "Sanitizer build: number_splitter widths >= 31 (the int mask computation) are first run in forked probes; a width whose probe dies under UBSan is reported and kept out of the in-process run "
        "(quick tier probes widths 31,32,33,40,47,48,56,62,63, thorough all); sources of the bit-string/byte splitters end exactly at the end of a heap block so that ASan sees any over-read";
    if ( mine( "C26" )) prop( "C26" ).rule =
        "one evaluation = one n (the n-th inc() of a fresh counter: slot distinct from all earlier ones, inside level floor(log2 n), complete levels are permutations, literal prefix clause, dec() undoes and re-inc repeats) "
        "or one inc/dec word (exhaustive depth-first enumeration of all Dyck-prefix words up to a fixed length, and long seeded random walks) compared with a stack model; "
        "exhaustive sub-domains: every n up to 2^16 (quick) / 2^20 (thorough), every inc/dec word up to length 20 (quick) / 26 (thorough); for bit_reverse_counter<size_t> and <uint32_t>. "
        "distinct_nontrivial = (counter type, n) pairs plus (counter type, word length, final depth) classes; non-trivial = n >= 5 (the first n where the fill order is not the identity) or words containing a dec";
    if ( mine( "C27" )) prop( "C27" ).rule =
        "one evaluation = one (bit-reversal algorithm, table size 2^k, hash h) case: regular_hash odd and equal to reference reversal|1, dummy_hash even, dummy(h mod 2^k) < regular(h) < dummy(successor bucket in split order), "
        "parent dummy < child dummy, and the same after the table doubles; or one (k, h) / bucket case of SplitListSet::bucket_no / parent_bucket called through a derived probe; or one real split list whose iteration order is compared with the model. "
        "Exhaustive sub-domains: all k = 0..63 for each of swar/lookup/muldiv, all 2^16 low hash patterns per k. distinct_nontrivial = (algorithm, k, bucket mod 1024) classes, (k) for the probe, list configurations; non-trivial = k >= 1. "
        "Sanitizer build: bucket_no / parent_bucket for 2^30 buckets and more are first run in forked probes (quick tier: 30,31,32,33,40,47,48,56,62,63; thorough: all), a probe killed by UBSan is reported and that size is skipped in-process";
    if ( mine( "C28" )) prop( "C28" ).rule =
        "one evaluation = one metrics::make(head_bits, array_bits, hash_size) configuration (exhaustive: head_bits 0..hash_bits, array_bits 0..16, hash sizes 1,2,4,8 and the byte-array sizes used below), "
        "or one real FeldmanHashSet<HP> (hash type, head_bits, array_bits) fed with a set of hashes sharing the longest possible prefixes (all values of the last chunk, every single-bit neighbour of a base, all-zeros, all-ones, random): "
        "every distinct hash must insert, an equal hash in another node must be rejected, all must be found, size() exact, get_level_statistics must equal the minimal-trie model. "
        "distinct_nontrivial = distinct normalised configurations; non-trivial = sets in which at least one slot was expanded (real sets) / every configuration (make). "
        "Real sets are limited to normalised heads <= 16 bits and skip configurations rejected by the constructor's own is_correct() assertions; make() with a 64-bit head (2^64 not representable) is probed in a forked child in the sanitizer build";

    LibInit lib;
    {
        SmrSetup smr( 16, 4 );
        c25_bytes();
        c25_bits32();
        c25_bits64();
        c25_splitters();
        c26_all();
        c27_all();
        c28_all();
    }
    // occurrences beyond the first dozen per failure class are only counted
    prop( args().prop.empty() ? "C25" : args().prop ).add_extra( "reports_suppressed_by_gate(all properties of this run)", suppressed().load());
    return finish( "pure" );
}
