// C01 / C02 / C03: hazard-pointer SMR cores (cds::gc::HP with both scan strategies, cds::gc::DHP).
//  - guard monitor: an object obtained through protect()/assign+recheck/copy/guarded_ptr is read repeatedly while
//    the guard is held; reading the DISPOSED mark (or an ASan use-after-free) is a violation (C01 HP, C02 DHP);
//  - dispose ledger: every object has a side-table entry counting disposer calls: never > 1, exactly 1 for every
//    retired object once the GC singleton is destroyed, 0 for never-retired objects (C03);
//  - eager clause: a scan() that runs while no guard protects a retired object frees it; while a guard protects it, not.
#include <cdsv/core.h>
#include <cdsv/smr.h>
#include <cds/gc/hp.h>
#include <cds/gc/dhp.h>
#include <memory>

namespace {
    using namespace cdsv;

    enum : uint8_t { ST_LIVE = 0xA1, ST_RETIRED = 0xB2, ST_DISPOSED = 0xDE };

    // byte-only object: alignment 1, so it can live at odd addresses
    struct Obj {
        std::atomic<uint8_t> state;
        uint8_t heap;
        uint8_t idb[4];
        uint8_t pad[2];
        uint32_t id() const { uint32_t v; memcpy( &v, idb, 4 ); return v; }
        void set_id( uint32_t v ) { memcpy( idb, &v, 4 ); }
    };
    static_assert( sizeof( Obj ) == 8 && alignof( Obj ) == 1, "Obj layout" );

    struct Ledger {
        std::atomic<uint8_t> retired{ 0 };
        std::atomic<uint8_t> disposed{ 0 };
        std::atomic<uint64_t> pass_call_start{ 0 };   // logical time at which the libcds call that disposed the object was started
    };
    // logical time at which the current thread entered the libcds call (retire/scan/detach/...) it is executing
    thread_local uint64_t t_call_start = 0;
    struct CallMark { CallMark() { t_call_start = tick(); } };

    struct Run {
        std::string variant;
        const char* guard_prop;        // C01 or C02
        std::unique_ptr<Ledger[]> ledger;
        std::unique_ptr<char[]> arena;
        size_t max_objs = 0;
        std::atomic<uint32_t> next_id{ 0 };
        bool odd = false;
        bool heap_half = false;        // asan build: half of the even objects are really new/delete'd
        std::atomic<uint64_t> guarded_reads{ 0 }, protects{ 0 }, retires{ 0 }, disposed_total{ 0 }, churns{ 0 }, scans{ 0 };
        std::atomic<uint64_t> benign_copy_races{ 0 };    // object disposed by a pass that had begun before a Guard::copy hand-off completed (not a violation)
        std::atomic<uint64_t> reads_after_retire{ 0 };   // guarded reads that saw the RETIRED mark (object retired while guarded)
    };
    Run* g_run = nullptr;

    Obj* alloc_obj()
    {
        Run& r = *g_run;
        uint32_t id = r.next_id.fetch_add( 1, std::memory_order_relaxed );
        if ( id >= r.max_objs ) return nullptr;
        Obj* o;
        bool heap = r.heap_half && !r.odd && ( id & 1 );
        if ( heap )
            o = new ( ::operator new( sizeof( Obj ))) Obj;
        else
            o = new ( r.arena.get() + size_t( id ) * 8 + ( r.odd ? 1 : 0 )) Obj;
        o->heap = heap ? 1 : 0;
        o->set_id( id );
        o->state.store( ST_LIVE, std::memory_order_release );
        return o;
    }

    void dispose_fn( void* p )
    {
        Run& r = *g_run;
        Obj* o = static_cast<Obj*>( p );
        uint32_t id = o->id();
        if ( id >= r.max_objs ) { violation( "C03", "dispose-garbage:" + r.variant, "disposer called with a pointer that is not a harness object" ); return; }
        Ledger& l = r.ledger[id];
        l.pass_call_start.store( t_call_start, std::memory_order_relaxed );
        uint8_t c = l.disposed.fetch_add( 1, std::memory_order_acq_rel );
        if ( c != 0 )
            violation( "C03", "double-dispose:" + r.variant, "object " + std::to_string( id ) + " given to its disposer " + std::to_string( c + 1 ) + " times",
                       "{\"object\":" + std::to_string( id ) + ",\"dispose_calls\":" + std::to_string( c + 1 ) + "}" );
        if ( !l.retired.load( std::memory_order_acquire ))
            violation( "C03", "dispose-not-retired:" + r.variant, "object " + std::to_string( id ) + " disposed although it was never retired" );
        r.disposed_total.fetch_add( 1, std::memory_order_relaxed );
        if ( c == 0 ) {
            o->state.store( ST_DISPOSED, std::memory_order_release );
            if ( o->heap ) { o->~Obj(); ::operator delete( o ); }
        }
    }
    struct DisposerF { void operator()( Obj* p ) const { dispose_fn( p ); } };

    // the guarded read: what a user does with a protected pointer
    inline bool check_guarded( Obj* p, const char* form, uint64_t t_copied = 0 )
    {
        Run& r = *g_run;
        uint8_t s = p->state.load( std::memory_order_acquire );
        r.guarded_reads.fetch_add( 1, std::memory_order_relaxed );
        if ( s == ST_LIVE ) return true;
        if ( s == ST_RETIRED ) { r.reads_after_retire.fetch_add( 1, std::memory_order_relaxed ); return true; }
        if ( s == ST_DISPOSED && t_copied ) {
            // copy hand-off: only passes that began after the copy was complete count (see reader form 4)
            if ( r.ledger[p->id()].pass_call_start.load( std::memory_order_acquire ) <= t_copied ) {
                r.benign_copy_races.fetch_add( 1, std::memory_order_relaxed );
                return false;
            }
        }
        std::string what = s == ST_DISPOSED ? "DISPOSED" : "garbage";
        violation( r.guard_prop, "guarded-object-disposed:" + r.variant,
                   std::string( "object read through a live guard (" ) + form + ") carries the " + what + " mark: it was given to its disposer while the guard protected it",
                   "{\"variant\":" + jstr( r.variant ) + ",\"guard_form\":" + jstr( form ) + ",\"object\":" + std::to_string( p->heap ? 0 : p->id()) + ",\"state_byte\":" + std::to_string( s ) + "}" );
        return false;
    }

    struct Cfg {
        bool dhp = false;
        bool classic = false;
        unsigned hazards = 2;          // HP: hazard pointers per thread; DHP: initial guard count
        unsigned threads = 3;          // workers
        unsigned extra_threads = 1;    // HP max_thread_count = threads + 1 (main) + extra
        unsigned retired_mul = 1;      // HP retired capacity = mul * H * maxthreads
        bool odd = false;
        unsigned slots = 2;
        unsigned dhp_guards = 4;       // DHP: guards a reader allocates
        unsigned dhp_burst = 1;        // DHP: max retires between scans
        uint64_t ops = 100000;         // operations per worker
        std::string name() const
        {
            std::ostringstream o;
            if ( dhp ) o << "DHP<init=" << hazards << ",guards=" << dhp_guards << ",burst=" << dhp_burst;
            else o << "HP<" << ( classic ? "classic" : "inplace" ) << ",H=" << hazards << ",maxthr=" << ( threads + 1 + extra_threads ) << ",retired=x" << retired_mul;
            o << ( odd ? ",odd" : ",even" ) << ",T=" << threads << ",slots=" << slots << ">";
            return o.str();
        }
    };

    template <class GC>
    struct Workload {
        typedef typename GC::Guard Guard;
        Cfg cfg;
        Run& run;
        std::unique_ptr<atomics::atomic<Obj*>[]> slots;
        Barrier bar;
        std::atomic<bool> alloc_exhausted{ false };

        Workload( Cfg const& c, Run& r ) : cfg( c ), run( r ), slots( new atomics::atomic<Obj*>[c.slots] ), bar( c.threads + 1 )
        {
            for ( unsigned i = 0; i < c.slots; ++i ) slots[i].store( nullptr, std::memory_order_relaxed );
        }

        void hold( Obj* p, Rng& rng, const char* form, uint64_t t_copied = 0 )
        {
            unsigned n = rng.chance( 1, 8 ) ? rng.range( 20, 80 ) : rng.range( 1, 6 );
            for ( unsigned i = 0; i < n; ++i ) {
                if ( !check_guarded( p, form, t_copied )) return;
                cds_verif_point( 5, nullptr );
                if ( rng.chance( 1, 64 )) sched_yield();
            }
        }

        void reader( Rng& rng )
        {
            atomics::atomic<Obj*>& slot = slots[rng.below( cfg.slots )];
            unsigned maxform = 6;
            unsigned form = rng.below( maxform );
            unsigned avail = cfg.dhp ? 1000 : cfg.hazards;
            if (( form == 4 && avail < 2 ) || ( form == 2 && avail < 3 )) form = 0;
            run.protects.fetch_add( 1, std::memory_order_relaxed );
            // DHP: push the protecting guard into an extension block by allocating filler guards first
            std::unique_ptr<Guard[]> filler;
            if ( cfg.dhp && cfg.dhp_guards > 1 && form != 2 ) {
                unsigned nf = rng.range( 1, cfg.dhp_guards - 1 );
                filler.reset( new Guard[nf] );
            }
            switch ( form ) {
            case 0: { Guard g; Obj* p = g.protect( slot ); if ( p ) hold( p, rng, "Guard::protect" ); break; }
            case 1: { Guard g; Obj* p = g.protect( slot, []( Obj* q ) { return q; } ); if ( p ) hold( p, rng, "Guard::protect(f)" ); break; }
            case 2: {
                typename GC::template GuardArray<3> ga;
                unsigned i = rng.below( 3 );
                Obj* p = ga.protect( i, slot );
                if ( p ) hold( p, rng, "GuardArray::protect" );
                break;
            }
            case 3: {
                Guard g;
                Obj* p;
                for (;;) {
                    p = slot.load( atomics::memory_order_acquire );
                    g.assign( p );
                    if ( slot.load( atomics::memory_order_acquire ) == p ) break;
                }
                if ( p ) hold( p, rng, "Guard::assign+recheck" );
                break;
            }
            case 4: {
                // Hand-off by copy. A reclamation pass that is already walking the hazard slots may read the
                // destination slot before the copy and the source slot after its clear, i.e. miss the pointer; the
                // property only speaks about a guard that protected the object when the pass began. Therefore a
                // DISPOSED mark under the destination guard is a violation only if the disposing pass ran inside a
                // retire/scan/detach call that started after the copy had completed (logical clock comparison).
                Guard g2;
                Obj* p;
                uint64_t t_copied = 0;
                {
                    Guard g1;
                    p = g1.protect( slot );
                    g2.copy( g1 );
                    if ( p && p->heap ) {
                        // really freed objects (ASan build): keep the source guard for the whole hold
                        hold( p, rng, "Guard::copy(both kept)" );
                        break;
                    }
                    g1.clear();
                    t_copied = tick();
                }
                if ( p ) hold( p, rng, "Guard::copy", t_copied );
                break;
            }
            case 5: {
                Guard g;
                Obj* p = g.protect( slot );
                typename GC::template guarded_ptr<Obj> gp( std::move( g ));
                if ( p ) {
                    typename GC::template guarded_ptr<Obj> gp2( std::move( gp ));
                    if ( &*gp2 != p ) violation( run.guard_prop, "guarded_ptr-mismatch:" + run.variant, "guarded_ptr does not hold the protected pointer" );
                    hold( p, rng, "guarded_ptr" );
                    gp2.release();
                }
                break;
            }
            }
        }

        void writer( Rng& rng )
        {
            unsigned burst = cfg.dhp ? rng.range( 1, cfg.dhp_burst ) : 1;
            for ( unsigned b = 0; b < burst; ++b ) {
                Obj* n = alloc_obj();
                if ( !n ) { alloc_exhausted.store( true ); return; }
                atomics::atomic<Obj*>& slot = slots[rng.below( cfg.slots )];
                Obj* old = slot.exchange( n, atomics::memory_order_acq_rel );
                if ( old ) {
                    run.ledger[old->id()].retired.store( 1, std::memory_order_release );
                    old->state.store( ST_RETIRED, std::memory_order_release );
                    run.retires.fetch_add( 1, std::memory_order_relaxed );
                    CallMark cm;
                    if ( rng.chance( 1, 2 )) GC::template retire<DisposerF>( old );
                    else GC::retire( old, dispose_fn );
                }
            }
            if ( cfg.dhp ? rng.chance( 1, 3 ) : rng.chance( 1, 50 )) {
                run.scans.fetch_add( 1, std::memory_order_relaxed );
                CallMark cm;
                if ( rng.chance( 1, 2 )) GC::scan(); else GC::force_dispose();
            }
        }

        void child_thread( uint64_t seed )
        {
            cds::threading::Manager::attachThread();
            cdsv_rt_thread_begin( 60 );
            Rng rng( seed );
            unsigned k = rng.range( 1, 12 );
            for ( unsigned i = 0; i < k && !alloc_exhausted.load(); ++i ) {
                if ( rng.chance( 1, 2 )) reader( rng ); else writer( rng );
            }
            cdsv_rt_thread_end();
            { CallMark cm; cds::threading::Manager::detachThread(); }
        }

        void worker( unsigned tid )
        {
            cds::threading::Manager::attachThread();
            bar.wait();
            cdsv_rt_thread_begin( tid );
            Rng rng( mix64( args().seed ) ^ mix64( std::hash<std::string>()( run.variant )) ^ ( tid + 1 ));
            unsigned rw = rng.range( 1, 3 );   // reader weight 1..3 of 4
            for ( uint64_t i = 0; i < cfg.ops && !alloc_exhausted.load( std::memory_order_relaxed ); ++i ) {
                unsigned x = rng.below( 400 );
                if ( x == 0 ) {
                    // churn: this thread detaches (its record is orphaned with whatever is still retired in it),
                    // a short-lived thread attaches (re-using a record), works and exits, then this thread re-attaches
                    run.churns.fetch_add( 1, std::memory_order_relaxed );
                    cdsv_rt_thread_end();
                    { CallMark cm; cds::threading::Manager::detachThread(); }
                    uint64_t s = rng.next();
                    std::thread t( [this, s]() { child_thread( s ); } );
                    t.join();
                    cds::threading::Manager::attachThread();
                    cdsv_rt_thread_begin( tid );
                }
                else if ( x % 4 < rw ) reader( rng );
                else writer( rng );
            }
            cdsv_rt_thread_end();
            bar.wait();
            { CallMark cm; cds::threading::Manager::detachThread(); }
        }

        void run_threads()
        {
            std::vector<std::thread> th;
            for ( unsigned i = 0; i < cfg.threads; ++i ) th.emplace_back( [this, i]() { worker( i ); } );
            bar.wait();
            bar.wait();
            for ( auto& t : th ) t.join();
        }
    };

    // deterministic eager-reclamation clause: all other threads are gone, the main thread is attached
    template <class GC>
    void eager_clause( Cfg const& cfg, Run& run, size_t capacity )
    {
        typedef typename GC::Guard Guard;
        PropStats& ps3 = prop( "C03" );
        std::vector<size_t> counts = { 1, 2, 3 };
        if ( capacity > 2 ) { counts.push_back( capacity - 1 ); }
        counts.push_back( capacity ); counts.push_back( capacity + 1 ); counts.push_back( 2 * capacity + 3 );
        if ( cfg.dhp ) { counts.push_back( 255 ); counts.push_back( 256 ); counts.push_back( 257 ); counts.push_back( 700 ); }
        unsigned hz = cfg.dhp ? 8 : cfg.hazards;
        for ( size_t n : counts ) {
            // patterns of protection: none, first only, all but one (bounded by hazard count), last only;
            // DHP (unbounded guards) with a full retired block: 4 = four fifths protected, 5 = all but the last, 6 = all
            // (a pass that frees less than a quarter of a full array makes DHP extend the array)
            // 7, 8 = no retired object is protected, but a guard is held on a live, never retired object with a lower (7) / higher (8) address
            for ( int pat = 0; pat < 9; ++pat ) {
                if ( pat >= 4 && pat <= 6 && !( cfg.dhp && n >= 255 )) continue;
                Obj* decoy_lo = pat == 7 ? alloc_obj() : nullptr;
                std::vector<Obj*> objs;
                for ( size_t i = 0; i < n; ++i ) { Obj* o = alloc_obj(); if ( !o ) return; objs.push_back( o ); }
                std::vector<uint32_t> ids;
                for ( Obj* o : objs ) ids.push_back( o->id());
                std::vector<char> prot( n, 0 );
                if ( pat == 1 ) prot[0] = 1;
                else if ( pat == 2 ) { for ( size_t i = 0; i + 1 < n && i < hz; ++i ) prot[i] = 1; }
                else if ( pat == 3 ) prot[n - 1] = 1;
                else if ( pat == 4 ) { for ( size_t i = 0; i < n - n / 5; ++i ) prot[i] = 1; }
                else if ( pat == 5 ) { for ( size_t i = 0; i + 1 < n; ++i ) prot[i] = 1; }
                else if ( pat == 6 ) { for ( size_t i = 0; i < n; ++i ) prot[i] = 1; }
                Obj* decoy_hi = pat == 8 ? alloc_obj() : nullptr;
                Obj* decoy = decoy_lo ? decoy_lo : decoy_hi;
                if ( pat >= 7 && !decoy ) return;
                size_t nprot = 0; for ( char c : prot ) nprot += c;
                if ( pat < 4 && nprot > hz ) continue;
                {
                    std::unique_ptr<Guard[]> guards( nprot ? new Guard[nprot] : nullptr );
                    std::unique_ptr<Guard> decoy_guard;
                    if ( decoy ) { decoy_guard.reset( new Guard ); decoy_guard->assign( decoy ); }
                    size_t gi = 0;
                    for ( size_t i = 0; i < n; ++i ) if ( prot[i] ) guards[gi++].assign( objs[i] );
                    for ( size_t i = 0; i < n; ++i ) {
                        run.ledger[ids[i]].retired.store( 1 );
                        objs[i]->state.store( ST_RETIRED );
                        run.retires.fetch_add( 1 );
                        if ( i & 1 ) GC::template retire<DisposerF>( objs[i] ); else GC::retire( objs[i], dispose_fn );
                    }
                    GC::scan();
                    ps3.evaluations.fetch_add( 1 );
                    ps3.operations.fetch_add( n + 1 );
                    {
                        // distinct non-trivial case = (variant class, n, pattern); non-trivial: at least one object retired and one scan
                        uint64_t fp = mix64( std::hash<std::string>()( run.variant )) ^ mix64( n * 8 + pat );
                        ps3.add_fp( fp ); ps3.nontrivial.fetch_add( 1 );
                    }
                    for ( size_t i = 0; i < n; ++i ) {
                        uint8_t d = run.ledger[ids[i]].disposed.load();
                        if ( prot[i] && d ) {
                            violation( run.guard_prop, "eager-guarded-disposed:" + run.variant,
                                       "scan() disposed retired object #" + std::to_string( i ) + " of " + std::to_string( n ) + " although a guard of the calling thread protects it (protection pattern " + std::to_string( pat ) + ")",
                                       "{\"variant\":" + jstr( run.variant ) + ",\"retired\":" + std::to_string( n ) + ",\"pattern\":" + std::to_string( pat ) + ",\"index\":" + std::to_string( i ) + "}" );
                            break;
                        }
                        if ( !prot[i] && !d ) {
                            violation( "C03", "eager-unguarded-not-disposed:" + run.variant,
                                       "scan() ran while no guard protected retired object #" + std::to_string( i ) + " of " + std::to_string( n ) + " but did not dispose it (protection pattern " + std::to_string( pat ) + ")",
                                       "{\"variant\":" + jstr( run.variant ) + ",\"retired\":" + std::to_string( n ) + ",\"pattern\":" + std::to_string( pat ) + ",\"index\":" + std::to_string( i ) + "}" );
                            break;
                        }
                    }
                }
                // guards released: a second scan must free the rest
                GC::scan();
                if ( decoy && decoy->heap ) { decoy->~Obj(); ::operator delete( decoy ); }
                for ( size_t i = 0; i < n; ++i ) {
                    if ( run.ledger[ids[i]].disposed.load() != 1 ) {
                        violation( "C03", "eager-after-release-not-disposed:" + run.variant,
                                   "scan() after the guards were released left retired object #" + std::to_string( i ) + " of " + std::to_string( n ) + " undisposed" );
                        break;
                    }
                }
                if ( ps3.need_sample( 3 ))
                    ps3.add_sample( "{\"variant\":" + jstr( run.variant ) + ",\"case\":\"eager clause\",\"retired\":" + std::to_string( n ) + ",\"protected\":" + std::to_string( nprot )
                                    + ",\"pattern\":" + std::to_string( pat ) + ",\"result\":\"unguarded disposed by scan(), guarded kept until released\"}", 3 );
            }
        }
    }

    // DHP only: a thread whose retired array has grown to several blocks detaches while another thread still guards some of its retired
    // objects (the record keeps them, the empty blocks are given back), the record is re-used by the next thread to attach, and that thread
    // fills the array again while everything in it is guarded. Every object must still be disposed exactly once.
    void dhp_record_reuse_clause( Run& run )
    {
        typedef cds::gc::DHP GC;
        PropStats& ps3 = prop( "C03" );
        const size_t N1 = 540, KEEP = 100, N2 = 300;
        std::vector<Obj*> a, b;
        for ( size_t i = 0; i < N1; ++i ) { Obj* o = alloc_obj(); if ( !o ) return; a.push_back( o ); }
        for ( size_t i = 0; i < N2; ++i ) { Obj* o = alloc_obj(); if ( !o ) return; b.push_back( o ); }
        std::vector<uint32_t> ids;
        for ( Obj* o : a ) ids.push_back( o->id());
        for ( Obj* o : b ) ids.push_back( o->id());
        Barrier bar( 2 );
        std::thread helper( [&]() {
            cds::threading::Manager::attachThread();
            {
                std::unique_ptr<GC::Guard[]> ga( new GC::Guard[N1] );
                for ( size_t i = 0; i < N1; ++i ) ga[i].assign( a[i] );
                bar.wait();     // 1: a[] guarded
                bar.wait();     // 2: main has retired a[]
                for ( size_t i = KEEP; i < N1; ++i ) ga[i].clear();
                std::unique_ptr<GC::Guard[]> gb( new GC::Guard[N2] );
                for ( size_t i = 0; i < N2; ++i ) gb[i].assign( b[i] );
                bar.wait();     // 3: only a[0..KEEP) and b[] guarded
                bar.wait();     // 4: main has detached, re-attached and retired b[]
            }
            cds::threading::Manager::detachThread();
        } );
        auto retire = [&run]( Obj* o ) {
            run.ledger[o->id()].retired.store( 1 );
            o->state.store( ST_RETIRED );
            run.retires.fetch_add( 1 );
            GC::retire( o, dispose_fn );
        };
        bar.wait();             // 1
        for ( Obj* o : a ) retire( o );     // nothing can be freed: the array grows to three blocks
        bar.wait();             // 2
        bar.wait();             // 3
        cds::threading::Manager::detachThread();    // frees a[KEEP..), keeps the first block, gives the others back
        cds::threading::Manager::attachThread();    // re-uses the record
        for ( Obj* o : b ) retire( o );     // fills the kept block and goes on; everything in it is guarded
        bar.wait();             // 4
        helper.join();
        GC::scan();
        ps3.evaluations.fetch_add( 1 ); ps3.operations.fetch_add( N1 + N2 + 3 ); ps3.nontrivial.fetch_add( 1 );
        ps3.add_fp( mix64( std::hash<std::string>()( run.variant )) ^ 0x7e05eULL );
        for ( size_t i = 0; i < ids.size(); ++i ) {
            if ( run.ledger[ids[i]].disposed.load() != 1 ) {
                violation( "C03", "dhp-record-reuse-not-disposed-once:" + run.variant,
                           "object #" + std::to_string( i ) + " retired around a detach/re-attach of its thread record was disposed " + std::to_string( run.ledger[ids[i]].disposed.load()) + " times after all guards were released and scan() ran" );
                break;
            }
        }
    }

    template <class GC> struct GcCtl;
    template <> struct GcCtl<cds::gc::HP> {
        std::unique_ptr<cds::gc::HP> gc;
        size_t cap = 0;
        void construct( Cfg const& c )
        {
            size_t maxthr = c.threads + 1 + c.extra_threads;
            size_t retired = c.retired_mul == 1 ? c.hazards * maxthr : c.retired_mul * c.hazards * maxthr;
            gc.reset( new cds::gc::HP( c.hazards, maxthr, retired, c.classic ? cds::gc::HP::scan_type::classic : cds::gc::HP::scan_type::inplace ));
            cap = cds::gc::HP::retired_array_capacity();
        }
        void stats( PropStats& ps, std::string const& pfx )
        {
#ifdef CDS_ENABLE_HPSTAT
            cds::gc::HP::stat st; cds::gc::HP::statistics( st );
            ps.add_mech( pfx + "scan_count", st.scan_count ); ps.add_mech( pfx + "help_scan_count", st.help_scan_count );
            ps.add_mech( pfx + "free_count", st.free_count ); ps.add_mech( pfx + "thread_rec_count", st.thread_rec_count );
#else
            (void) ps; (void) pfx;
#endif
        }
    };
    template <> struct GcCtl<cds::gc::DHP> {
        std::unique_ptr<cds::gc::DHP> gc;
        size_t cap = 256;
        void construct( Cfg const& c ) { gc.reset( new cds::gc::DHP( c.hazards )); }
        void stats( PropStats& ps, std::string const& pfx )
        {
#ifdef CDS_ENABLE_HPSTAT
            cds::gc::DHP::stat st; cds::gc::DHP::statistics( st );
            ps.add_mech( pfx + "scan_count", st.scan_count ); ps.add_mech( pfx + "help_scan_count", st.help_scan_count );
            ps.add_mech( pfx + "free_count", st.free_count ); ps.add_mech( pfx + "hp_extend_count", st.hp_extend_count );
            ps.add_mech( pfx + "retired_extend_count", st.retired_extend_count ); ps.add_mech( pfx + "hp_block_count", st.hp_block_count );
            ps.add_mech( pfx + "retired_block_count", st.retired_block_count ); ps.add_mech( pfx + "thread_rec_count", st.thread_rec_count );
#else
            (void) ps; (void) pfx;
#endif
        }
    };

    template <class GC>
    void run_cfg( Cfg cfg )
    {
        std::string name = cfg.name();
        if ( !args().want( name )) return;
        set_variant( name );
        const char* gp = cfg.dhp ? "C02" : "C01";
        PropStats& psg = prop( gp );
        PropStats& ps3 = prop( "C03" );
        Run run;
        run.variant = name;
        run.guard_prop = gp;
        run.odd = cfg.odd;
#ifdef __SANITIZE_ADDRESS__
        run.heap_half = true;
#endif
        run.max_objs = size_t( cfg.ops ) * cfg.threads * ( cfg.dhp ? ( cfg.dhp_burst + 1 ) / 2 + 1 : 1 ) + 100000;
        run.ledger.reset( new Ledger[run.max_objs] );
        run.arena.reset( new char[run.max_objs * 8 + 16] );
        g_run = &run;

        GcCtl<GC> ctl;
        ctl.construct( cfg );
        cds::threading::Manager::attachThread();
        eager_clause<GC>( cfg, run, ctl.cap );
        if ( cfg.dhp && violation_total() == 0 ) dhp_record_reuse_clause( run );
        uint64_t retired_eager = run.retires.load();
        bool eager_failed = violation_total() != 0;

        cdsv_rt_configure( mix64( args().seed ) ^ std::hash<std::string>()( name ), unsigned(( args().seed + std::hash<std::string>()( name )) % 8 ), 2, cfg.ops * 40 );
        Workload<GC> w( cfg, run );
        if ( !eager_failed )   // a failed eager clause leaves the retired array in a state the workload must not build on
            w.run_threads();

        // objects still in the slots were never retired
        for ( unsigned i = 0; i < cfg.slots; ++i ) {
            Obj* o = w.slots[i].load( std::memory_order_relaxed );
            w.slots[i].store( nullptr, std::memory_order_relaxed );
            if ( o && o->heap ) { o->~Obj(); ::operator delete( o ); }
        }
        ctl.stats( psg, cfg.dhp ? "dhp." : ( cfg.classic ? "hp.classic." : "hp.inplace." ));
        ctl.stats( ps3, cfg.dhp ? "dhp." : ( cfg.classic ? "hp.classic." : "hp.inplace." ));
        cds::threading::Manager::detachThread();
        ctl.gc.reset();    // destroys the singleton: every retired object must have been disposed exactly once by now

        uint32_t n = std::min<uint64_t>( run.next_id.load(), run.max_objs );
        uint64_t bad = 0;
        for ( uint32_t id = 0; id < n; ++id ) {
            uint8_t r = run.ledger[id].retired.load(), d = run.ledger[id].disposed.load();
            if ( r && d != 1 ) {
                if ( bad++ < 3 )
                    violation( "C03", ( d == 0 ? "not-disposed-at-destruction:" : "multi-dispose-at-destruction:" ) + name,
                               "retired object " + std::to_string( id ) + " has been given to its disposer " + std::to_string( d ) + " time(s) after destruction of the reclamation singleton",
                               "{\"variant\":" + jstr( name ) + ",\"object\":" + std::to_string( id ) + ",\"dispose_calls\":" + std::to_string( d ) + "}" );
            }
            if ( !r && d ) {
                if ( bad++ < 3 ) violation( "C03", "disposed-never-retired:" + name, "object " + std::to_string( id ) + " was disposed but never retired" );
            }
        }
        // guard property evidence: one evaluation = one guarded hold (protect ... release) ; non-trivial = the object was retired while guarded
        psg.evaluations.fetch_add( run.protects.load());
        psg.operations.fetch_add( run.guarded_reads.load());
        psg.nontrivial.fetch_add( run.reads_after_retire.load());
        psg.add_extra( "guarded_reads", run.guarded_reads.load());
        psg.add_extra( "guarded_reads_of_already_retired_objects", run.reads_after_retire.load());
        psg.add_extra( "retires", run.retires.load());
        psg.add_extra( "copy_handoff_disposed_by_pass_begun_before_copy(not a violation)", run.benign_copy_races.load());
        psg.add_extra( "explicit_scans", run.scans.load());
        psg.add_extra( "thread_churns", run.churns.load());
        psg.add_variant( name, run.protects.load());
        // distinct non-trivial: configurations in which guarded objects were really retired under the guard, one fingerprint per (variant, power-of-two bucket of that count)
        if ( run.reads_after_retire.load()) {
            uint64_t c = run.reads_after_retire.load(); unsigned lg = 0; while ( c >>= 1 ) ++lg;
            for ( unsigned i = 0; i <= lg; ++i ) psg.add_fp( mix64( std::hash<std::string>()( name )) ^ i );
        }
        if ( psg.need_sample( 4 ))
            psg.add_sample( "{\"variant\":" + jstr( name ) + ",\"guarded_holds\":" + std::to_string( run.protects.load()) + ",\"guarded_reads\":" + std::to_string( run.guarded_reads.load())
                            + ",\"reads_of_objects_retired_while_guarded\":" + std::to_string( run.reads_after_retire.load()) + ",\"retires\":" + std::to_string( run.retires.load())
                            + ",\"disposed_marks_seen\":0}" );
        // C03 evidence: one evaluation = one retired object followed to its disposal
        ps3.evaluations.fetch_add( run.retires.load() - retired_eager );
        ps3.operations.fetch_add( run.retires.load() + run.disposed_total.load());
        ps3.add_extra( "retired_objects", run.retires.load());
        ps3.add_extra( "disposer_calls", run.disposed_total.load());
        ps3.add_extra( "thread_churns", run.churns.load());
        ps3.add_variant( name, run.retires.load());
        if ( ps3.need_sample( 6 ))
            ps3.add_sample( "{\"variant\":" + jstr( name ) + ",\"retired\":" + std::to_string( run.retires.load()) + ",\"disposer_calls\":" + std::to_string( run.disposed_total.load())
                            + ",\"never_retired_objects_checked\":" + std::to_string( n - run.retires.load()) + ",\"all_disposed_exactly_once_after_singleton_destruction\":" + ( bad ? "false" : "true" ) + "}", 6 );
        g_run = nullptr;
    }
}

int main( int argc, char** argv )
{
    parse_args( argc, argv );
    limit_memory_gb( 8 );
    prop( "C01" ).rule = prop( "C02" ).rule =
        "one evaluation = one guarded hold: a reader obtains an object from a shared slot through one guard form (protect, protect(f), GuardArray, assign+recheck, copy, guarded_ptr), "
        "then reads its state mark 1-80 times while writers exchange the slot and retire the old object and scans run; non-trivial = reads that found the object already retired while still guarded; "
        "distinct_nontrivial = number of (configuration, log2 bucket of such reads) pairs (conservative)";
    prop( "C03" ).rule = "one evaluation = one retired object followed through the ledger to its disposer call(s) (concurrent workloads), or one deterministic eager-clause case (n retired, protection pattern) ; "
                         "distinct_nontrivial counts the distinct eager-clause cases (configuration, n, pattern); ledger checked for every object after the singleton is destroyed";
    LibInit lib;
    uint64_t ops = args().n( 60000, 1500000 );
    bool only_hp = args().prop == "C01", only_dhp = args().prop == "C02";
    Rng vr( args().seed );
    if ( !only_dhp ) {
        for ( int classic = 0; classic < 2; ++classic )
            for ( unsigned H : { 1u, 2u, 3u, 8u } )
                for ( int odd = 0; odd < 2; ++odd ) {
                    Cfg c; c.classic = classic; c.hazards = H; c.odd = odd; c.ops = ops;
                    c.threads = 2 + ( H + odd + classic ) % 3;
                    c.extra_threads = ( H + odd ) % 2;
                    c.retired_mul = ( H == 1 ) ? 1 : ( H == 2 ? 2 : ( H == 3 ? 1 : 4 ));
                    c.slots = 1 + ( H + classic ) % 3;
                    run_cfg<cds::gc::HP>( c );
                }
    }
    if ( !only_hp ) {
        for ( unsigned init : { 0u, 4u, 5u, 16u, 64u } )
            for ( unsigned guards : { 3u, 20u, 60u } ) {
                Cfg c; c.dhp = true; c.hazards = init; c.dhp_guards = guards; c.ops = ops / ( guards > 3 ? 3 : 1 );
                c.dhp_burst = ( init == 4 || init == 16 ) ? 600 : ( init == 5 ? 40 : 1 );
                if ( c.dhp_burst > 100 ) c.ops /= 20;
                c.threads = 2 + ( init + guards ) % 3;
                c.slots = 1 + ( init + guards ) % 3;
                c.odd = ( init + guards ) % 2;
                run_cfg<cds::gc::DHP>( c );
            }
    }
    return finish( "smr_hp" );
}
