// C19: thread-safe iterators stay valid and complete under concurrent updates.
// One iterating thread walks the container (touching the current element several times) while 1-3 updaters insert / erase /
// replace keys; some keys are left untouched. Oracles: (a) the current element never carries the destructor poison (ASan: never freed);
// (b) every key present for the whole pass and never removed/replaced is yielded exactly once (IterableList and hash sets over it) or
// at least once (Feldman); for IterableList those keys come in increasing order; (c) every yielded item is one that was inserted for
// that key; (d) erase_at(iterator) joins the per-key history as "remove exactly this item" and the history must be linearizable.
#include <cdsv/setdrv.h>
#include <cdsv/smr.h>
#include <cds/urcu/general_buffered.h>
#include <cds/container/iterable_list_hp.h>
#include <cds/container/iterable_list_dhp.h>
#include <cds/container/michael_set.h>
#include <cds/container/split_list_set.h>
#include <cds/container/feldman_hashset_hp.h>
#include <cds/container/feldman_hashset_dhp.h>
#include <cds/container/feldman_hashset_rcu.h>
#include <set>

namespace {
    using namespace cdsv;
    namespace cc = cds::container;
    typedef cds::atomicity::item_counter IC;
    typedef cds::urcu::gc<cds::urcu::general_buffered<>> rcu_gpb;

    struct HashId { size_t operator()( int k ) const { return size_t( k ); } size_t operator()( Item const& i ) const { return size_t( i.key ); } };
    struct HashMod2 { size_t operator()( int k ) const { return size_t( k & 1 ); } size_t operator()( Item const& i ) const { return size_t( i.key & 1 ); } };
    struct il_tr: cc::iterable_list::traits { typedef ItemLess less; typedef IC item_counter; };
    template <class H> struct mset_tr: cc::michael_set::traits { typedef H hash; typedef IC item_counter; };
    template <class H> struct split_tr: cc::split_list::traits {
        typedef cc::iterable_list_tag ordered_list; typedef H hash; typedef il_tr ordered_list_traits; typedef IC item_counter;
    };
    // keys (< 16) go to the low or to the high 4 bits of the 16-bit hash; with the other placement all keys share the head slot and the
    // array nodes split down to the deepest level while the iterator is walking
    unsigned g_feld_shift = 0;
    inline uint16_t fh( int k ) { return uint16_t( unsigned( k ) << g_feld_shift ); }
    struct FItem { uint16_t hash; Item it; FItem() : hash( 0 ) {} FItem( int k, int64_t id ) : hash( fh( k )), it( k, id ) {} };
    struct f_acc { uint16_t const& operator()( FItem const& v ) const { return v.hash; } };
    struct feld_tr: cc::feldman_hashset::traits { typedef f_acc hash_accessor; typedef IC item_counter; typedef cc::feldman_hashset::stat<> stat; };

    enum Kind { ORDERED_EXACT, UNORDERED_EXACT, UNORDERED_ATLEAST };

    // ---- adapters: insert / erase / replace / find + iteration
    template <class S, bool HasEraseAt>
    struct ItemSetA {
        S s;
        template <class... A> ItemSetA( A... a ) : s( a... ) {}
        bool ins( int k, int64_t id ) { return s.insert( Item( k, id )); }
        bool ers( int k ) { return s.erase( k ); }
        std::pair<bool, bool> ups( int k, int64_t id ) { return s.upsert( Item( k, id ), true ); }
        bool fnd( int k, int64_t& id ) { return s.find( k, [&id]( Item& it, int const& ) { id = observe( it, "find functor" ); } ); }
        typedef typename S::iterator iterator;
        iterator begin() { return s.begin(); } iterator end() { return s.end(); }
        static Item& item( iterator& it ) { return *it; }
        template <bool E> typename std::enable_if<E, int>::type do_erase_at( iterator& it ) { return s.erase_at( it ) ? 1 : 0; }
        template <bool E> typename std::enable_if<!E, int>::type do_erase_at( iterator& ) { return -1; }
        int erase_at( iterator& it ) { return do_erase_at<HasEraseAt>( it ); }
        void mech( PropStats& ) {}
    };
    template <class S, bool Reverse, class Rcu>
    struct FeldA {
        S s;
        FeldA() : s( 4, 2 ) {}
        bool ins( int k, int64_t id ) { return s.insert( FItem( k, id )); }
        bool ers( int k ) { return s.erase( fh( k )); }
        std::pair<bool, bool> ups( int k, int64_t id ) { return s.update( FItem( k, id ), []( FItem&, FItem* ) {}, true ); }
        bool fnd( int k, int64_t& id ) { return s.find( fh( k ), [&id]( FItem& v ) { id = observe( v.it, "find functor" ); } ); }
        typedef typename std::conditional<Reverse, typename S::reverse_iterator, typename S::iterator>::type iterator;
        template <bool R> typename std::enable_if<R, iterator>::type b() { return s.rbegin(); }
        template <bool R> typename std::enable_if<!R, iterator>::type b() { return s.begin(); }
        template <bool R> typename std::enable_if<R, iterator>::type e() { return s.rend(); }
        template <bool R> typename std::enable_if<!R, iterator>::type e() { return s.end(); }
        iterator begin() { return b<Reverse>(); } iterator end() { return e<Reverse>(); }
        static Item& item( iterator& it ) { return it->it; }
        int erase_at( iterator& ) { return -1; }
        void mech( PropStats& ps )
        {
            auto const& st = s.statistics();
            ps.add_mech( "feldman.onExpandNodeSuccess", st.m_nExpandNodeSuccess.get()); ps.add_mech( "feldman.onSlotConverting", st.m_nSlotConverting.get());
        }
    };
    template <class Rcu> struct LockIf { LockIf() { Rcu::access_lock(); } ~LockIf() { Rcu::access_unlock(); } };
    template <> struct LockIf<void> {};

    struct Yield { int key; int64_t id; uint64_t t; };

    // workload shape of one variant
    struct Profile {
        unsigned kmin = 8, kmax = 16;   // key space
        unsigned umin = 1, umax = 3;    // updater threads
        unsigned eat_den = 12;          // erase_at on 1 of eat_den yielded elements
        unsigned ins_pct = 40, ers_pct = 40;   // rest: replacing update
        uint64_t recreate = 150;        // passes between re-creations of the container
        double budget = 1.0;
        Profile() {}
        Profile( unsigned k0, unsigned k1, unsigned u0, unsigned u1, unsigned ed, unsigned ip, unsigned ep, uint64_t rc, double b )
            : kmin( k0 ), kmax( k1 ), umin( u0 ), umax( u1 ), eat_den( ed ), ins_pct( ip ), ers_pct( ep ), recreate( rc ), budget( b ) {}
    };

    template <class A, class Rcu>
    void run_iter( std::string const& name, Kind kind, std::function<A*()> make, Profile const& pf = Profile())
    {
        if ( !args().want( name )) return;
        set_variant( name );
        mem_context() = "C19|" + name;
        PropStats& ps = prop( "C19" );
        uint64_t passes = uint64_t( double( args().n( 2000, 60000 )) * pf.budget );
        uint64_t seed0 = mix64( args().seed ) ^ std::hash<std::string>()( name );
        Rng mrng( seed0 );
        unsigned U = mrng.range( pf.umin, pf.umax );
        unsigned K = mrng.range( pf.kmin, pf.kmax );
        std::unique_ptr<A> c( make());
        Barrier bar( U + 2 );
        std::atomic<bool> stop{ false }, iter_done{ false };
        uint64_t pass = 0;
        std::vector<std::vector<Op>> ulog( U );           // updaters' ops (Op.b = key)
        std::vector<Yield> ylog; std::vector<Op> eatlog;  // iterator thread
        uint64_t it_start = 0, it_end = 0;
        std::vector<uint64_t> uidseq( U + 2, 0 );
        auto fresh = [&uidseq]( unsigned tid ) { return int64_t(( uint64_t( tid + 1 ) << 40 ) | ++uidseq[tid] ); };
        std::vector<char> stable( K, 0 );

        std::vector<std::thread> th;
        for ( unsigned u = 0; u < U; ++u )
            th.emplace_back( [&, u]() {
                cds::threading::Manager::attachThread();
                for (;;) {
                    bar.wait();
                    if ( stop.load()) break;
                    Rng rng( seed0 ^ mix64( pass * 16 + u + 1 ));
                    cdsv_rt_thread_begin( u );
                    unsigned n = 0;
                    std::vector<int> free_keys;
                    for ( unsigned k = 0; k < K; ++k ) if ( !stable[k] ) free_keys.push_back( int( k ));
                    while ( !free_keys.empty() && ( !iter_done.load( std::memory_order_acquire ) || n < 4 ) && n < 300 ) {
                        int key = free_keys[rng.below( unsigned( free_keys.size()))];
                        Op o; o.tid = int( u ); o.b = key; o.r2 = -2; o.a = fresh( u );
                        unsigned x = rng.below( 100 );
                        o.inv = tick();
                        if ( x < pf.ins_pct ) { o.op = K_INS; o.r = c->ins( key, o.a ) ? 1 : 0; }
                        else if ( x < pf.ins_pct + pf.ers_pct ) { o.op = K_ERS; o.r = c->ers( key ) ? 1 : 0; }
                        else { o.op = K_UPD; auto pr = c->ups( key, o.a ); o.r = pr.first ? ( pr.second ? 2 : 1 ) : 0; }
                        o.ret = tick();
                        ulog[u].push_back( o );
                        ++n;
                    }
                    cdsv_rt_thread_end();
                    bar.wait();
                }
                cds::threading::Manager::detachThread();
            } );
        th.emplace_back( [&]() {
            cds::threading::Manager::attachThread();
            for (;;) {
                bar.wait();
                if ( stop.load()) break;
                Rng rng( seed0 ^ mix64( pass * 16 + 15 ));
                cdsv_rt_thread_begin( U );
                {
                    LockIf<Rcu> l; (void) l;
                    it_start = tick();
                    for ( typename A::iterator it = c->begin(); it != c->end(); ++it ) {
                        Item& cur = A::item( it );
                        Yield y; y.key = cur.key; y.id = observe( cur, "iterator: current element" ); y.t = tick();
                        // stay on the element for a while: it must not be disposed while it is the current element
                        unsigned hold = rng.chance( 1, 6 ) ? rng.range( 8, 30 ) : rng.range( 0, 3 );
                        for ( unsigned i = 0; i < hold; ++i ) { cds_verif_point( 5, nullptr ); observe( cur, "iterator: current element (held)" ); }
                        ylog.push_back( y );
                        if ( !stable[unsigned( y.key ) % K] && rng.chance( 1, pf.eat_den )) {
                            Op o; o.tid = int( U ); o.op = K_UNL; o.a = y.id; o.b = y.key; o.r2 = -2;
                            o.inv = tick();
                            int r = c->erase_at( it );
                            o.ret = tick();
                            if ( r >= 0 ) { o.r = r; eatlog.push_back( o ); }
                        }
                    }
                    it_end = tick();
                }
                iter_done.store( true, std::memory_order_release );
                cdsv_rt_thread_end();
                bar.wait();
            }
            cds::threading::Manager::detachThread();
        } );

        std::vector<int64_t> pinned( K, -1 );
        uint64_t nviol = 0, recreate = pf.recreate;
        for ( pass = 0; pass < passes && nviol < 5; ++pass ) {
            if ( pass && pass % recreate == 0 ) { c->mech( ps ); c.reset(); c.reset( make()); std::fill( pinned.begin(), pinned.end(), -1 ); }
            for ( auto& l : ulog ) l.clear();
            ylog.clear(); eatlog.clear(); iter_done.store( false );
            // stable keys for this pass: about a third of the key space, made present by the main thread
            std::vector<Op> mlog;
            for ( unsigned k = 0; k < K; ++k ) {
                stable[k] = mrng.chance( 1, 3 ) ? 1 : 0;
                if ( stable[k] && pinned[k] == -1 ) {
                    Op o; o.tid = int( U + 1 ); o.op = K_INS; o.b = k; o.a = fresh( U + 1 ); o.r2 = -2; o.inv = tick(); o.r = c->ins( int( k ), o.a ) ? 1 : 0; o.ret = tick();
                    mlog.push_back( o );
                    if ( o.r ) pinned[k] = o.a;
                }
            }
            std::vector<int64_t> init = pinned;
            for ( auto const& o : mlog ) if ( o.r ) init[unsigned( o.b )] = -1;   // the main thread's insert is part of the history
            cdsv_rt_configure( seed0 + pass, mrng.chance( 1, 2 ) ? 0 : mrng.range( 1, 7 ), mrng.chance( 1, 16 ) ? 1 : 0, 400 );
            bar.wait();
            bar.wait();
            // quiescent lookups pin the next state
            std::vector<Op> qlog;
            for ( unsigned k = 0; k < K; ++k ) {
                Op o; o.tid = int( U + 1 ); o.op = K_FND; o.b = k; o.a = 0; o.r2 = -2; int64_t id = -2;
                o.inv = tick(); o.r = c->fnd( int( k ), id ) ? 1 : 0; o.ret = tick(); o.r2 = id;
                qlog.push_back( o );
                pinned[k] = o.r ? ( id > 0 ? id : 0 ) : -1;
            }
            // ---- checks
            ps.evaluations.fetch_add( 1 );
            uint64_t nops = ylog.size() + eatlog.size();
            for ( auto& l : ulog ) nops += l.size();
            ps.operations.fetch_add( nops );
            std::string why; std::string wkey;
            // (c) every yielded item was inserted for that key; (b) completeness and multiplicity
            std::vector<std::set<int64_t>> known( K );
            for ( unsigned k = 0; k < K; ++k ) if ( init[k] > 0 ) known[k].insert( init[k] );
            auto add_known = [&]( Op const& o ) { if (( o.op == K_INS && o.r == 1 ) || ( o.op == K_UPD && o.r >= 1 )) known[unsigned( o.b )].insert( o.a ); };
            for ( auto const& o : mlog ) add_known( o );
            for ( auto& l : ulog ) for ( auto const& o : l ) add_known( o );
            std::vector<unsigned> count( K, 0 );
            for ( Yield const& y : ylog ) {
                if ( y.key < 0 || unsigned( y.key ) >= K ) { why = "the iterator yielded key " + std::to_string( y.key ) + " which is outside the key space"; wkey = "iterator-invented-item"; break; }
                ++count[unsigned( y.key )];
                if ( y.id > 0 && !known[unsigned( y.key )].count( y.id ) && !( init[unsigned( y.key )] == 0 )) {
                    why = "the iterator yielded an item (key " + std::to_string( y.key ) + ", id " + std::to_string( y.id ) + ") that was never inserted for that key"; wkey = "iterator-invented-item"; break;
                }
            }
            uint64_t surely = 0, modified_keys = 0;
            int prev_sure = -1;
            if ( why.empty()) {
                std::vector<char> sure( K, 0 );
                for ( unsigned k = 0; k < K; ++k ) {
                    bool present0 = false;
                    for ( auto const& o : mlog ) if ( unsigned( o.b ) == k && o.r ) present0 = true;
                    if ( init[k] != -1 ) present0 = true;
                    bool touched = false, any = false;
                    auto rem = [&]( Op const& o ) {
                        if ( unsigned( o.b ) != k ) return;
                        any = true;
                        bool removes = ( o.op == K_ERS && o.r == 1 ) || ( o.op == K_UNL && o.r == 1 ) || ( o.op == K_UPD && o.r == 1 );
                        if ( removes && o.inv < it_end ) touched = true;
                    };
                    for ( auto& l : ulog ) for ( auto const& o : l ) rem( o );
                    for ( auto const& o : eatlog ) rem( o );
                    if ( any ) ++modified_keys;
                    sure[k] = ( present0 && !touched ) ? 1 : 0;
                }
                for ( unsigned k = 0; k < K && why.empty(); ++k ) {
                    if ( !sure[k] ) continue;
                    ++surely;
                    if ( count[k] == 0 ) { why = "key " + std::to_string( k ) + " was present for the whole iteration (never removed or replaced) but the iterator did not visit it"; wkey = "iterator-missed-present-key"; }
                    else if ( kind != UNORDERED_ATLEAST && count[k] > 1 ) { why = "key " + std::to_string( k ) + " was present for the whole iteration but the iterator visited it " + std::to_string( count[k] ) + " times"; wkey = "iterator-visited-twice"; }
                }
                if ( why.empty() && kind == ORDERED_EXACT ) {
                    for ( Yield const& y : ylog ) {
                        if ( !sure[unsigned( y.key )] ) continue;
                        if ( y.key <= prev_sure ) { why = "keys present for the whole iteration were visited out of order: " + std::to_string( prev_sure ) + " before " + std::to_string( y.key ); wkey = "iterator-order"; break; }
                        prev_sure = y.key;
                    }
                }
            }
            // (d) per-key linearizability incl. erase_at as "remove exactly this item"
            uint64_t ov_total = 0;
            if ( why.empty()) {
                for ( unsigned k = 0; k < K && why.empty(); ++k ) {
                    std::vector<Op> h;
                    for ( auto const& o : mlog ) if ( unsigned( o.b ) == k ) h.push_back( o );
                    for ( auto& l : ulog ) for ( auto const& o : l ) if ( unsigned( o.b ) == k ) h.push_back( o );
                    for ( auto const& o : eatlog ) if ( unsigned( o.b ) == k ) h.push_back( o );
                    h.push_back( qlog[k] );
                    for ( auto& o : h ) { if ( o.op == K_UPD ) o.b = KF_ALLOW_INSERT | KF_REPLACES; else o.b = 0; }
                    ov_total += count_overlaps( h );
                    Verdict v = wgl_check<KeyModel>( h, init[k], 30000 );
                    if ( v == Verdict::budget ) ps.checker_budget.fetch_add( 1 );
                    else if ( v == Verdict::violation ) {
                        why = "history of key " + std::to_string( k ) + " (updates + erase_at + lookups) is not linearizable; erase_at must remove exactly the item the iterator points to or return false";
                        wkey = "lin";
                        std::ostringstream js; js << "[";
                        for ( size_t i = 0; i < h.size(); ++i ) js << ( i ? "," : "" ) << "{\"t\":" << h[i].tid << ",\"op\":\"" << key_opnames[h[i].op] << "\",\"id\":" << h[i].a << ",\"r\":" << h[i].r << ",\"seen\":" << h[i].r2 << ",\"inv\":" << h[i].inv << ",\"ret\":" << h[i].ret << "}";
                        js << "]";
                        why += " " + js.str();
                    }
                }
            }
            ps.overlap_pairs.fetch_add( ov_total );
            bool nontrivial = surely > 0 && modified_keys > 0 && !ylog.empty();
            if ( nontrivial ) {
                ps.nontrivial.fetch_add( 1 );
                uint64_t fp = std::hash<std::string>()( name );
                for ( Yield const& y : ylog ) fp = ( fp ^ uint64_t( y.key + 1 )) * 1099511628211ull;
                for ( unsigned k = 0; k < K; ++k ) fp = ( fp ^ ( uint64_t( stable[k] ) + 2 * ( init[k] != -1 ))) * 1099511628211ull;
                fp ^= mix64( modified_keys * 64 + eatlog.size());
                ps.add_fp( fp );
            }
            ps.add_extra( "elements_yielded", ylog.size()); ps.add_extra( "erase_at_calls", eatlog.size());
            ps.add_extra( "keys_surely_present_checked", surely ); ps.add_extra( "updater_operations_during_passes", nops - ylog.size() - eatlog.size());
            if ( !why.empty()) {
                ++nviol;
                std::ostringstream ys; ys << "[";
                for ( size_t i = 0; i < ylog.size(); ++i ) ys << ( i ? "," : "" ) << "[" << ylog[i].key << "," << ylog[i].id << "]";
                ys << "]";
                violation( "C19", wkey + ":" + name, "pass " + std::to_string( pass ) + ": " + why,
                           "{\"variant\":" + jstr( name ) + ",\"pass\":" + std::to_string( pass ) + ",\"iteration\":[" + std::to_string( it_start ) + "," + std::to_string( it_end ) + "],\"yielded\":" + ys.str() + "}" );
            }
            else if ( nontrivial && ps.need_sample( 4 )) {
                std::ostringstream ys; ys << "[";
                for ( size_t i = 0; i < ylog.size(); ++i ) ys << ( i ? "," : "" ) << ylog[i].key;
                ys << "]";
                ps.add_sample( "{\"variant\":" + jstr( name ) + ",\"pass\":" + std::to_string( pass ) + ",\"yielded_keys\":" + ys.str() + ",\"keys_present_throughout\":" + std::to_string( surely )
                               + ",\"keys_modified_during_pass\":" + std::to_string( modified_keys ) + ",\"erase_at_calls\":" + std::to_string( eatlog.size()) + "}" );
            }
        }
        stop.store( true );
        bar.wait();
        for ( auto& t : th ) t.join();
        c->mech( ps );
        ps.add_variant( name, pass );
    }
}

int main( int argc, char** argv )
{
    parse_args( argc, argv );
    limit_memory_gb( 8 );
    prop( "C19" ).rule = "one evaluation = one pass: an iterating thread walks the whole container (holding the current element for 0-30 scheduling points and calling erase_at on some elements) while 1-3 updaters insert / erase / replace keys "
                         "of an 8-16 key space in which about a third of the keys is left untouched; oracles: no disposed current element, completeness / multiplicity / order of the keys present throughout, no invented item, per-key "
                         "linearizability incl. erase_at; non-trivial = at least one key was present throughout, at least one key was modified during the pass and the iterator yielded elements; distinct = fingerprint of (yielded key sequence, stable/present pattern, modified keys, erase_at calls)";
    LibInit lib;
    {
        rcu_gpb gpb( 8 );
        SmrSetup smr( 12, 8 );
        typedef cds::gc::HP HP; typedef cds::gc::DHP DHP;
        { typedef cc::IterableList<HP, Item, il_tr> S; typedef ItemSetA<S, true> A; run_iter<A, void>( "IterableList<HP>", ORDERED_EXACT, []() { return new A; } ); }
        { typedef cc::IterableList<DHP, Item, il_tr> S; typedef ItemSetA<S, true> A; run_iter<A, void>( "IterableList<DHP>", ORDERED_EXACT, []() { return new A; } ); }
        // hot spots: 3-4 keys, 3 updaters, every second element is erased through the iterator, replacing updates dominate
        // (an erase_at that meets a replaced element AND a neighbour's link mark needs all three on one node at once)
        Profile hot( 3, 4, 3, 3, 2, 30, 20, 150, 2.0 );
        { typedef cc::IterableList<HP, Item, il_tr> S; typedef ItemSetA<S, true> A; run_iter<A, void>( "IterableList<HP>/hot", ORDERED_EXACT, []() { return new A; }, hot ); }
        { typedef cc::IterableList<DHP, Item, il_tr> S; typedef ItemSetA<S, true> A; run_iter<A, void>( "IterableList<DHP>/hot", ORDERED_EXACT, []() { return new A; }, hot ); }
        { typedef cc::MichaelHashSet<HP, cc::IterableList<HP, Item, il_tr>, mset_tr<HashId>> S; typedef ItemSetA<S, true> A; run_iter<A, void>( "MichaelHashSet<HP,IterableList,4buckets>", UNORDERED_EXACT, []() { return new A( 4, 1 ); } ); }
        { typedef cc::MichaelHashSet<DHP, cc::IterableList<DHP, Item, il_tr>, mset_tr<HashMod2>> S; typedef ItemSetA<S, true> A; run_iter<A, void>( "MichaelHashSet<DHP,IterableList,mod2>", UNORDERED_EXACT, []() { return new A( 4, 1 ); } ); }
        { typedef cc::SplitListSet<HP, Item, split_tr<HashId>> S; typedef ItemSetA<S, true> A; run_iter<A, void>( "SplitListSet<HP,IterableList,dyn>", UNORDERED_EXACT, []() { return new A( 64, 1 ); } ); }
        { typedef cc::SplitListSet<DHP, Item, split_tr<HashMod2>> S; typedef ItemSetA<S, true> A; run_iter<A, void>( "SplitListSet<DHP,IterableList,mod2>", UNORDERED_EXACT, []() { return new A( 16, 1 ); } ); }
        // Feldman sets never shrink: array nodes are only created while the keys of a new container are inserted for the first time, so the
        // container is re-created every 3 passes to keep slot conversions happening under the iterator
        Profile fresh( 8, 16, 1, 3, 12, 40, 40, 3, 5.0 );   // a Feldman pass costs about 0.5 ms
        { typedef cc::FeldmanHashSet<HP, FItem, feld_tr> S; typedef FeldA<S, false, void> A; run_iter<A, void>( "FeldmanHashSet<HP,forward>", UNORDERED_ATLEAST, []() { return new A; }, fresh ); }
        { typedef cc::FeldmanHashSet<DHP, FItem, feld_tr> S; typedef FeldA<S, true, void> A; run_iter<A, void>( "FeldmanHashSet<DHP,reverse>", UNORDERED_ATLEAST, []() { return new A; }, fresh ); }
        g_feld_shift = 12;
        { typedef cc::FeldmanHashSet<HP, FItem, feld_tr> S; typedef FeldA<S, true, void> A; run_iter<A, void>( "FeldmanHashSet<HP,reverse,shared-prefix>", UNORDERED_ATLEAST, []() { return new A; }, fresh ); }
        { typedef cc::FeldmanHashSet<DHP, FItem, feld_tr> S; typedef FeldA<S, false, void> A; run_iter<A, void>( "FeldmanHashSet<DHP,forward,shared-prefix>", UNORDERED_ATLEAST, []() { return new A; }, fresh ); }
        { typedef cc::FeldmanHashSet<rcu_gpb, FItem, feld_tr> S; typedef FeldA<S, false, rcu_gpb> A; run_iter<A, rcu_gpb>( "FeldmanHashSet<RCU_gpb,forward,shared-prefix>", UNORDERED_ATLEAST, []() { return new A; }, fresh ); }
        g_feld_shift = 0;
    }
    return finish( "iter" );
}
