// C15 (+C18, +C20 sequential mode): SkipListSet (towers forced high and low), EllenBinTreeSet, BronsonAVLTreeMap (value and pointer forms,
// injecting and pool monitors) over HP, DHP and URCU flavours; extract_min / extract_max interval rules.
#include <cdsv/setadapt.h>
#include <map>
#include <cds/urcu/general_instant.h>
#include <cds/urcu/general_buffered.h>
#include <cds/urcu/general_threaded.h>
#include <cds/container/skip_list_set_hp.h>
#include <cds/container/skip_list_set_dhp.h>
#include <cds/container/skip_list_set_rcu.h>
#include <cds/container/ellen_bintree_set_hp.h>
#include <cds/container/ellen_bintree_set_dhp.h>
#include <cds/container/ellen_bintree_set_rcu.h>
#include <cds/container/bronson_avltree_map_rcu.h>
#include <cds/sync/pool_monitor.h>
#include <cds/memory/vyukov_queue_pool.h>

namespace {
    using namespace cdsv;
    namespace cc = cds::container;
    typedef cds::atomicity::item_counter IC;

    typedef cds::urcu::gc<cds::urcu::general_instant<>> rcu_gpi;
    typedef cds::urcu::gc<cds::urcu::general_buffered<>> rcu_gpb;
    typedef cds::urcu::gc<cds::urcu::general_threaded<>> rcu_gpt;

    // ---------------------------------------------------------------- skip list: level generators
    template <unsigned H> struct GenZero { static unsigned int const c_nUpperBound = H; unsigned int operator()() { return 0; } };
    template <unsigned H> struct GenMax { static unsigned int const c_nUpperBound = H; unsigned int operator()() { return H - 1; } };
    template <unsigned H> struct GenAlt {
        static unsigned int const c_nUpperBound = H;
        std::atomic<unsigned> n{ 0 };
        GenAlt() {}
        GenAlt( GenAlt const& ) {}
        unsigned int operator()() { return ( n.fetch_add( 1, std::memory_order_relaxed ) & 1 ) ? H - 1 : 0; }
    };
    template <unsigned H> struct GenRnd {
        static unsigned int const c_nUpperBound = H;
        std::atomic<uint64_t> s{ 88172645463325252ull };
        GenRnd() {}
        GenRnd( GenRnd const& ) {}
        unsigned int operator()()
        {
            uint64_t x = s.load( std::memory_order_relaxed ); x ^= x << 13; x ^= x >> 7; x ^= x << 17; s.store( x, std::memory_order_relaxed );
            unsigned l = 0; while (( x & 1 ) && l + 1 < H ) { ++l; x >>= 1; }
            return l;
        }
    };
    template <class Gen, bool UseCompare>
    struct sl_tr: cc::skip_list::traits { typedef ItemLess less; typedef IC item_counter; typedef Gen random_level_generator; typedef cc::skip_list::stat<> stat; };
    template <class Gen>
    struct sl_tr<Gen, true>: cc::skip_list::traits { typedef ItemCmp compare; typedef IC item_counter; typedef Gen random_level_generator; typedef cc::skip_list::stat<> stat; };

    // C18, "every skip-list level is an ordered sub-list of the level below": the head tower is private, so the check starts from the nodes
    // of level 0 (reached through the public iterator; the node is recovered from the address of its value) and follows next(l) from the
    // first node of every level. Run at quiescent points only.
    std::atomic<uint64_t> g_skip_links{ 0 };    // upper-level links followed by the level check (evidence that it looked at something)
    template <class S> struct SkipProbe: S { typedef typename S::node_type node_type; };
    template <class Rcu> struct SkipLock { SkipLock() { Rcu::access_lock(); } ~SkipLock() { Rcu::access_unlock(); } };
    template <> struct SkipLock<void> {};

    template <class S, class Rcu = void> struct MkSkip: MakeBase {
        static S* make() { return new S; }
        static bool consistent( S& s, std::string& why )
        {
            typedef typename SkipProbe<S>::node_type node_type;
            SkipLock<Rcu> lock; (void) lock;
            std::vector<node_type*> level0;
            std::vector<int> keys;
            node_type probe_node( 1, nullptr, Item( 0, 0 ));    // height 1, no tower: only for the offset of m_Value inside the node
            ptrdiff_t off = reinterpret_cast<char*>( &probe_node.m_Value ) - reinterpret_cast<char*>( &probe_node );
            for ( auto it = s.begin(); it != s.end(); ++it ) {
                Item& v = *it;
                level0.push_back( reinterpret_cast<node_type*>( reinterpret_cast<char*>( &v ) - off ));
                keys.push_back( v.key );
            }
            std::map<node_type*, size_t> index;
            for ( size_t i = 0; i < level0.size(); ++i ) index[level0[i]] = i;
            unsigned maxh = 0;
            for ( node_type* n : level0 ) maxh = std::max( maxh, unsigned( n->height()));
            for ( unsigned l = 1; l < maxh; ++l ) {
                // first node of level l in level-0 order
                size_t first = level0.size();
                for ( size_t i = 0; i < level0.size(); ++i ) if ( level0[i]->height() > l ) { first = i; break; }
                if ( first == level0.size()) continue;
                size_t cur = first, steps = 0;
                for (;;) {
                    auto nx = level0[cur]->next( l ).load( std::memory_order_acquire );
                    node_type* p = static_cast<node_type*>( nx.ptr());
                    if ( !p ) break;
                    auto f = index.find( p );
                    if ( f == index.end()) {
                        why = "skip-list level " + std::to_string( l ) + ": the successor of key " + std::to_string( keys[cur] ) + " is a node that is not on level 0 (not an element of the list any more)";
                        return false;
                    }
                    if ( f->second <= cur ) {
                        why = "skip-list level " + std::to_string( l ) + " is not ordered: key " + std::to_string( keys[f->second] ) + " follows key " + std::to_string( keys[cur] );
                        return false;
                    }
                    if ( p->height() <= l ) {
                        why = "skip-list level " + std::to_string( l ) + " links key " + std::to_string( keys[f->second] ) + " whose tower has only " + std::to_string( p->height()) + " level(s)";
                        return false;
                    }
                    cur = f->second;
                    g_skip_links.fetch_add( 1, std::memory_order_relaxed );
                    if ( ++steps > level0.size()) { why = "skip-list level " + std::to_string( l ) + " contains a cycle"; return false; }
                }
            }
            return true;
        }
        static void mechanisms( S& s, PropStats& ps )
        {
            auto const& st = s.statistics();
            ps.add_mech( "skip_list.upper_level_links_checked_at_quiescence", g_skip_links.exchange( 0 ));
            ps.add_mech( "skip_list.onFindFastSuccess", st.m_nFindFastSuccess.get()); ps.add_mech( "skip_list.onFindSlowSuccess", st.m_nFindSlowSuccess.get());
            ps.add_mech( "skip_list.onEraseWhileFind", st.m_nEraseWhileFind.get()); ps.add_mech( "skip_list.onLogicDeleteWhileInsert", st.m_nLogicDeleteWhileInsert.get());
            ps.add_mech( "skip_list.onRemoveWhileInsert", st.m_nRemoveWhileInsert.get()); ps.add_mech( "skip_list.onRenewInsertPosition", st.m_nRenewInsertPosition.get());
            ps.add_mech( "skip_list.onFastErase", st.m_nFastErase.get()); ps.add_mech( "skip_list.onSlowErase", st.m_nSlowErase.get());
            ps.add_mech( "skip_list.onExtractMinSuccess", st.m_nExtractMinSuccess.get()); ps.add_mech( "skip_list.onExtractMaxSuccess", st.m_nExtractMaxSuccess.get());
        }
    };

    // ---------------------------------------------------------------- Ellen tree
    struct KeyExtractor { void operator()( int& dest, Item const& src ) const { dest = src.key; } };
    template <bool UseCompare>
    struct el_tr: cc::ellen_bintree::traits { typedef KeyExtractor key_extractor; typedef ItemLess less; typedef IC item_counter; typedef cc::ellen_bintree::stat<> stat; };
    template <>
    struct el_tr<true>: cc::ellen_bintree::traits { typedef KeyExtractor key_extractor; typedef ItemCmp compare; typedef IC item_counter; typedef cc::ellen_bintree::stat<> stat; };
    template <class S> struct MkEllen: MakeBase {
        static S* make() { return new S; }
        static bool consistent( S& s, std::string& why ) { if ( s.check_consistency()) return true; why = "EllenBinTree::check_consistency() returned false"; return false; }
        static void mechanisms( S& s, PropStats& ps )
        {
            auto const& st = s.statistics();
            ps.add_mech( "ellen.onHelpInsert", st.m_nHelpInsert.get()); ps.add_mech( "ellen.onHelpDelete", st.m_nHelpDelete.get()); ps.add_mech( "ellen.onHelpMark", st.m_nHelpMark.get());
            ps.add_mech( "ellen.onInsertRetry", st.m_nInsertRetries.get()); ps.add_mech( "ellen.onEraseRetry", st.m_nEraseRetries.get());
            ps.add_mech( "ellen.onSearchRetry", st.m_nSearchRetry.get());
        }
    };

    // ---------------------------------------------------------------- Bronson AVL tree map: int -> Item (value form) / Item* (pointer form)
    struct ItemDisposer { void operator()( Item* p ) const { delete p; } };
    template <class Monitor, bool Relaxed>
    struct br_tr: cc::bronson_avltree::traits {
        typedef std::less<int> less; typedef IC item_counter; typedef cc::bronson_avltree::stat<> stat; typedef Monitor sync_monitor;
        static bool const relaxed_insert = Relaxed;
    };
    template <class Monitor, bool Relaxed>
    struct brp_tr: br_tr<Monitor, Relaxed> { typedef ItemDisposer disposer; };

    struct BrImbalance { std::string* why; void operator()( size_t nLevel, size_t hLeft, size_t hRight ) const { *why = "AVL imbalance at level " + std::to_string( nLevel ) + ": left height " + std::to_string( hLeft ) + ", right height " + std::to_string( hRight ); } };

    // CallerOwned = false drops insert(key,val)/emplace, i.e. the forms that hand a caller-owned value to the tree (see known finding F14:
    // with traits::relaxed_insert the tree frees that value when its optimistic node creation fails and then retries with the dangling pointer)
    template <class M, class Rcu, bool MinMax = false, bool CallerOwned = true>
    struct BronsonAdapter: Attach {
        M m;
        static unsigned supports() { return ( CallerOwned ? ( M_INS | M_EMP ) : 0 ) | M_INSF | M_UPD | M_UPDNI | M_ERS | M_ERSF | M_EXT | M_CON | M_FND | M_ERSW | M_FNDW | ( MinMax ? ( M_EXMIN | M_EXMAX ) : 0 ); }
        SetRes exec( int aop, int key, int64_t id )
        {
            SetRes r; r.key = key; r.a = id;
            int64_t seen = -2, calls = 0; int is_new = -1;
            switch ( aop ) {
            case A_INS: r.mop = K_INS; r.r = m.insert( key, Item( key, id )) ? 1 : 0; break;
            case A_INSF: {
                r.mop = K_INS;
                bool ok = m.insert_with( key, [&]( int const&, Item& it ) { ++calls; it = Item( key, id ); } );
                r.r = ok ? 1 : 0;
                if ( calls != ( ok ? 1 : 0 )) functor_ledger().bad_calls.fetch_add( 1 );
                break;
            }
            case A_EMP: r.mop = K_INS; r.r = m.emplace( key, key, id ) ? 1 : 0; break;
            case A_UPD: case A_UPDNI: {
                bool allow = aop == A_UPD;
                std::pair<bool, bool> pr = m.update( key, [&]( bool bNew, int const&, Item& it ) { ++calls; is_new = bNew ? 1 : 0; if ( bNew ) it = Item( key, id ); else seen = observe( it, "update functor" ); }, allow );
                r.mop = K_UPD; r.b = allow ? KF_ALLOW_INSERT : 0; r.r = pr.first ? ( pr.second ? 2 : 1 ) : 0; r.r2 = seen;
                if ( !pr.first && pr.second ) r.r = 9;
                if ( calls != ( pr.first ? 1 : 0 ) || ( pr.first && is_new != ( pr.second ? 1 : 0 ))) functor_ledger().bad_calls.fetch_add( 1 );
                break;
            }
            case A_ERS: r.mop = K_ERS; r.r = m.erase( key ) ? 1 : 0; break;
            case A_ERSW: r.mop = K_ERS; r.r = m.erase_with( key, std::less<int>()) ? 1 : 0; break;
            case A_ERSF: r.mop = K_ERS; r.r = m.erase( key, [&]( int const&, Item& it ) { seen = observe( it, "erase functor" ); } ) ? 1 : 0; r.r2 = seen; break;
            case A_EXT: {
                typename M::exempt_ptr ep( m.extract( key ));
                r.mop = K_ERS; r.r = ep ? 1 : 0;
                if ( ep ) { r.r2 = observe( *ep, "extract exempt_ptr" ); ep.release(); }
                break;
            }
            case A_EXMIN: case A_EXMAX: {
                int k = -1;
                typename M::exempt_ptr ep( aop == A_EXMIN ? m.extract_min( [&k]( int const& kk ) { k = kk; } ) : m.extract_max( [&k]( int const& kk ) { k = kk; } ));
                r.mop = K_ERS; r.r = ep ? 1 : 0; r.key = ep ? k : -1;
                if ( ep ) { r.r2 = observe( *ep, "extract_min/max exempt_ptr" ); if ( ep->key != k ) r.r2 = -7; ep.release(); }
                break;
            }
            case A_CON: r.mop = K_FND; r.r = m.contains( key ) ? 1 : 0; break;
            case A_FND: r.mop = K_FND; r.r = m.find( key, [&]( int const&, Item& it ) { seen = observe( it, "find functor" ); } ) ? 1 : 0; r.r2 = seen; break;
            case A_FNDW: r.mop = K_FND; r.r = m.find_with( key, std::less<int>(), [&]( int const&, Item& it ) { seen = observe( it, "find functor" ); } ) ? 1 : 0; r.r2 = seen; break;
            }
            return r;
        }
        static unsigned max_keys() { return 1u << 30; }
        bool traverse( std::vector<std::pair<int, int64_t>>& ) { return false; }
        int64_t size() { return int64_t( m.size()); }
        bool empty() { return m.empty(); }
        bool consistent( std::string& why ) { return m.check_consistency( BrImbalance{ &why } ); }
        void mechanisms( PropStats& ps )
        {
            auto const& st = m.statistics();
            ps.add_mech( "bronson.onRotateRight", st.m_nRightRotation.get()); ps.add_mech( "bronson.onRotateLeft", st.m_nLeftRotation.get());
            ps.add_mech( "bronson.onRotateLeftOverRight", st.m_nLeftRightRotation.get()); ps.add_mech( "bronson.onRotateRightOverLeft", st.m_nRightLeftRotation.get());
            ps.add_mech( "bronson.onInsertRetry", st.m_nInsertRetry.get()); ps.add_mech( "bronson.onUpdateRetry", st.m_nUpdateRetry.get());
            ps.add_mech( "bronson.onRemoveRetry", st.m_nRemoveRetry.get()); ps.add_mech( "bronson.onFindRetry", st.m_nFindRetry.get());
        }
    };

    // pointer form: int -> Item*; update() swaps the mapped pointer and the tree disposes the old one
    template <class M, class Rcu, bool MinMax = false>
    struct BronsonPtrAdapter: Attach {
        M m;
        static unsigned supports() { return M_INS | M_UPD | M_UPDNI | M_ERS | M_ERSF | M_EXT | M_CON | M_FND | ( MinMax ? ( M_EXMIN | M_EXMAX ) : 0 ); }
        SetRes exec( int aop, int key, int64_t id )
        {
            SetRes r; r.key = key; r.a = id;
            int64_t seen = -2;
            switch ( aop ) {
            case A_INS: { Item* p = new Item( key, id ); r.mop = K_INS; bool ok = m.insert( key, p ); if ( !ok ) delete p; r.r = ok ? 1 : 0; break; }
            case A_UPD: case A_UPDNI: {
                bool allow = aop == A_UPD;
                Item* p = new Item( key, id );
                std::pair<bool, bool> pr = m.update( key, p, allow );
                if ( !pr.first ) delete p;
                r.mop = K_UPD; r.b = ( allow ? KF_ALLOW_INSERT : 0 ) | KF_REPLACES; r.r = pr.first ? ( pr.second ? 2 : 1 ) : 0;
                if ( !pr.first && pr.second ) r.r = 9;
                break;
            }
            case A_ERS: r.mop = K_ERS; r.r = m.erase( key ) ? 1 : 0; break;
            case A_ERSF: r.mop = K_ERS; r.r = m.erase( key, [&]( int const&, Item& it ) { seen = observe( it, "erase functor" ); } ) ? 1 : 0; r.r2 = seen; break;
            case A_EXT: {
                typename M::exempt_ptr ep( m.extract( key ));
                r.mop = K_ERS; r.r = ep ? 1 : 0;
                if ( ep ) { r.r2 = observe( *ep, "extract exempt_ptr" ); ep.release(); }
                break;
            }
            case A_EXMIN: case A_EXMAX: {
                int k = -1;
                typename M::exempt_ptr ep( aop == A_EXMIN ? m.extract_min_key( k ) : m.extract_max_key( k ));
                r.mop = K_ERS; r.r = ep ? 1 : 0; r.key = ep ? k : -1;
                if ( ep ) { r.r2 = observe( *ep, "extract_min/max exempt_ptr" ); if ( ep->key != k ) r.r2 = -7; ep.release(); }
                break;
            }
            case A_CON: r.mop = K_FND; r.r = m.contains( key ) ? 1 : 0; break;
            case A_FND: r.mop = K_FND; r.r = m.find( key, [&]( int const&, Item& it ) { seen = observe( it, "find functor" ); } ) ? 1 : 0; r.r2 = seen; break;
            }
            return r;
        }
        static unsigned max_keys() { return 1u << 30; }
        bool traverse( std::vector<std::pair<int, int64_t>>& ) { return false; }
        int64_t size() { return int64_t( m.size()); }
        bool empty() { return m.empty(); }
        bool consistent( std::string& why ) { return m.check_consistency( BrImbalance{ &why } ); }
        void mechanisms( PropStats& ps )
        {
            auto const& st = m.statistics();
            ps.add_mech( "bronson.onRotateRight", st.m_nRightRotation.get()); ps.add_mech( "bronson.onRotateLeft", st.m_nLeftRotation.get());
            ps.add_mech( "bronson.onRotateLeftOverRight", st.m_nLeftRightRotation.get()); ps.add_mech( "bronson.onRotateRightOverLeft", st.m_nRightLeftRotation.get());
        }
    };

    static const unsigned M_TREE = M_GC_SET | M_EXMIN | M_EXMAX | M_ERSW | M_FNDW;

    template <class S, class Rcu, bool Iter>
    void go_skip( const char* name ) { run_set_variant< SetAdapter<S, MkSkip<S, Rcu>, M_TREE, UPD_STD, Rcu, Iter> >( "C15", name, true, true, 2 ); }
    template <class S, class Rcu>
    void go_ellen( const char* name ) { run_set_variant< SetAdapter<S, MkEllen<S>, M_TREE, UPD_STD, Rcu, false> >( "C15", name, true, true, 2 ); }
    template <class A>
    void go_raw( const char* name ) { run_set_variant<A>( "C15", name, true, true, 2 ); }
}

int main( int argc, char** argv )
{
    parse_args( argc, argv );
    limit_memory_gb( 8 );
    prop( "C15" ).rule = "one evaluation = one round/segment (2-4 threads, seeded programs over 4-10 keys, full alphabet incl. extract_min/extract_max; two low keys are kept present by the main thread so the extract rules are armed) "
                         "of one container variant; every key's sub-history (extract_min/max recorded as a removal of the returned key) is checked by WGL against the absent|present(id) register model, "
                         "plus interval rules: extract_min/max may not return key k (or empty) while a smaller/larger key is surely present throughout the call; "
                         "non-trivial = >=1 pair of operations of different threads overlaps on one key; distinct = fingerprint of the per-key structures of the round";
    prop( "C18" ).rule = "one evaluation = one quiescent point (all workers parked at the barrier after a checked round): skip-list traversal yields exactly the present keys strictly increasing; "
                         "EllenBinTree/BronsonAVLTree check_consistency() (search-tree order, AVL balance) true; size()/empty() exact; non-trivial/distinct = the preceding round had overlapping operations";
    prop( "C20" ).rule = "one evaluation = one single-threaded sequence of 1-200 API calls (random alphabet incl. extract_min/max, 3+2 keys or 2000 keys) followed by lookups of every key; results must match the sequential ordered-set model exactly";
    LibInit lib;
    {
        rcu_gpi gpi; rcu_gpb gpb( 8 ); rcu_gpt gpt( 8 );
        SmrSetup smr( 24, 8 );    // skip list needs 2*height+3 hazard pointers (height 8 -> 19); generators below height 5 are not usable (c_nMinHeight = 5)
        typedef cds::gc::HP HP; typedef cds::gc::DHP DHP;

        go_skip< cc::SkipListSet<HP, Item, sl_tr<GenRnd<5>, false>>, void, true >( "SkipListSet<HP,less,rnd5>" );
        go_skip< cc::SkipListSet<DHP, Item, sl_tr<GenZero<5>, true>>, void, true >( "SkipListSet<DHP,compare,towers-low>" );
        go_skip< cc::SkipListSet<HP, Item, sl_tr<GenMax<5>, false>>, void, true >( "SkipListSet<HP,less,towers-high5>" );
        go_skip< cc::SkipListSet<DHP, Item, sl_tr<GenAlt<6>, false>>, void, true >( "SkipListSet<DHP,less,towers-alternating6>" );
        go_skip< cc::SkipListSet<rcu_gpb, Item, sl_tr<GenRnd<6>, false>>, rcu_gpb, true >( "SkipListSet<RCU_gpb,less,rnd6>" );
        go_skip< cc::SkipListSet<rcu_gpi, Item, sl_tr<GenAlt<5>, true>>, rcu_gpi, true >( "SkipListSet<RCU_gpi,compare,towers-alternating5>" );
        go_skip< cc::SkipListSet<rcu_gpt, Item, sl_tr<GenMax<8>, false>>, rcu_gpt, true >( "SkipListSet<RCU_gpt,less,towers-high8>" );

        go_ellen< cc::EllenBinTreeSet<HP, int, Item, el_tr<false>>, void >( "EllenBinTreeSet<HP,less>" );
        go_ellen< cc::EllenBinTreeSet<DHP, int, Item, el_tr<true>>, void >( "EllenBinTreeSet<DHP,compare>" );
        go_ellen< cc::EllenBinTreeSet<rcu_gpb, int, Item, el_tr<false>>, rcu_gpb >( "EllenBinTreeSet<RCU_gpb,less>" );
        go_ellen< cc::EllenBinTreeSet<rcu_gpi, int, Item, el_tr<true>>, rcu_gpi >( "EllenBinTreeSet<RCU_gpi,compare>" );

        typedef cds::sync::injecting_monitor<cds::sync::spin> InjMon;
        typedef cds::memory::vyukov_queue_pool<std::mutex> MtxPool;
        typedef cds::sync::pool_monitor<MtxPool> PoolMon;
        go_raw< BronsonAdapter< cc::BronsonAVLTreeMap<rcu_gpb, int, Item, br_tr<InjMon, false>>, rcu_gpb > >( "BronsonAVLTreeMap<RCU_gpb,value,injecting>" );
        go_raw< BronsonAdapter< cc::BronsonAVLTreeMap<rcu_gpi, int, Item, br_tr<PoolMon, false>>, rcu_gpi > >( "BronsonAVLTreeMap<RCU_gpi,value,pool_monitor>" );
        go_raw< BronsonAdapter< cc::BronsonAVLTreeMap<rcu_gpt, int, Item, br_tr<InjMon, true>>, rcu_gpt, false, false > >( "BronsonAVLTreeMap<RCU_gpt,value,injecting,relaxed_insert>" );
        go_raw< BronsonPtrAdapter< cc::BronsonAVLTreeMap<rcu_gpb, int, Item*, brp_tr<InjMon, false>>, rcu_gpb > >( "BronsonAVLTreeMap<RCU_gpb,pointer,injecting>" );
        go_raw< BronsonPtrAdapter< cc::BronsonAVLTreeMap<rcu_gpi, int, Item*, brp_tr<PoolMon, false>>, rcu_gpi > >( "BronsonAVLTreeMap<RCU_gpi,pointer,pool_monitor>" );
        // the same trees with extract_min/extract_max in the concurrent alphabet: kept apart (and last) because a no-progress finding in
        // extract_min/max ends the process (see known_findings.json)
        go_raw< BronsonAdapter< cc::BronsonAVLTreeMap<rcu_gpb, int, Item, br_tr<InjMon, false>>, rcu_gpb, true > >( "BronsonAVLTreeMap<RCU_gpb,value,injecting>+extract_minmax" );
        go_raw< BronsonAdapter< cc::BronsonAVLTreeMap<rcu_gpi, int, Item, br_tr<PoolMon, false>>, rcu_gpi, true > >( "BronsonAVLTreeMap<RCU_gpi,value,pool_monitor>+extract_minmax" );
        go_raw< BronsonPtrAdapter< cc::BronsonAVLTreeMap<rcu_gpt, int, Item*, brp_tr<InjMon, false>>, rcu_gpt, true > >( "BronsonAVLTreeMap<RCU_gpt,pointer,injecting>+extract_minmax" );
        // relaxed_insert together with caller-owned values (insert(key,val), emplace, every insertion of the pointer form): known finding F14
        // (the process dies with a double free), therefore the very last variants
        go_raw< BronsonAdapter< cc::BronsonAVLTreeMap<rcu_gpb, int, Item, br_tr<InjMon, true>>, rcu_gpb, false, true > >( "BronsonAVLTreeMap<RCU_gpb,value,injecting,relaxed_insert>+caller_owned_insert" );
        go_raw< BronsonPtrAdapter< cc::BronsonAVLTreeMap<rcu_gpi, int, Item*, brp_tr<PoolMon, true>>, rcu_gpi > >( "BronsonAVLTreeMap<RCU_gpi,pointer,pool_monitor,relaxed_insert>+caller_owned_insert" );
    }
    return finish( "set_tree" );
}
