// C10: FCDeque is a linearizable double-ended queue.  C11: priority queues conserve items and honour priority order.
#include <cdsv/seqdrv.h>
#include <cdsv/oracles.h>
#include <cdsv/smr.h>
#include <cds/container/fcdeque.h>
#include <cds/container/fcpriority_queue.h>
#include <cds/container/mspriority_queue.h>
#include <cds/sync/spinlock.h>
#include <boost/container/deque.hpp>
#include <boost/container/stable_vector.hpp>
#include <mutex>
#include <deque>
#include <queue>
#include <vector>

namespace {
    using namespace cdsv;
    namespace cc = cds::container;
    namespace fc = cds::algo::flat_combining;

    struct Val {
        int64_t uid = 0;
        int64_t prio = 0;
        uint64_t pay = 0;
        Val() {}
        Val( int64_t u, int64_t p ) : uid( u ), prio( p ), pay( mix64( uint64_t( u ) * 31 + uint64_t( p ))) {}
        Val( Val const& o ) { payload_copy( reinterpret_cast<uint64_t*>( this ), reinterpret_cast<uint64_t const*>( &o ), 3 ); }
        Val& operator=( Val const& o ) { payload_copy( reinterpret_cast<uint64_t*>( this ), reinterpret_cast<uint64_t const*>( &o ), 3 ); return *this; }
        bool good() const { return pay == mix64( uint64_t( uid ) * 31 + uint64_t( prio )); }
        bool operator<( Val const& o ) const { return prio < o.prio; }
    };
    int64_t bad_uid( Val const& v ) { return ( int64_t( 1 ) << 62 ) | ( v.uid & 0xffffff ); }

    struct MechFC { template <class S> static void get( S& s, PropStats& ps, const char* pfx ) {
        auto const& st = s.statistics();
        ps.add_mech( std::string( pfx ) + "onCombining", st.m_nCombiningCount.get()); ps.add_mech( std::string( pfx ) + "onCollide", st.m_nCollided.get());
        ps.add_mech( std::string( pfx ) + "onPassiveToCombiner", st.m_nPassiveToCombiner.get());
    }};

    // ---------------------------------------------------------------- FCDeque
    template <class D>
    struct DequeAdapter: Attach {
        D d;
        int64_t capacity() { return -1; }
        int64_t exec( int op, int64_t uid, int64_t, int64_t& )
        {
            Val v;
            switch ( op ) {
            // copy overload (lvalue) and move overload
            case S_PUSH_BACK: { Val t( uid, 0 ); return (( uid & 1 ) ? d.push_back( t ) : d.push_back( std::move( t ))) ? 1 : 0; }
            case S_PUSH_FRONT: { Val t( uid, 0 ); return (( uid & 1 ) ? d.push_front( t ) : d.push_front( std::move( t ))) ? 1 : 0; }
            case S_POP_FRONT: if ( !d.pop_front( v )) return -1; return v.good() ? v.uid : bad_uid( v );
            case S_POP_BACK: if ( !d.pop_back( v )) return -1; return v.good() ? v.uid : bad_uid( v );
            case S_EMPTY: return d.empty() ? 1 : 0;
            case S_CLEAR: d.clear(); return 0;
            }
            return -9;
        }
        void mechanisms( PropStats& ps ) { MechFC::get( d, ps, "fcdeque." ); }
    };
    template <class D, unsigned CompactFactor, unsigned PassCount>
    struct DequeAdapterCfg: DequeAdapter<D> {
        DequeAdapterCfg() {}
    };
    // FCDeque( compact factor, combine pass count )
    template <class D, unsigned CF, unsigned PC>
    struct DequeAdapter2: Attach {
        D d;
        DequeAdapter2() : d( CF, PC ) {}
        int64_t capacity() { return -1; }
        int64_t exec( int op, int64_t uid, int64_t, int64_t& )
        {
            Val v;
            switch ( op ) {
            case S_PUSH_BACK: { Val t( uid, 0 ); return (( uid & 1 ) ? d.push_back( t ) : d.push_back( std::move( t ))) ? 1 : 0; }
            case S_PUSH_FRONT: { Val t( uid, 0 ); return (( uid & 1 ) ? d.push_front( t ) : d.push_front( std::move( t ))) ? 1 : 0; }
            case S_POP_FRONT: if ( !d.pop_front( v )) return -1; return v.good() ? v.uid : bad_uid( v );
            case S_POP_BACK: if ( !d.pop_back( v )) return -1; return v.good() ? v.uid : bad_uid( v );
            case S_EMPTY: return d.empty() ? 1 : 0;
            case S_CLEAR: d.clear(); return 0;
            }
            return -9;
        }
        void mechanisms( PropStats& ps ) { MechFC::get( d, ps, "fcdeque." ); }
    };

    template <class Adapter>
    void run_deque( std::string const& name )
    {
        if ( !args().want( name )) return;
        Rng vr( args().seed ^ std::hash<std::string>()( name ));
        for ( int seg = 0; seg < 2; ++seg ) {
            SeqPlan p; p.prop = "C10"; p.variant = name + ( seg ? "/segments" : "/rounds" );
            p.threads = vr.range( 2, 4 );
            if ( seg ) { p.min_ops = 6; p.max_ops = 20; p.rounds = args().n( 500, 12000 ); }
            else { p.min_ops = 1; p.max_ops = 4; p.rounds = args().n( 6000, 150000 ); p.prefill_max = 2; }
            // biased to near-empty deques: pops slightly more frequent than pushes
            p.weight[S_PUSH_BACK] = 5; p.weight[S_PUSH_FRONT] = 5; p.weight[S_POP_FRONT] = 6; p.weight[S_POP_BACK] = 6; p.weight[S_EMPTY] = 1; p.weight[S_CLEAR] = seg ? 0 : 1;
            p.drain_op = ( vr.next() & 1 ) ? S_POP_FRONT : S_POP_BACK;
            SeqDriver<Adapter, SeqModel> d( p );
            d.run();
        }
    }

    template <bool Elim, class Lock, class Wait>
    struct dq_traits: cc::fcdeque::traits {
        typedef cc::fcdeque::stat<> stat;
        static constexpr const bool enable_elimination = Elim;
        typedef Lock lock_type;
        typedef Wait wait_strategy;
    };

    // ---------------------------------------------------------------- FCPriorityQueue
    template <class Q>
    struct FcpqAdapter: Attach {
        Q q;
        int64_t capacity() { return -1; }
        int64_t exec( int op, int64_t uid, int64_t prio, int64_t& r2 )
        {
            switch ( op ) {
            case P_PUSH: { Val t( uid, prio ); return (( uid & 1 ) ? q.push( t ) : q.push( std::move( t ))) ? 1 : 0; }   // copy and move overloads
            case P_POP: { Val v; if ( !q.pop( v )) return -1; r2 = v.prio; return v.good() ? v.uid : bad_uid( v ); }
            case P_EMPTY: return q.empty() ? 1 : 0;
            case P_CLEAR: q.clear(); return 0;
            }
            return -9;
        }
        void mechanisms( PropStats& ps )
        {
            auto const& st = q.statistics();
            ps.add_mech( "fcpq.onCombining", st.m_nCombiningCount.get()); ps.add_mech( "fcpq.onPassiveToCombiner", st.m_nPassiveToCombiner.get());
        }
    };
    template <class Lock, class Wait>
    struct fcpq_traits: cc::fcpqueue::traits {
        typedef cc::fcpqueue::stat<> stat;
        typedef Lock lock_type;
        typedef Wait wait_strategy;
    };

    template <class Adapter>
    void run_fcpq( std::string const& name )
    {
        if ( !args().want( name )) return;
        Rng vr( args().seed ^ std::hash<std::string>()( name ));
        for ( int seg = 0; seg < 2; ++seg ) {
            SeqPlan p; p.prop = "C11"; p.variant = name + ( seg ? "/segments" : "/rounds" );
            p.is_pq = true; p.prio_range = vr.range( 1, 4 );
            p.threads = vr.range( 2, 4 );
            if ( seg ) { p.min_ops = 6; p.max_ops = 16; p.rounds = args().n( 400, 10000 ); }
            else { p.min_ops = 1; p.max_ops = 4; p.rounds = args().n( 5000, 120000 ); p.prefill_max = 3; }
            p.weight[P_PUSH] = 10; p.weight[P_POP] = 10; p.weight[P_EMPTY] = 1; p.weight[P_CLEAR] = seg ? 0 : 1;
            p.drain_op = P_POP;
            SeqDriver<Adapter, PqModel> d( p );
            d.run();
        }
    }

    // ---------------------------------------------------------------- MSPriorityQueue
    template <class Q, size_t Cap>
    struct MspqAdapter: NoAttach {
        Q q;
        MspqAdapter() : q( Cap ) {}
        int64_t capacity() { return int64_t( q.capacity()); }
        int64_t exec( int op, int64_t uid, int64_t prio, int64_t& r2 )
        {
            switch ( op ) {
            case P_PUSH: { Val t( uid, prio ); return (( uid & 1 ) ? q.push( t ) : q.push( std::move( t ))) ? 1 : 0; }   // copy and move overloads
            case P_POP: { Val v; if ( !q.pop( v )) return -1; r2 = v.prio; return v.good() ? v.uid : bad_uid( v ); }
            case P_EMPTY: return q.empty() ? 1 : 0;
            case P_SIZE: return int64_t( q.size());
            }
            return -9;
        }
        void mechanisms( PropStats& ps )
        {
            auto const& st = q.statistics();
            ps.add_mech( "mspq.onPushFailed", st.m_nPushFailCount.get()); ps.add_mech( "mspq.onPopFailed", st.m_nPopFailCount.get());
            ps.add_mech( "mspq.onPushHeapifySwap", st.m_nPushHeapifySwapCount.get()); ps.add_mech( "mspq.onPopHeapifySwap", st.m_nPopHeapifySwapCount.get());
            ps.add_mech( "mspq.onItemMovedTop", st.m_nItemMovedTop.get()); ps.add_mech( "mspq.onItemMovedUp", st.m_nItemMovedUp.get());
            ps.add_mech( "mspq.onPushEmptyPass", st.m_nPushEmptyPass.get());
        }
    };
    template <class Buffer, class Lock>
    struct mspq_traits: cc::mspriority_queue::traits {
        typedef cc::mspriority_queue::stat<> stat;
        typedef Buffer buffer;
        typedef Lock lock_type;
        typedef std::less<Val> less;
    };

    template <class Adapter>
    void run_mspq( std::string const& name )
    {
        if ( !args().want( name )) return;
        Rng vr( args().seed ^ std::hash<std::string>()( name ));
        // (ii) phased programs: pushes overlap pushes only, pops overlap pops only: WGL against the bounded max-priority queue
        {
            SeqPlan p; p.prop = "C11"; p.variant = name + "/phased";
            p.is_pq = true; p.prio_range = vr.range( 1, 5 ); p.phased = true;
            p.threads = vr.range( 2, 4 );
            p.min_ops = 1; p.max_ops = 4; p.rounds = args().n( 6000, 150000 );
            p.weight[P_PUSH] = 10; p.weight[P_POP] = 10;
            p.drain_op = P_POP;
            SeqDriver<Adapter, PqModel> d( p );
            d.run();
        }
        // (i)+(iii) free mixed histories: conservation and the push-fail rule only
        {
            SeqPlan p; p.prop = "C11"; p.variant = name + "/mixed";
            p.is_pq = true; p.prio_range = vr.range( 1, 5 );
            p.threads = vr.range( 2, 4 );
            p.min_ops = 4; p.max_ops = 20; p.rounds = args().n( 2500, 60000 );
            p.weight[P_PUSH] = 11; p.weight[P_POP] = 9;
            p.drain_op = P_POP;
            p.custom_check = pq_mixed_oracle;
            SeqDriver<Adapter, PqModel> d( p );
            d.run();
        }
    }
}

int main( int argc, char** argv )
{
    parse_args( argc, argv );
    limit_memory_gb( 8 );
    const char* rule = "one evaluation = one round/segment history (2-4 threads, seeded programs) of one container variant incl. the sequential drain; "
                       "non-trivial = >=1 pair of operations of different threads overlaps; distinct = fingerprint of (op, normalised ids, priorities, results, interleaving order of all invocation/response events). ";
    prop( "C10" ).rule = std::string( rule ) + "Checked by WGL against the sequential deque model (push/pop at both ends, clear, empty).";
    prop( "C11" ).rule = std::string( rule ) + "FCPriorityQueue and phased MSPriorityQueue programs (push-only phase, barrier, pop-only phase): WGL against the (bounded) max-priority multiset; "
                         "free mixed MSPriorityQueue histories: conservation ledger + push-fail rule (a failed push is a violation iff fewer than capacity items can have been present at every instant of the call).";
    LibInit lib;
    {
        SmrSetup smr( 4, 8 );
        typedef cds::sync::spin Spin;
        bool c10 = args().prop != "C11", c11 = args().prop != "C10";
        if ( c10 ) {
            run_deque< DequeAdapter< cc::FCDeque<Val, std::deque<Val>, dq_traits<false, Spin, fc::wait_strategy::backoff<>>> >>( "FCDeque<noelim,std,backoff>" );
            run_deque< DequeAdapter< cc::FCDeque<Val, std::deque<Val>, dq_traits<true, Spin, fc::wait_strategy::backoff<>>> >>( "FCDeque<elim,std,backoff>" );
            run_deque< DequeAdapter< cc::FCDeque<Val, boost::container::deque<Val>, dq_traits<true, std::mutex, fc::wait_strategy::empty>> >>( "FCDeque<elim,boost,mutex,empty>" );
            run_deque< DequeAdapter2< cc::FCDeque<Val, std::deque<Val>, dq_traits<true, Spin, fc::wait_strategy::backoff<>>>, 1, 1 >>( "FCDeque<elim,std,compact1,pass1>" );
            run_deque< DequeAdapter2< cc::FCDeque<Val, std::deque<Val>, dq_traits<true, Spin, fc::wait_strategy::backoff<>>>, 2, 4 >>( "FCDeque<elim,std,compact2,pass4>" );
            run_deque< DequeAdapter2< cc::FCDeque<Val, boost::container::deque<Val>, dq_traits<false, Spin, fc::wait_strategy::backoff<>>>, 1, 2 >>( "FCDeque<noelim,boost,compact1,pass2>" );
            run_deque< DequeAdapter< cc::FCDeque<Val, std::deque<Val>, dq_traits<true, Spin, fc::wait_strategy::single_mutex_single_condvar<>>> >>( "FCDeque<elim,ss>" );
            run_deque< DequeAdapter< cc::FCDeque<Val, std::deque<Val>, dq_traits<true, Spin, fc::wait_strategy::single_mutex_multi_condvar<>>> >>( "FCDeque<elim,sm>" );
            run_deque< DequeAdapter< cc::FCDeque<Val, std::deque<Val>, dq_traits<false, Spin, fc::wait_strategy::multi_mutex_multi_condvar<>>> >>( "FCDeque<noelim,mm>" );
        }
        if ( c11 ) {
            run_fcpq< FcpqAdapter< cc::FCPriorityQueue<Val, std::priority_queue<Val>, fcpq_traits<Spin, fc::wait_strategy::backoff<>>> >>( "FCPriorityQueue<vector,backoff>" );
            run_fcpq< FcpqAdapter< cc::FCPriorityQueue<Val, std::priority_queue<Val, std::deque<Val>>, fcpq_traits<std::mutex, fc::wait_strategy::empty>> >>( "FCPriorityQueue<deque,mutex,empty>" );
            run_fcpq< FcpqAdapter< cc::FCPriorityQueue<Val, std::priority_queue<Val, boost::container::stable_vector<Val>>, fcpq_traits<Spin, fc::wait_strategy::single_mutex_single_condvar<>>> >>( "FCPriorityQueue<stable_vector,ss>" );
            run_fcpq< FcpqAdapter< cc::FCPriorityQueue<Val, std::priority_queue<Val>, fcpq_traits<Spin, fc::wait_strategy::multi_mutex_multi_condvar<>>> >>( "FCPriorityQueue<vector,mm>" );

            using cds::opt::v::initialized_dynamic_buffer; using cds::opt::v::initialized_static_buffer;
            run_mspq< MspqAdapter< cc::MSPriorityQueue<Val, mspq_traits<initialized_dynamic_buffer<char>, Spin>>, 2 >>( "MSPriorityQueue<dyn2,spin>" );
            run_mspq< MspqAdapter< cc::MSPriorityQueue<Val, mspq_traits<initialized_dynamic_buffer<char>, Spin>>, 3 >>( "MSPriorityQueue<dyn3,spin>" );
            run_mspq< MspqAdapter< cc::MSPriorityQueue<Val, mspq_traits<initialized_dynamic_buffer<char>, std::mutex>>, 4 >>( "MSPriorityQueue<dyn4,mutex>" );
            run_mspq< MspqAdapter< cc::MSPriorityQueue<Val, mspq_traits<initialized_static_buffer<char, 8>, Spin>>, 8 >>( "MSPriorityQueue<static8,spin>" );
            run_mspq< MspqAdapter< cc::MSPriorityQueue<Val, mspq_traits<initialized_dynamic_buffer<char>, Spin>>, 16 >>( "MSPriorityQueue<dyn16,spin>" );
        }
    }
    return finish( "deque_pq" );
}
