// C14 (+C18, +C20 sequential mode): hash sets - MichaelHashSet over every list kind, SplitListSet (static and expandable bucket tables),
// FeldmanHashSet (minimal head/array widths, shared-prefix hashes) over HP, DHP and URCU flavours.
#include <cdsv/setadapt.h>
#include <cds/urcu/general_instant.h>
#include <cds/urcu/general_buffered.h>
#include <cds/urcu/general_threaded.h>
#include <cds/container/michael_list_hp.h>
#include <cds/container/michael_list_dhp.h>
#include <cds/container/michael_list_rcu.h>
#include <cds/container/lazy_list_hp.h>
#include <cds/container/lazy_list_dhp.h>
#include <cds/container/lazy_list_rcu.h>
#include <cds/container/iterable_list_hp.h>
#include <cds/container/iterable_list_dhp.h>
#include <cds/container/michael_set.h>
#include <cds/container/michael_set_rcu.h>
#include <cds/container/split_list_set.h>
#include <cds/container/split_list_set_rcu.h>
#include <cds/container/feldman_hashset_hp.h>
#include <cds/container/feldman_hashset_dhp.h>
#include <cds/container/feldman_hashset_rcu.h>

namespace {
    using namespace cdsv;
    namespace cc = cds::container;
    typedef cds::atomicity::item_counter IC;

    struct HashId  { size_t operator()( int k ) const { return size_t( k ); } size_t operator()( Item const& i ) const { return size_t( i.key ); } };
    struct HashMod2 { size_t operator()( int k ) const { return size_t( k & 1 ); } size_t operator()( Item const& i ) const { return size_t( i.key & 1 ); } };
    struct HashConst { size_t operator()( int ) const { return 5; } size_t operator()( Item const& ) const { return 5; } };
    struct HashHigh { size_t operator()( int k ) const { return size_t( k ) << 20; } size_t operator()( Item const& i ) const { return size_t( i.key ) << 20; } };

    typedef cds::urcu::gc<cds::urcu::general_instant<>> rcu_gpi;
    typedef cds::urcu::gc<cds::urcu::general_buffered<>> rcu_gpb;
    typedef cds::urcu::gc<cds::urcu::general_threaded<>> rcu_gpt;

    struct ml_tr: cc::michael_list::traits { typedef ItemLess less; };
    struct ll_tr: cc::lazy_list::traits { typedef ItemCmp compare; };
    struct il_tr: cc::iterable_list::traits { typedef ItemLess less; };

    // ---------------------------------------------------------------- MichaelHashSet
    template <class H> struct mset_tr: cc::michael_set::traits { typedef H hash; typedef IC item_counter; };
    template <class S, size_t MaxItems, size_t Load, bool LazyRcu = false> struct MkMichaelSet: MakeBase {
        static constexpr bool extract_locked = LazyRcu;
        static S* make() { return new S( MaxItems, Load ); }
    };

    // ---------------------------------------------------------------- SplitListSet
    template <class Tag, class ListTraits, class H, bool Dyn, class BR>
    struct split_tr: cc::split_list::traits {
        typedef Tag ordered_list;
        typedef H hash;
        typedef ListTraits ordered_list_traits;
        static const bool dynamic_bucket_table = Dyn;
        typedef BR bit_reversal;
        typedef cc::split_list::stat<> stat;
        typedef IC item_counter;
    };
    template <class S, size_t Items, size_t Load, bool LazyRcu = false> struct MkSplit: MakeBase {
        static constexpr bool extract_locked = LazyRcu;
        static S* make() { return new S( Items, Load ); }
        static void mechanisms( S& s, PropStats& ps )
        {
            auto const& st = s.statistics();
            ps.add_mech( "split_list.onNewBucket", st.m_nBucketCount.get()); ps.add_mech( "split_list.onRecursiveInitBucket", st.m_nInitBucketRecursive.get());
            ps.add_mech( "split_list.onBucketInitContenton", st.m_nInitBucketContention.get()); ps.add_mech( "split_list.onBusyWaitBucketInit", st.m_nBusyWaitBucketInit.get());
            ps.add_mech( "split_list.onBucketsExhausted", st.m_nBucketsExhausted.get());
        }
    };

    // ---------------------------------------------------------------- FeldmanHashSet
    template <class HT>
    struct FItem {
        HT hash;
        Item it;
        FItem() : hash( 0 ) {}
        FItem( int k, int64_t id, unsigned shift ) : hash( HT( HT( k ) << shift )), it( k, id ) {}
    };
    template <class HT> struct f_accessor { HT const& operator()( FItem<HT> const& v ) const { return v.hash; } };
    template <class HT> struct feld_tr: cc::feldman_hashset::traits {
        typedef f_accessor<HT> hash_accessor;
        typedef cc::feldman_hashset::stat<> stat;
        typedef IC item_counter;
    };

    // Feldman addresses items by hash; update() replaces the item
    template <class S, class HT, unsigned HeadBits, unsigned ArrayBits, unsigned Shift, class Rcu>
    struct FeldmanAdapter: Attach {
        S s;
        FeldmanAdapter() : s( HeadBits, ArrayBits ) {}
        static unsigned supports() { return M_INS | M_INSF | M_EMP | M_UPD | M_UPDNI | M_ERS | M_ERSF | M_EXT | M_CON | M_FND | M_GET; }
        static HT h( int key ) { return HT( HT( key ) << Shift ); }
        // the key -> hash mapping must stay injective (Feldman requires unique hashes): keys are limited to the bits left above the shift
        static unsigned max_keys() { return ( sizeof( HT ) * 8 - Shift ) >= 20 ? ( 1u << 20 ) : ( 1u << ( sizeof( HT ) * 8 - Shift )); }

        template <class R> typename std::enable_if<std::is_void<R>::value, bool>::type do_extract( int key, int64_t& seen )
        {
            typename S::guarded_ptr gp( s.extract( h( key )));
            if ( !gp ) return false;
            seen = observe( gp->it, "extract guarded_ptr" );
            return true;
        }
        template <class R> typename std::enable_if<!std::is_void<R>::value, bool>::type do_extract( int key, int64_t& seen )
        {
            typename S::exempt_ptr ep( s.extract( h( key )));
            if ( !ep ) return false;
            seen = observe( ep->it, "extract exempt_ptr" );
            ep.release();
            return true;
        }
        template <class R> typename std::enable_if<std::is_void<R>::value, bool>::type do_get( int key, int64_t& seen )
        {
            typename S::guarded_ptr gp( s.get( h( key )));
            if ( !gp ) return false;
            for ( int i = 0; i < 3; ++i ) { seen = observe( gp->it, "get guarded_ptr" ); cds_verif_point( 5, nullptr ); }
            return true;
        }
        template <class R> typename std::enable_if<!std::is_void<R>::value, bool>::type do_get( int key, int64_t& seen )
        {
            typename R::scoped_lock l;
            FItem<HT>* p = s.get( h( key ));
            if ( !p ) return false;
            for ( int i = 0; i < 3; ++i ) { seen = observe( p->it, "get pointer (under RCU lock)" ); cds_verif_point( 5, nullptr ); }
            return true;
        }

        SetRes exec( int aop, int key, int64_t id )
        {
            SetRes r; r.key = key; r.a = id;
            int64_t seen = -2, calls = 0; int is_new = -1;
            switch ( aop ) {
            case A_INS: r.mop = K_INS; r.r = s.insert( FItem<HT>( key, id, Shift )) ? 1 : 0; break;
            case A_INSF: {
                r.mop = K_INS;
                bool ok = s.insert( FItem<HT>( key, id, Shift ), [&calls]( FItem<HT>& v ) { ++calls; observe( v.it, "insert functor" ); } );
                r.r = ok ? 1 : 0;
                if ( calls != ( ok ? 1 : 0 )) functor_ledger().bad_calls.fetch_add( 1 );
                break;
            }
            case A_EMP: r.mop = K_INS; r.r = s.emplace( key, id, Shift ) ? 1 : 0; break;
            case A_UPD: case A_UPDNI: {
                bool allow = aop == A_UPD;
                std::pair<bool, bool> pr = s.update( FItem<HT>( key, id, Shift ),
                    [&]( FItem<HT>&, FItem<HT>* old ) { ++calls; is_new = old ? 0 : 1; if ( old ) seen = observe( old->it, "update functor (old item)" ); }, allow );
                r.mop = K_UPD; r.b = ( allow ? KF_ALLOW_INSERT : 0 ) | KF_REPLACES;
                r.r = pr.first ? ( pr.second ? 2 : 1 ) : 0; r.r2 = seen;
                if ( !pr.first && pr.second ) r.r = 9;
                if ( calls != ( pr.first ? 1 : 0 ) || ( pr.first && is_new != ( pr.second ? 1 : 0 ))) functor_ledger().bad_calls.fetch_add( 1 );
                break;
            }
            case A_ERS: r.mop = K_ERS; r.r = s.erase( h( key )) ? 1 : 0; break;
            case A_ERSF: r.mop = K_ERS; r.r = s.erase( h( key ), [&seen]( FItem<HT>& v ) { seen = observe( v.it, "erase functor" ); } ) ? 1 : 0; r.r2 = seen; break;
            case A_EXT: r.mop = K_ERS; r.r = do_extract<Rcu>( key, seen ) ? 1 : 0; r.r2 = seen; break;
            case A_CON: r.mop = K_FND; r.r = s.contains( h( key )) ? 1 : 0; break;
            case A_FND: r.mop = K_FND; r.r = s.find( h( key ), [&seen]( FItem<HT>& v ) { seen = observe( v.it, "find functor" ); } ) ? 1 : 0; r.r2 = seen; break;
            case A_GET: r.mop = K_FND; r.r = do_get<Rcu>( key, seen ) ? 1 : 0; r.r2 = seen; break;
            }
            return r;
        }
        template <class R> typename std::enable_if<std::is_void<R>::value>::type trav( std::vector<std::pair<int, int64_t>>& out )
        {
            for ( auto it = s.begin(); it != s.end(); ++it ) out.push_back( std::make_pair( it->it.key, observe( it->it, "iterator" )));
        }
        template <class R> typename std::enable_if<!std::is_void<R>::value>::type trav( std::vector<std::pair<int, int64_t>>& out )
        {
            typename R::scoped_lock l;
            for ( auto it = s.begin(); it != s.end(); ++it ) out.push_back( std::make_pair( it->it.key, observe( it->it, "iterator" )));
        }
        bool traverse( std::vector<std::pair<int, int64_t>>& out ) { trav<Rcu>( out ); return true; }
        int64_t size() { return int64_t( s.size()); }
        bool empty() { return s.empty(); }
        bool consistent( std::string& ) { return true; }
        void mechanisms( PropStats& ps )
        {
            auto const& st = s.statistics();
            ps.add_mech( "feldman.onExpandNodeSuccess", st.m_nExpandNodeSuccess.get()); ps.add_mech( "feldman.onExpandNodeFailed", st.m_nExpandNodeFailed.get());
            ps.add_mech( "feldman.onSlotConverting", st.m_nSlotConverting.get()); ps.add_mech( "feldman.onSlotChanged", st.m_nSlotChanged.get());
            ps.add_mech( "feldman.onArrayNodeCreated", st.m_nArrayNodeCount.get()); ps.add_mech( "feldman.onInsertRetry", st.m_nInsertRetry.get());
            ps.add_mech( "feldman.onUpdateRetry", st.m_nUpdateRetry.get()); ps.add_mech( "feldman.onEraseRetry", st.m_nEraseRetry.get());
        }
    };

    static const unsigned M_HS = M_GC_SET | M_ERSW | M_FNDW;
    static const unsigned M_HS_ITER = M_GC_SET | M_UPS | M_ERSW | M_FNDW;

    template <class S, class Mk, unsigned Sup, int UK, class Rcu>
    void go( const char* name ) { run_set_variant< SetAdapter<S, Mk, Sup, UK, Rcu, true> >( "C14", name, false, true, 0, 1.0, 8, 24 ); }
    template <class A>
    void gof( const char* name ) { run_set_variant<A>( "C14", name, false, true, 0, 1.0, 6, 7 ); }
}

int main( int argc, char** argv )
{
    parse_args( argc, argv );
    limit_memory_gb( 8 );
    prop( "C14" ).rule = "one evaluation = one round/segment (2-4 threads, seeded programs over 2-8 keys with colliding / shared-prefix hashes, full alphabet) of one hash-set variant; every key's sub-history "
                         "(incl. the sequential lookups at the barrier that pin the next initial state) is checked by WGL against the absent|present(id) register model; the table is re-created every 25-400 rounds so that "
                         "bucket initialisation, table growth and Feldman array-node expansion happen while operations are in flight; "
                         "non-trivial = >=1 pair of operations of different threads overlaps on one key; distinct = fingerprint of the per-key structures of the round";
    prop( "C18" ).rule = "one evaluation = one quiescent point (all workers parked at the barrier after a checked round): iterator traversal yields exactly the keys that lookups report present, each once (strictly increasing for ordered containers); "
                         "size()/empty() exact where an item counter is configured; non-trivial/distinct = the preceding round had overlapping operations (fingerprint of that round)";
    prop( "C20" ).rule = "one evaluation = one single-threaded sequence of 1-200 API calls (random alphabet, 3 keys or 2000 keys, colliding hashes) followed by lookups of every key; results must match the sequential set model exactly";
    LibInit lib;
    {
        rcu_gpi gpi; rcu_gpb gpb( 8 ); rcu_gpt gpt( 8 );
        SmrSetup smr( 8, 8 );
        typedef cds::gc::HP HP; typedef cds::gc::DHP DHP;
        using cds::algo::bit_reversal::lookup; using cds::algo::bit_reversal::swar; using cds::algo::bit_reversal::muldiv;

        // MichaelHashSet: bucket counts 1, 2, 4
        { typedef cc::MichaelHashSet<HP, cc::MichaelList<HP, Item, ml_tr>, mset_tr<HashId>> S; go<S, MkMichaelSet<S, 2, 1>, M_HS, UPD_STD, void>( "MichaelHashSet<HP,MichaelList,2buckets,identity>" ); }
        { typedef cc::MichaelHashSet<DHP, cc::LazyList<DHP, Item, ll_tr>, mset_tr<HashMod2>> S; go<S, MkMichaelSet<S, 4, 1>, M_HS, UPD_STD, void>( "MichaelHashSet<DHP,LazyList,4buckets,mod2>" ); }
        { typedef cc::MichaelHashSet<HP, cc::IterableList<HP, Item, il_tr>, mset_tr<HashConst>> S; go<S, MkMichaelSet<S, 4, 1>, M_HS_ITER, UPD_REPLACING, void>( "MichaelHashSet<HP,IterableList,4buckets,const>" ); }
        { typedef cc::MichaelHashSet<DHP, cc::IterableList<DHP, Item, il_tr>, mset_tr<HashId>> S; go<S, MkMichaelSet<S, 1, 1>, M_HS_ITER, UPD_REPLACING, void>( "MichaelHashSet<DHP,IterableList,1bucket>" ); }
        { typedef cc::MichaelHashSet<rcu_gpb, cc::MichaelList<rcu_gpb, Item, ml_tr>, mset_tr<HashMod2>> S; go<S, MkMichaelSet<S, 2, 1>, M_HS, UPD_STD, rcu_gpb>( "MichaelHashSet<RCU_gpb,MichaelList,2buckets,mod2>" ); }
        { typedef cc::MichaelHashSet<rcu_gpi, cc::LazyList<rcu_gpi, Item, ll_tr>, mset_tr<HashId>> S; go<S, MkMichaelSet<S, 4, 1, true>, M_HS, UPD_STD, rcu_gpi>( "MichaelHashSet<RCU_gpi,LazyList,4buckets>" ); }

        // SplitListSet: initial item count 1-4, load factor 1 (the table doubles many times)
        { typedef cc::SplitListSet<HP, Item, split_tr<cc::michael_list_tag, ml_tr, HashId, true, lookup>> S; go<S, MkSplit<S, 64, 1>, M_HS, UPD_STD, void>( "SplitListSet<HP,michael,dyn,identity,lookup>" ); }
        { typedef cc::SplitListSet<DHP, Item, split_tr<cc::lazy_list_tag, ll_tr, HashMod2, true, swar>> S; go<S, MkSplit<S, 32, 1>, M_HS, UPD_STD, void>( "SplitListSet<DHP,lazy,dyn,mod2,swar>" ); }
        { typedef cc::SplitListSet<HP, Item, split_tr<cc::iterable_list_tag, il_tr, HashId, true, muldiv>> S; go<S, MkSplit<S, 64, 1>, M_HS_ITER, UPD_REPLACING, void>( "SplitListSet<HP,iterable,dyn,identity,muldiv>" ); }
        { typedef cc::SplitListSet<HP, Item, split_tr<cc::michael_list_tag, ml_tr, HashHigh, false, lookup>> S; go<S, MkSplit<S, 16, 2>, M_HS, UPD_STD, void>( "SplitListSet<HP,michael,static4,highbits>" ); }
        { typedef cc::SplitListSet<DHP, Item, split_tr<cc::iterable_list_tag, il_tr, HashConst, false, lookup>> S; go<S, MkSplit<S, 32, 1>, M_HS_ITER, UPD_REPLACING, void>( "SplitListSet<DHP,iterable,static2,const>" ); }
        { typedef cc::SplitListSet<rcu_gpb, Item, split_tr<cc::michael_list_tag, ml_tr, HashId, true, lookup>> S; go<S, MkSplit<S, 64, 1>, M_HS, UPD_STD, rcu_gpb>( "SplitListSet<RCU_gpb,michael,dyn,identity>" ); }
        { typedef cc::SplitListSet<rcu_gpt, Item, split_tr<cc::lazy_list_tag, ll_tr, HashMod2, true, lookup>> S; go<S, MkSplit<S, 32, 1, true>, M_HS, UPD_STD, rcu_gpt>( "SplitListSet<RCU_gpt,lazy,dyn,mod2>" ); }

        // FeldmanHashSet: minimal widths; keys in the low bits (differ in one chunk) or shifted to the high bits
        { typedef cc::FeldmanHashSet<HP, FItem<uint8_t>, feld_tr<uint8_t>> S; gof< FeldmanAdapter<S, uint8_t, 2, 2, 0, void> >( "FeldmanHashSet<HP,uint8,head2,array2,lowbits>" ); }
        { typedef cc::FeldmanHashSet<DHP, FItem<uint16_t>, feld_tr<uint16_t>> S; gof< FeldmanAdapter<S, uint16_t, 4, 2, 13, void> >( "FeldmanHashSet<DHP,uint16,head4,array2,highbits>" ); }
        { typedef cc::FeldmanHashSet<HP, FItem<uint32_t>, feld_tr<uint32_t>> S; gof< FeldmanAdapter<S, uint32_t, 4, 4, 0, void> >( "FeldmanHashSet<HP,uint32,head4,array4,lowbits>" ); }
        { typedef cc::FeldmanHashSet<DHP, FItem<uint64_t>, feld_tr<uint64_t>> S; gof< FeldmanAdapter<S, uint64_t, 4, 4, 61, void> >( "FeldmanHashSet<DHP,uint64,head4,array4,highbits>" ); }
        { typedef cc::FeldmanHashSet<rcu_gpb, FItem<uint16_t>, feld_tr<uint16_t>> S; gof< FeldmanAdapter<S, uint16_t, 4, 2, 0, rcu_gpb> >( "FeldmanHashSet<RCU_gpb,uint16,head4,array2,lowbits>" ); }
        { typedef cc::FeldmanHashSet<rcu_gpi, FItem<uint32_t>, feld_tr<uint32_t>> S; gof< FeldmanAdapter<S, uint32_t, 4, 4, 29, rcu_gpi> >( "FeldmanHashSet<RCU_gpi,uint32,head4,array4,highbits>" ); }
    }
    return finish( "set_hash" );
}
