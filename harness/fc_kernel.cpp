// C23: the flat-combining kernel executes every published request exactly once, by one combiner at a time, and the requester sees the
// response only after execution; publication records of exited threads are reclaimed and not accessed afterwards (ASan build).
// A harness container is built directly on cds::algo::flat_combining::kernel (combine, batch_combine, invoke_exclusive).
#include <cdsv/core.h>
#include <cdsv/smr.h>
#include <cds/algo/flat_combining.h>
#include <cds/sync/spinlock.h>
#include <mutex>

namespace cdsv { __attribute__((noinline)) void cs_touch( uint64_t* p ) { ++*p; } }

namespace {
    using namespace cdsv;
    namespace fc = cds::algo::flat_combining;

    struct Rec: fc::publication_record {
        std::atomic<int> exec{ 0 };
        int64_t arg = 0;
        int64_t result = -1;
        uint64_t ticket = 0;
    };

    std::string g_variant;
    std::atomic<uint64_t> g_requests{ 0 }, g_batch{ 0 }, g_excl{ 0 }, g_threads{ 0 }, g_in_process{ 0 };

    template <class Traits>
    class FcBox {
    public:
        typedef fc::kernel<Rec, Traits> kernel_t;
        typedef typename kernel_t::publication_record_type rec_t;
        enum { op_add = fc::req_Operation, op_read };
        kernel_t k;
        std::atomic<int> occ{ 0 };
        uint64_t plain = 0;          // touched only inside the combiner's critical section
        int64_t value = 0;
        std::atomic<uint64_t> applied{ 0 };

        FcBox( unsigned cf, unsigned pc ) : k( cf, pc ) {}

        void enter()
        {
            if ( occ.fetch_add( 1, std::memory_order_acq_rel ) != 0 )
                violation( "C23", "two-combiners:" + g_variant, "two threads execute requests at the same time (combiner occupancy was not 0 on entry)" );
            cs_touch( &plain );
        }
        void leave() { occ.fetch_sub( 1, std::memory_order_acq_rel ); }

        void fc_apply( rec_t* r )
        {
            enter();
            int e = r->exec.fetch_add( 1, std::memory_order_acq_rel );
            if ( e != 0 )
                violation( "C23", "request-executed-twice:" + g_variant, "a published request was executed " + std::to_string( e + 1 ) + " times" );
            if ( r->op() == op_add ) value += r->arg;
            r->result = value;
            applied.fetch_add( 1, std::memory_order_relaxed );
            leave();
        }
        void fc_process( typename kernel_t::iterator itBegin, typename kernel_t::iterator itEnd )
        {
            // batch mode: serve every second pending request here (operation_done must be called by the container), the kernel's own pass serves the rest
            unsigned n = 0;
            for ( typename kernel_t::iterator it = itBegin; it != itEnd; ++it ) {
                unsigned op = it->op( atomics::memory_order_acquire );
                if ( op >= unsigned( op_add ) && ( ++n & 1 )) {
                    fc_apply( &*it );
                    k.operation_done( *it );
                    g_in_process.fetch_add( 1, std::memory_order_relaxed );
                }
            }
        }

        // one request; returns false if a violation was seen
        void request( Rng& rng )
        {
            g_requests.fetch_add( 1, std::memory_order_relaxed );
            unsigned x = rng.below( 16 );
            if ( x == 0 ) {
                g_excl.fetch_add( 1, std::memory_order_relaxed );
                k.invoke_exclusive( [this]() { enter(); value += 0; leave(); } );
                return;
            }
            rec_t* r = k.acquire_record();
            r->exec.store( 0, std::memory_order_relaxed );
            r->arg = int64_t( rng.below( 5 ));
            r->result = -1;
            bool batch = ( x & 1 ) != 0;
            if ( batch ) { g_batch.fetch_add( 1, std::memory_order_relaxed ); k.batch_combine( unsigned( rng.chance( 1, 4 ) ? op_read : op_add ), r, *this ); }
            else k.combine( unsigned( rng.chance( 1, 4 ) ? op_read : op_add ), r, *this );
            // the requester observes the response only after execution
            if ( !r->is_done())
                violation( "C23", "response-before-done:" + g_variant, "combine() returned although the publication record is not marked done" );
            int e = r->exec.load( std::memory_order_acquire );
            if ( e != 1 )
                violation( "C23", e == 0 ? "response-without-execution:" + g_variant : "request-executed-twice:" + g_variant,
                           "combine() returned and the request had been executed " + std::to_string( e ) + " time(s)" );
            if ( r->result < 0 )
                violation( "C23", "response-without-result:" + g_variant, "combine() returned but the response field was not written" );
            k.release_record( r );
        }
    };

    template <class Lock, class Wait>
    struct fc_tr: fc::traits { typedef Lock lock_type; typedef Wait wait_strategy; typedef fc::stat<> stat; };

    template <class Traits>
    void run_variant( std::string const& name, unsigned cf, unsigned pc )
    {
        if ( !args().want( name )) return;
        set_variant( name );
        g_variant = name;
        PropStats& ps = prop( "C23" );
        uint64_t episodes = args().n( 60, 1500 );
        Rng mrng( mix64( args().seed ) ^ std::hash<std::string>()( name ));
        for ( uint64_t ep = 0; ep < episodes && violation_total() < 5; ++ep ) {
            FcBox<Traits> box( cf, pc );
            unsigned nlong = mrng.range( 1, 3 );
            uint64_t long_ops = mrng.range( 300, 1500 );
            unsigned churn_total = mrng.range( 5, 40 );
            cdsv_rt_configure( mix64( args().seed + ep ) ^ std::hash<std::string>()( name ), mrng.chance( 1, 2 ) ? 0 : mrng.range( 1, 7 ), mrng.range( 0, 2 ), long_ops * 30 );
            std::atomic<bool> stop{ false };
            std::atomic<uint64_t> issued{ 0 };
            std::vector<std::thread> longs;
            for ( unsigned t = 0; t < nlong; ++t )
                longs.emplace_back( [&, t]() {
                    cds::threading::Manager::attachThread();
                    cdsv_rt_thread_begin( t );
                    Rng rng( mix64( args().seed * 131 + ep * 17 + t ));
                    for ( uint64_t i = 0; i < long_ops; ++i ) { box.request( rng ); issued.fetch_add( 1, std::memory_order_relaxed ); }
                    cdsv_rt_thread_end();
                    cds::threading::Manager::detachThread();
                } );
            // churn: short-lived requester threads (their publication records are marked removed at thread exit and freed by compact_list)
            for ( unsigned c = 0; c < churn_total; ++c ) {
                unsigned k = mrng.range( 1, 3 );
                std::vector<std::thread> shorts;
                for ( unsigned j = 0; j < k; ++j )
                    shorts.emplace_back( [&, c, j]() {
                        cds::threading::Manager::attachThread();
                        cdsv_rt_thread_begin( 8 + j );
                        Rng rng( mix64( args().seed * 977 + ep * 31 + c * 7 + j ));
                        unsigned n = rng.range( 1, 4 );
                        for ( unsigned i = 0; i < n; ++i ) { box.request( rng ); issued.fetch_add( 1, std::memory_order_relaxed ); }
                        cdsv_rt_thread_end();
                        cds::threading::Manager::detachThread();
                    } );
                for ( auto& t : shorts ) t.join();
                g_threads.fetch_add( k, std::memory_order_relaxed );
            }
            for ( auto& t : longs ) t.join();
            g_threads.fetch_add( nlong, std::memory_order_relaxed );
            // conservation: every request executed exactly once
            auto const& st = box.k.statistics();
            ps.evaluations.fetch_add( 1 );
            ps.operations.fetch_add( issued.load());
            uint64_t compacts = st.m_nCompactPublicationList.get(), deleted = st.m_nPubRecordDeleted.get(), p2c = st.m_nPassiveToCombiner.get();
            ps.add_mech( "fc.onCombining", st.m_nCombiningCount.get()); ps.add_mech( "fc.onCompactPublicationList", compacts );
            ps.add_mech( "fc.onDeactivatePubRecord", st.m_nDeactivatePubRecord.get()); ps.add_mech( "fc.onDeletePubRecord", deleted );
            ps.add_mech( "fc.onPassiveToCombiner", p2c ); ps.add_mech( "fc.onPassiveWait", st.m_nPassiveWaitCall.get());
            ps.add_mech( "fc.onPubRecordCreated", st.m_nPubRecordCreated.get()); ps.add_mech( "fc.onInvokeExclusive", st.m_nInvokeExclusive.get());
            bool nontrivial = compacts > 0 && deleted > 0;
            if ( nontrivial ) {
                ps.nontrivial.fetch_add( 1 );
                auto lg = []( uint64_t v ) { unsigned l = 0; while ( v >>= 1 ) ++l; return uint64_t( l ); };
                ps.add_fp( mix64( std::hash<std::string>()( name )) ^ ( lg( compacts ) << 8 ) ^ ( lg( deleted ) << 16 ) ^ ( lg( p2c + 1 ) << 24 ) ^ ( uint64_t( nlong ) << 32 ) ^ ( lg( issued.load()) << 40 ));
            }
            if ( ps.need_sample( 4 ))
                ps.add_sample( "{\"variant\":" + jstr( name ) + ",\"episode\":" + std::to_string( ep ) + ",\"long_lived_threads\":" + std::to_string( nlong ) + ",\"short_lived_threads\":" + std::to_string( churn_total )
                               + ",\"requests\":" + std::to_string( issued.load()) + ",\"executed\":" + std::to_string( box.applied.load()) + ",\"compactions\":" + std::to_string( compacts )
                               + ",\"records_deleted\":" + std::to_string( deleted ) + ",\"passive_to_combiner\":" + std::to_string( p2c ) + "}" );
        }
        ps.add_variant( name, episodes );
    }
}

int main( int argc, char** argv )
{
    parse_args( argc, argv );
    limit_memory_gb( 8 );
    prop( "C23" ).rule = "one evaluation = one episode on a fresh kernel: 1-3 long-lived requesters plus 5-40 waves of short-lived threads (1-4 requests each, then thread exit) issue combine / batch_combine / invoke_exclusive requests "
                         "with delays injected before every kernel atomic operation; monitors: single-combiner occupancy counter + plain variable (TSan), per-request execution counter 0->1, response present and record done on return; "
                         "ASan watches every access to publication records freed by compact_list; non-trivial = the publication list was compacted and records of exited threads were deleted during the episode; "
                         "distinct = (variant, log2 buckets of compactions / deleted records / passive-to-combiner transitions / requests, number of long-lived threads)";
    LibInit lib;
    {
        SmrSetup smr( 4, 8 );
        typedef cds::sync::spin Spin;
        run_variant< fc_tr<Spin, fc::wait_strategy::backoff<>> >( "kernel<spin,backoff,compact1,pass1>", 1, 1 );
        run_variant< fc_tr<Spin, fc::wait_strategy::empty> >( "kernel<spin,empty,compact1,pass2>", 1, 2 );
        run_variant< fc_tr<std::mutex, fc::wait_strategy::backoff<>> >( "kernel<mutex,backoff,compact2,pass1>", 2, 1 );
        run_variant< fc_tr<Spin, fc::wait_strategy::single_mutex_single_condvar<>> >( "kernel<spin,ss,compact1,pass1>", 1, 1 );
        run_variant< fc_tr<Spin, fc::wait_strategy::backoff<>> >( "kernel<spin,backoff,compact1024,pass8>", 1024, 8 );
        // multi-condvar strategies: wakeup_any() walks the publication list without the combiner lock (known finding F6b): last, in processes of their own
        run_variant< fc_tr<Spin, fc::wait_strategy::single_mutex_multi_condvar<>> >( "kernel<spin,sm,compact1,pass1>+wakeup_any", 1, 1 );
        run_variant< fc_tr<Spin, fc::wait_strategy::multi_mutex_multi_condvar<>> >( "kernel<spin,mm,compact2,pass1>+wakeup_any", 2, 1 );
    }
    prop( "C23" ).add_extra( "requests", g_requests.load()); prop( "C23" ).add_extra( "batch_requests", g_batch.load());
    prop( "C23" ).add_extra( "invoke_exclusive_calls", g_excl.load()); prop( "C23" ).add_extra( "threads_created_and_exited", g_threads.load());
    prop( "C23" ).add_extra( "requests_served_inside_fc_process", g_in_process.load());
    return finish( "fc_kernel" );
}
