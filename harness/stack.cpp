// C09: stacks (value-copying forms) are linearizable LIFO stacks, with or without elimination.
#include <cdsv/seqdrv.h>
#include <cdsv/smr.h>
#include <cds/container/treiber_stack.h>
#include <cds/container/fcstack.h>
#include <cds/sync/spinlock.h>
#include <mutex>
#include <vector>
#include <list>
#include <deque>
#include <stack>

namespace {
    using namespace cdsv;
    namespace cc = cds::container;

    struct Val {
        int64_t uid = 0;
        uint64_t pay = 0;
        Val() {}
        explicit Val( int64_t u ) : uid( u ), pay( mix64( uint64_t( u ))) {}
        Val( Val const& o ) { payload_copy( reinterpret_cast<uint64_t*>( this ), reinterpret_cast<uint64_t const*>( &o ), 2 ); }
        Val& operator=( Val const& o ) { payload_copy( reinterpret_cast<uint64_t*>( this ), reinterpret_cast<uint64_t const*>( &o ), 2 ); return *this; }
        bool good() const { return pay == mix64( uint64_t( uid )); }
    };

    template <class S, class Mech, class AttachPolicy, bool Dyn = false>
    struct StackAdapter: AttachPolicy {
        std::unique_ptr<S> s;
        StackAdapter() { make( std::integral_constant<bool, Dyn>()); }
        void make( std::false_type ) { s.reset( new S ); }
        void make( std::true_type ) { s.reset( new S( 2 )); }     // dynamic collision buffer of 2 slots
        int64_t capacity() { return -1; }
        int64_t exec( int op, int64_t uid, int64_t, int64_t& )
        {
            switch ( op ) {
            case S_PUSH_BACK: if ( uid & 1 ) { Val t( uid ); return s->push( t ) ? 1 : 0; } return s->push( Val( uid )) ? 1 : 0;   // copy and move overloads
            case S_POP_BACK: {
                Val v;
                if ( !s->pop( v )) return -1;
                if ( !v.good()) return ( int64_t( 1 ) << 62 ) | ( v.uid & 0xffffff );
                return v.uid;
            }
            case S_EMPTY: return s->empty() ? 1 : 0;
            case S_CLEAR: s->clear(); return 0;
            }
            return -9;
        }
        void mechanisms( PropStats& ps ) { Mech::get( *s, ps ); }
    };

    struct MechTreiber { template <class S> static void get( S& s, PropStats& ps ) {
        auto const& st = s.statistics();
        ps.add_mech( "treiber.onPushRace", st.m_PushRace.get()); ps.add_mech( "treiber.onPopRace", st.m_PopRace.get());
        ps.add_mech( "treiber.onActiveCollision", st.m_ActivePushCollision.get() + st.m_ActivePopCollision.get());
        ps.add_mech( "treiber.onPassiveCollision", st.m_PassivePushCollision.get() + st.m_PassivePopCollision.get());
        ps.add_mech( "treiber.onEliminationFailed", st.m_EliminationFailed.get());
    }};
    struct MechFC { template <class S> static void get( S& s, PropStats& ps ) {
        auto const& st = s.statistics();
        ps.add_mech( "fc.onCombining", st.m_nCombiningCount.get()); ps.add_mech( "fc.onCollide", st.m_nCollided.get());
        ps.add_mech( "fc.onPassiveToCombiner", st.m_nPassiveToCombiner.get());
    }};

    template <class Adapter>
    void run_stack( std::string const& name, bool has_empty, unsigned tmin, unsigned tmax )
    {
        if ( !args().want( name )) return;
        Rng vr( args().seed ^ std::hash<std::string>()( name ));
        {
            SeqPlan p; p.prop = "C09"; p.variant = name + "/rounds";
            p.threads = vr.range( tmin, tmax );
            p.min_ops = 1; p.max_ops = p.threads > 4 ? 2 : 4;
            p.rounds = args().n( 6000, 150000 );
            p.weight[S_PUSH_BACK] = 10; p.weight[S_POP_BACK] = 10; p.weight[S_EMPTY] = has_empty ? 2 : 0; p.weight[S_CLEAR] = has_empty ? 1 : 0;
            p.prefill_max = 2; p.drain_op = S_POP_BACK;
            SeqDriver<Adapter, SeqModel> d( p );
            d.run();
        }
        {
            SeqPlan p; p.prop = "C09"; p.variant = name + "/segments";
            p.threads = vr.range( tmin, std::min( tmax, 4u ));
            p.min_ops = 8; p.max_ops = 30;
            p.rounds = args().n( 600, 15000 );
            p.weight[S_PUSH_BACK] = 10; p.weight[S_POP_BACK] = 10; p.weight[S_EMPTY] = has_empty ? 1 : 0;
            p.drain_op = S_POP_BACK;
            SeqDriver<Adapter, SeqModel> d( p );
            d.run();
        }
    }

    typedef cds::atomicity::item_counter IC;

    template <bool Elim, class Buffer, class ElimBackoff, class BackOff, class MM>
    struct tr_traits: cc::treiber_stack::traits {
        typedef cc::treiber_stack::stat<> stat;
        static constexpr const bool enable_elimination = Elim;
        typedef Buffer buffer;
        typedef ElimBackoff elimination_backoff;
        typedef BackOff back_off;
        typedef MM memory_model;
        typedef IC item_counter;
    };
    template <bool Elim, class Lock, class Wait>
    struct fc_traits: cc::fcstack::traits {
        typedef cc::fcstack::stat<> stat;
        static constexpr const bool enable_elimination = Elim;
        typedef Lock lock_type;
        typedef Wait wait_strategy;
    };
}

// ---------------------------------------------------------------- intrusive TreiberStack: harness-owned items, released after the stack
namespace {
    namespace ci = cds::intrusive;
    template <class GC> struct SItem: ci::treiber_stack::node<GC> { Val v; };
    inline std::vector<std::shared_ptr<void>>& graveyard() { static std::vector<std::shared_ptr<void>> g; return g; }
    template <class GC, bool Elim, class Buffer, class ElimBackoff>
    struct itr_traits: ci::treiber_stack::traits {
        typedef ci::treiber_stack::base_hook< cds::opt::gc<GC> > hook;
        typedef ci::treiber_stack::stat<> stat;
        static constexpr const bool enable_elimination = Elim;
        typedef Buffer buffer;
        typedef ElimBackoff elimination_backoff;
        typedef cds::atomicity::item_counter item_counter;
    };
    template <class S, class Item>
    struct IntrStackAdapter: Attach {
        std::unique_ptr<S> s;
        // clear() retires the nodes and the retired-node callback (clear_links + disposer) writes into them whenever the SMR gets round to it:
        // the items must outlive the SMR singleton, so they go to a graveyard that main() empties after ~HP/~DHP
        std::shared_ptr<std::deque<Item>> items;
        std::mutex items_lock;
        IntrStackAdapter() : s( new S ), items( new std::deque<Item> ) {}
        ~IntrStackAdapter() { s->clear(); s.reset(); graveyard().push_back( items ); }
        Item* alloc() { std::lock_guard<std::mutex> g( items_lock ); items->emplace_back(); return &items->back(); }
        int64_t capacity() { return -1; }
        int64_t exec( int op, int64_t uid, int64_t, int64_t& )
        {
            switch ( op ) {
            case S_PUSH_BACK: { Item* it = alloc(); it->v = Val( uid ); return s->push( *it ) ? 1 : 0; }
            case S_POP_BACK: {
                Item* p = s->pop();
                if ( !p ) return -1;
                return p->v.good() ? p->v.uid : (( int64_t( 1 ) << 62 ) | ( p->v.uid & 0xffffff ));
            }
            case S_EMPTY: return s->empty() ? 1 : 0;
            case S_CLEAR: s->clear(); return 0;
            }
            return -9;
        }
        void mechanisms( PropStats& ps ) { MechTreiber::get( *s, ps ); }
    };
}

int main( int argc, char** argv )
{
    parse_args( argc, argv );
    limit_memory_gb( 8 );
    prop( "C09" ).rule = "one evaluation = one round/segment history (2-8 threads, seeded programs) of one stack variant incl. the sequential drain, checked by WGL against the LIFO model; "
                         "non-trivial = >=1 pair of operations of different threads overlaps; distinct = fingerprint of (op, normalised ids, results, interleaving order of all invocation/response events)";
    LibInit lib;
    {
        SmrSetup smr( 4, 12 );
        typedef cds::gc::HP HP; typedef cds::gc::DHP DHP;
        using cds::opt::v::initialized_static_buffer; using cds::opt::v::initialized_dynamic_buffer;
        typedef cds::opt::v::relaxed_ordering Rlx; typedef cds::opt::v::sequential_consistent Sc;
        typedef cds::backoff::Default BoD; typedef cds::backoff::empty BoE; typedef cds::backoff::pause BoP;
        typedef cds::backoff::delay<> ElD;
        typedef cds::backoff::delay_of<2> ElShort;
        namespace fc = cds::algo::flat_combining;

        run_stack< StackAdapter< cc::TreiberStack<HP, Val, tr_traits<false, initialized_static_buffer<int, 4>, ElD, BoE, Rlx>>, MechTreiber, Attach >>( "TreiberStack<HP,noelim,relaxed>", true, 2, 4 );
        run_stack< StackAdapter< cc::TreiberStack<DHP, Val, tr_traits<false, initialized_static_buffer<int, 4>, ElD, BoD, Sc>>, MechTreiber, Attach >>( "TreiberStack<DHP,noelim,seqcst,backoff>", true, 2, 4 );
        run_stack< StackAdapter< cc::TreiberStack<HP, Val, tr_traits<true, initialized_static_buffer<int, 1>, ElShort, BoE, Rlx>>, MechTreiber, Attach >>( "TreiberStack<HP,elim1,short>", true, 4, 8 );
        run_stack< StackAdapter< cc::TreiberStack<HP, Val, tr_traits<true, initialized_static_buffer<int, 2>, ElD, BoP, Sc>>, MechTreiber, Attach >>( "TreiberStack<HP,elim2,default,seqcst>", true, 4, 8 );
        run_stack< StackAdapter< cc::TreiberStack<DHP, Val, tr_traits<true, initialized_static_buffer<int, 4>, ElShort, BoE, Rlx>>, MechTreiber, Attach >>( "TreiberStack<DHP,elim4,short>", true, 4, 8 );
        run_stack< StackAdapter< cc::TreiberStack<DHP, Val, tr_traits<true, initialized_dynamic_buffer<int>, ElShort, BoD, Rlx>>, MechTreiber, Attach, true >>( "TreiberStack<DHP,elimdyn2,short,backoff>", true, 4, 8 );
        run_stack< StackAdapter< cc::TreiberStack<HP, Val, tr_traits<true, initialized_dynamic_buffer<int>, ElD, BoE, Rlx>>, MechTreiber, Attach, true >>( "TreiberStack<HP,elimdyn2,default>", true, 3, 6 );

        {
            typedef SItem<HP> I1; typedef SItem<DHP> I2;
            run_stack< IntrStackAdapter< ci::TreiberStack<HP, I1, itr_traits<HP, false, initialized_static_buffer<int, 4>, ElD>>, I1 > >( "intrusive::TreiberStack<HP,noelim>", true, 2, 4 );
            run_stack< IntrStackAdapter< ci::TreiberStack<DHP, I2, itr_traits<DHP, true, initialized_static_buffer<int, 2>, ElShort>>, I2 > >( "intrusive::TreiberStack<DHP,elim2,short>", true, 4, 8 );
            run_stack< IntrStackAdapter< ci::TreiberStack<HP, I1, itr_traits<HP, true, initialized_static_buffer<int, 1>, ElShort>>, I1 > >( "intrusive::TreiberStack<HP,elim1,short>", true, 4, 8 );
        }
        run_stack< StackAdapter< cc::FCStack<Val, std::stack<Val>, fc_traits<false, cds::sync::spin, fc::wait_strategy::backoff<>>>, MechFC, Attach >>( "FCStack<noelim,deque,backoff>", true, 2, 4 );
        run_stack< StackAdapter< cc::FCStack<Val, std::stack<Val, std::vector<Val>>, fc_traits<true, cds::sync::spin, fc::wait_strategy::backoff<>>>, MechFC, Attach >>( "FCStack<elim,vector,backoff>", true, 3, 6 );
        run_stack< StackAdapter< cc::FCStack<Val, std::stack<Val, std::list<Val>>, fc_traits<true, std::mutex, fc::wait_strategy::empty>>, MechFC, Attach >>( "FCStack<elim,list,mutex,empty>", true, 2, 4 );
        run_stack< StackAdapter< cc::FCStack<Val, std::stack<Val>, fc_traits<true, cds::sync::spin, fc::wait_strategy::single_mutex_single_condvar<>>>, MechFC, Attach >>( "FCStack<elim,ss>", true, 2, 4 );
        run_stack< StackAdapter< cc::FCStack<Val, std::stack<Val>, fc_traits<false, cds::sync::spin, fc::wait_strategy::single_mutex_multi_condvar<>>>, MechFC, Attach >>( "FCStack<noelim,sm>", true, 2, 4 );
        run_stack< StackAdapter< cc::FCStack<Val, std::stack<Val>, fc_traits<true, cds::sync::spin, fc::wait_strategy::multi_mutex_multi_condvar<>>>, MechFC, Attach >>( "FCStack<elim,mm>", true, 2, 4 );
    }
    graveyard().clear();     // the SMR singletons are gone: nothing refers to the intrusive items any more
    return finish( "stack" );
}
