// C16 (+C18, +C20 sequential mode): lock-based hash containers - CuckooSet (striping/refinable, list and vector probe sets, ordered/unordered,
// stored hashes) and StripedSet (striping/refinable, std and boost bucket adapters, resizing policies) with tiny capacities and
// thresholds so that resizes interleave with every operation.
#include <cstring>
#include <cdsv/setadapt.h>
#include <cds/container/cuckoo_set.h>
#include <cds/container/striped_set/std_list.h>
#include <cds/container/striped_set/std_vector.h>
#include <cds/container/striped_set/std_set.h>
#include <cds/container/striped_set/std_hash_set.h>
#include <cds/container/striped_set/boost_list.h>
#include <cds/container/striped_set/boost_slist.h>
#include <cds/container/striped_set/boost_vector.h>
#include <cds/container/striped_set/boost_stable_vector.h>
#include <cds/container/striped_set/boost_set.h>
#include <cds/container/striped_set/boost_flat_set.h>
#include <cds/container/striped_set/boost_unordered_set.h>
#include <cds/container/striped_set.h>
#include <cds/sync/spinlock.h>
#include <mutex>

namespace {
    using namespace cdsv;
    namespace cc = cds::container;

    struct H1 { size_t operator()( int k ) const { return size_t( k ); } size_t operator()( Item const& i ) const { return size_t( i.key ); } };
    struct H2 { size_t operator()( int k ) const { return ( size_t( k ) * 0x9E3779B1u + 7 ) >> 3; } size_t operator()( Item const& i ) const { return ( *this )( i.key ); } };
    struct HMod2 { size_t operator()( int k ) const { return size_t( k & 1 ); } size_t operator()( Item const& i ) const { return size_t( i.key & 1 ); } };
    struct HConst { size_t operator()( int ) const { return 3; } size_t operator()( Item const& ) const { return 3; } };

    // ---------------------------------------------------------------- CuckooSet
    template <class Probeset, bool Ordered, bool StoreHash, class MutexPolicy>
    struct ck_tr: cc::cuckoo::traits {
        typedef cds::opt::hash_tuple<H1, H2> hash;
        typedef ItemLess less;
        typedef Probeset probeset_type;
        static bool const store_hash = StoreHash;
        typedef MutexPolicy mutex_policy;
        typedef cc::cuckoo::stat stat;
    };
    template <class Probeset, bool StoreHash, class MutexPolicy>
    struct ck_tr<Probeset, false, StoreHash, MutexPolicy>: cc::cuckoo::traits {
        typedef cds::opt::hash_tuple<H1, H2> hash;
        typedef ItemEq equal_to;
        typedef Probeset probeset_type;
        static bool const store_hash = StoreHash;
        typedef MutexPolicy mutex_policy;
        typedef cc::cuckoo::stat stat;
    };
    template <class S, unsigned Init, unsigned PS, unsigned Thr> struct MkCuckoo: MakeBase {
        static S* make() { return new S( Init, PS, Thr ); }
        static void mechanisms( S& s, PropStats& ps )
        {
            auto const& st = s.statistics();
            ps.add_mech( "cuckoo.onResizeCall", st.m_nResizeCallCount.get()); ps.add_mech( "cuckoo.onFalseResizeCall", st.m_nFalseResizeCount.get());
            ps.add_mech( "cuckoo.onRelocateCall", st.m_nRelocateCallCount.get()); ps.add_mech( "cuckoo.onRelocateRound", st.m_nRelocateRoundCount.get());
            ps.add_mech( "cuckoo.onInsertResize", st.m_nInsertResizeCount.get()); ps.add_mech( "cuckoo.onInsertRelocate", st.m_nInsertRelocateCount.get());
        }
    };
    static const unsigned M_CUCKOO = M_BASIC;

    // ---------------------------------------------------------------- StripedSet
    template <class S, unsigned Cap> struct MkStriped: MakeBase { static S* make() { return new S( Cap ); } };
    template <class S, unsigned Cap, unsigned Arg> struct MkStripedRt: MakeBase {
        static S* make() { return new S( Cap, typename S::resizing_policy( Arg )); }
    };
    static const unsigned M_STRIPED = M_BASIC;

    template <class S, class Mk>
    void go( const char* name, unsigned sup = M_BASIC ) { (void) sup; run_set_variant< SetAdapter<S, Mk, M_BASIC, UPD_STD, void, false> >( "C16", name, false, true, 0, 1.0, 12, 40 ); }   // up to 40 keys so that the tables really grow
}

int main( int argc, char** argv )
{
    parse_args( argc, argv );
    limit_memory_gb( 8 );
    prop( "C16" ).rule = "one evaluation = one round/segment (2-4 threads, seeded programs over 2-8 keys, alphabet insert/insert(f)/emplace/update/update(no-insert)/erase/erase(f)/contains/find(f)) of one lock-based hash set variant "
                         "with tiny initial capacity, probe-set size and resize thresholds (re-created every 25-400 rounds so that it grows again and again); every key's sub-history incl. the pinning lookups is checked by WGL against the "
                         "absent|present(id) register model; non-trivial = >=1 pair of operations of different threads overlaps on one key; distinct = fingerprint of the per-key structures of the round";
    prop( "C18" ).rule = "one evaluation = one quiescent point after a checked round: size()/empty() equal the number of keys that lookups report present (these containers offer no iteration)";
    prop( "C20" ).rule = "one evaluation = one single-threaded sequence of 1-200 API calls (random alphabet, 3 keys or 2000 keys) followed by lookups of every key; results must match the sequential set model exactly";
    LibInit lib;
    {
        SmrSetup smr( 4, 8 );
        using cc::cuckoo::list; using cc::cuckoo::vector;
        typedef cc::cuckoo::striping<> StripingRM;                                     // std::recursive_mutex
        typedef cc::cuckoo::striping<cds::sync::reentrant_spin> StripingSpin;
        typedef cc::cuckoo::refinable<> RefinableRM;
        typedef cc::cuckoo::refinable<cds::sync::reentrant_spin> RefinableSpin;

        { typedef cc::CuckooSet<Item, ck_tr<list, true, false, StripingRM>> S; go<S, MkCuckoo<S, 4, 4, 0>>( "CuckooSet<striping,list,ordered,init4,ps4>" ); }
        { typedef cc::CuckooSet<Item, ck_tr<list, false, true, StripingSpin>> S; go<S, MkCuckoo<S, 4, 3, 2>>( "CuckooSet<striping-spin,list,unordered,storehash,init4,ps3>" ); }
        { typedef cc::CuckooSet<Item, ck_tr<vector<4>, true, true, RefinableRM>> S; go<S, MkCuckoo<S, 4, 4, 0>>( "CuckooSet<refinable,vector4,ordered,storehash>" ); }
        { typedef cc::CuckooSet<Item, ck_tr<vector<2>, false, false, RefinableSpin>> S; go<S, MkCuckoo<S, 4, 2, 0>>( "CuckooSet<refinable-spin,vector2,unordered>" ); }
        { typedef cc::CuckooSet<Item, ck_tr<list, true, false, RefinableRM>> S; go<S, MkCuckoo<S, 4, 2, 1>>( "CuckooSet<refinable,list,ordered,init4,ps2,thr1>" ); }
        { typedef cc::CuckooSet<Item, ck_tr<vector<3>, true, false, StripingRM>> S; go<S, MkCuckoo<S, 8, 3, 2>>( "CuckooSet<striping,vector3,ordered,init8>" ); }

        namespace ss = cc::striped_set;
        using cds::opt::hash; using cds::opt::less; using cds::opt::mutex_policy; using cds::opt::resizing_policy; using cds::opt::equal_to;
        typedef ss::striping<> Str; typedef ss::refinable<> Ref;
        typedef ss::load_factor_resizing<1> LF1; typedef ss::load_factor_resizing<2> LF2; typedef ss::load_factor_resizing<0> LFrt;
        typedef ss::single_bucket_size_threshold<1> SB1; typedef ss::single_bucket_size_threshold<2> SB2; typedef ss::single_bucket_size_threshold<0> SBrt;

        { typedef cc::StripedSet<std::list<Item>, hash<H1>, less<ItemLess>, mutex_policy<Str>, resizing_policy<LF1>> S; go<S, MkStriped<S, 1>>( "StripedSet<std::list,striping,loadfactor1>" ); }
        // single_bucket_size_threshold is only combined with spreading hashes: with a colliding hash the policy asks for a resize after every
        // insert and the table doubles without bound (memory exhaustion, not a property of C16)
        { typedef cc::StripedSet<std::vector<Item>, hash<H2>, less<ItemLess>, mutex_policy<Ref>, resizing_policy<SB2>> S; go<S, MkStriped<S, 1>>( "StripedSet<std::vector,refinable,bucket2>" ); }
        { typedef cc::StripedSet<std::set<Item, ItemLess>, hash<H1>, mutex_policy<Ref>, resizing_policy<LF2>> S; go<S, MkStriped<S, 2>>( "StripedSet<std::set,refinable,loadfactor2>" ); }
        { typedef cc::StripedSet<std::unordered_set<Item, H1, ItemEq>, hash<H2>, mutex_policy<Str>, resizing_policy<SB1>> S; go<S, MkStriped<S, 1>>( "StripedSet<std::unordered_set,striping,bucket1>" ); }
        { typedef cc::StripedSet<boost::container::list<Item>, hash<HConst>, less<ItemLess>, mutex_policy<Ref>, resizing_policy<LFrt>> S; go<S, MkStripedRt<S, 1, 1>>( "StripedSet<boost::list,refinable,loadfactor-rt1,const>" ); }
        { typedef cc::StripedSet<boost::container::slist<Item>, hash<H1>, less<ItemLess>, mutex_policy<Str>, resizing_policy<SBrt>> S; go<S, MkStripedRt<S, 2, 1>>( "StripedSet<boost::slist,striping,bucket-rt1>" ); }
        { typedef cc::StripedSet<boost::container::vector<Item>, hash<H1>, less<ItemLess>, mutex_policy<Ref>, resizing_policy<LF1>> S; go<S, MkStriped<S, 1>>( "StripedSet<boost::vector,refinable,loadfactor1>" ); }
        { typedef cc::StripedSet<boost::container::stable_vector<Item>, hash<HMod2>, less<ItemLess>, mutex_policy<Str>, resizing_policy<LF1>> S; go<S, MkStriped<S, 1>>( "StripedSet<boost::stable_vector,striping,loadfactor1,mod2>" ); }
        { typedef cc::StripedSet<boost::container::set<Item, ItemLess>, hash<H1>, mutex_policy<Ref>, resizing_policy<SB1>> S; go<S, MkStriped<S, 1>>( "StripedSet<boost::set,refinable,bucket1>" ); }
        { typedef cc::StripedSet<boost::container::flat_set<Item, ItemLess>, hash<H2>, mutex_policy<Str>, resizing_policy<LF1>> S; go<S, MkStriped<S, 1>>( "StripedSet<boost::flat_set,striping,loadfactor1>" ); }
        { typedef cc::StripedSet<boost::unordered_set<Item, H1, ItemEq>, hash<H1>, mutex_policy<Ref>, resizing_policy<LF2>> S; go<S, MkStriped<S, 1>>( "StripedSet<boost::unordered_set,refinable,loadfactor2>" ); }
    }
    return finish( "set_lock" );
}
