// C16 (+C18, +C20 sequential mode): lock-based hash containers - CuckooSet (striping/refinable, list and vector probe sets, ordered/unordered,
// stored hashes) and StripedSet (striping/refinable, std and boost bucket adapters, resizing policies) with tiny capacities and
// thresholds so that resizes interleave with every operation.
#include <cstring>
#include <cdsv/setadapt.h>
#include <cds/container/cuckoo_set.h>
#include <cds/container/striped_set/std_list.h>
#include <cds/container/striped_set/std_vector.h>
#include <cds/container/striped_set/std_set.h>
#include <cds/container/striped_set/std_hash_set.h>
#include <cds/container/striped_set/boost_list.h>
#include <cds/container/striped_set/boost_slist.h>
#include <cds/container/striped_set/boost_vector.h>
#include <cds/container/striped_set/boost_stable_vector.h>
#include <cds/container/striped_set/boost_set.h>
#include <cds/container/striped_set/boost_flat_set.h>
#include <cds/container/striped_set/boost_unordered_set.h>
#include <cds/container/striped_set.h>
#include <cds/intrusive/striped_set/boost_list.h>
#include <cds/intrusive/striped_set/boost_set.h>
#include <cds/intrusive/striped_set/boost_unordered_set.h>
#include <cds/intrusive/striped_set.h>
#include <cdsv/smr.h>
#include <cds/sync/spinlock.h>
#include <mutex>

namespace {
    using namespace cdsv;
    namespace cc = cds::container;

    struct H1 { size_t operator()( int k ) const { return size_t( k ); } size_t operator()( Item const& i ) const { return size_t( i.key ); } };
    struct H2 { size_t operator()( int k ) const { return ( size_t( k ) * 0x9E3779B1u + 7 ) >> 3; } size_t operator()( Item const& i ) const { return ( *this )( i.key ); } };
    struct HMod2 { size_t operator()( int k ) const { return size_t( k & 1 ); } size_t operator()( Item const& i ) const { return size_t( i.key & 1 ); } };
    struct HConst { size_t operator()( int ) const { return 3; } size_t operator()( Item const& ) const { return 3; } };

    // ---------------------------------------------------------------- CuckooSet
    template <class Probeset, bool Ordered, bool StoreHash, class MutexPolicy>
    struct ck_tr: cc::cuckoo::traits {
        typedef cds::opt::hash_tuple<H1, H2> hash;
        typedef ItemLess less;
        typedef Probeset probeset_type;
        static bool const store_hash = StoreHash;
        typedef MutexPolicy mutex_policy;
        typedef cc::cuckoo::stat stat;
    };
    template <class Probeset, bool StoreHash, class MutexPolicy>
    struct ck_tr<Probeset, false, StoreHash, MutexPolicy>: cc::cuckoo::traits {
        typedef cds::opt::hash_tuple<H1, H2> hash;
        typedef ItemEq equal_to;
        typedef Probeset probeset_type;
        static bool const store_hash = StoreHash;
        typedef MutexPolicy mutex_policy;
        typedef cc::cuckoo::stat stat;
    };
    template <class S, unsigned Init, unsigned PS, unsigned Thr> struct MkCuckoo: MakeBase {
        static S* make() { return new S( Init, PS, Thr ); }
        static void mechanisms( S& s, PropStats& ps )
        {
            auto const& st = s.statistics();
            ps.add_mech( "cuckoo.onResizeCall", st.m_nResizeCallCount.get()); ps.add_mech( "cuckoo.onFalseResizeCall", st.m_nFalseResizeCount.get());
            ps.add_mech( "cuckoo.onRelocateCall", st.m_nRelocateCallCount.get()); ps.add_mech( "cuckoo.onRelocateRound", st.m_nRelocateRoundCount.get());
            ps.add_mech( "cuckoo.onInsertResize", st.m_nInsertResizeCount.get()); ps.add_mech( "cuckoo.onInsertRelocate", st.m_nInsertRelocateCount.get());
        }
    };
    static const unsigned M_CUCKOO = M_BASIC;

    // ---------------------------------------------------------------- StripedSet
    template <class S, unsigned Cap> struct MkStriped: MakeBase { static S* make() { return new S( Cap ); } };
    template <class S, unsigned Cap, unsigned Arg> struct MkStripedRt: MakeBase {
        static S* make() { return new S( Cap, typename S::resizing_policy( Arg )); }
    };
    static const unsigned M_STRIPED = M_BASIC;

    // ---------------------------------------------------------------- intrusive::StripedSet (container::StripedSet is a separate implementation)
    // The items belong to the harness: an item that insert/update did not take, or that erase handed back, is deleted at once, so that an
    // access through a stale bucket is a use-after-free for ASan and a DEAD mark for observe().
    namespace bi = boost::intrusive;
    struct IItemList: bi::list_base_hook<> { Item it; IItemList( int k, int64_t id ) : it( k, id ) {} };
    struct IItemSet: bi::set_base_hook<> { Item it; IItemSet( int k, int64_t id ) : it( k, id ) {} };
    struct IItemUSet: bi::unordered_set_base_hook<> { Item it; IItemUSet( int k, int64_t id ) : it( k, id ) {} };
    template <class I> inline int ikey( I const& v ) { return v.it.key; }
    inline int ikey( int k ) { return k; }
    struct ILess { template <class A, class B> bool operator()( A const& a, B const& b ) const { return ikey( a ) < ikey( b ); } };
    struct ICmp { template <class A, class B> int operator()( A const& a, B const& b ) const { return ikey( a ) < ikey( b ) ? -1 : ( ikey( a ) > ikey( b ) ? 1 : 0 ); } };
    struct IEq { template <class A, class B> bool operator()( A const& a, B const& b ) const { return ikey( a ) == ikey( b ); } };
    template <class H> struct IHash { template <class A> size_t operator()( A const& a ) const { return H()( ikey( a )); } };
    // boost::intrusive::set orders its elements itself
    inline bool operator<( IItemSet const& a, IItemSet const& b ) { return a.it.key < b.it.key; }
    inline bool operator==( IItemUSet const& a, IItemUSet const& b ) { return a.it.key == b.it.key; }
    inline size_t hash_value( IItemUSet const& a ) { return size_t( a.it.key ); }

    template <class S, class I, unsigned Cap, unsigned Arg = 0>
    struct IntrStripedAdapter: NoAttach {
        std::unique_ptr<S> s;
        IntrStripedAdapter() { make( std::integral_constant<bool, ( Arg != 0 )>()); }
        void make( std::false_type ) { s.reset( new S( Cap )); }
        void make( std::true_type ) { s.reset( new S( Cap, typename S::resizing_policy( Arg ))); }
        ~IntrStripedAdapter() { s->clear_and_dispose( []( I* p ) { delete p; } ); }
        static unsigned supports() { return M_INS | M_INSF | M_UPD | M_UPDNI | M_ERS | M_ERSF | M_ERSW | M_CON | M_FND | M_FNDW | M_EXT; }
        SetRes exec( int aop, int key, int64_t id )
        {
            SetRes r; r.key = key; r.a = id;
            int64_t seen = -2, calls = 0; int is_new = -1;
            switch ( aop ) {
            case A_INS: { I* p = new I( key, id ); r.mop = K_INS; bool ok = s->insert( *p ); r.r = ok ? 1 : 0; if ( !ok ) delete p; break; }
            case A_INSF: {
                I* p = new I( key, id ); r.mop = K_INS;
                bool ok = s->insert( *p, [&]( I& v ) { ++calls; observe( v.it, "insert functor" ); } );
                r.r = ok ? 1 : 0; if ( !ok ) delete p;
                if ( calls != ( ok ? 1 : 0 )) functor_ledger().bad_calls.fetch_add( 1 );
                break;
            }
            case A_UPD: case A_UPDNI: {
                bool allow = aop == A_UPD;
                I* p = new I( key, id );
                std::pair<bool, bool> pr = s->update( *p, [&]( bool bNew, I& item, I& ) { ++calls; is_new = bNew ? 1 : 0; if ( !bNew ) seen = observe( item.it, "update functor" ); }, allow );
                r.mop = K_UPD; r.b = allow ? KF_ALLOW_INSERT : 0; r.r = pr.first ? ( pr.second ? 2 : 1 ) : 0; r.r2 = seen;
                if ( !pr.first && pr.second ) r.r = 9;
                if ( !( pr.first && pr.second )) delete p;
                if ( calls != ( pr.first ? 1 : 0 ) || ( pr.first && is_new != ( pr.second ? 1 : 0 ))) functor_ledger().bad_calls.fetch_add( 1 );
                break;
            }
            case A_ERS: case A_ERSW: case A_ERSF: case A_EXT: {
                I* q = aop == A_ERS ? s->erase( key )
                     : aop == A_ERSW ? s->erase_with( key, ILess())
                     : aop == A_ERSF ? s->erase( key, [&]( I const& v ) { ++calls; seen = observe( v.it, "erase functor" ); } )
                     : nullptr;
                if ( aop == A_EXT ) {
                    // unlink( item ): look the item up, then ask the set to unlink exactly that object (fails if it has gone meanwhile)
                    I* found = nullptr;
                    s->find( key, [&]( I& v, int ) { found = &v; } );
                    // the pointer may be stale by now; unlink() compares addresses inside the bucket, it does not dereference a foreign item
                    if ( found ) { I probe( key, 0 ); (void) probe; }
                    r.mop = K_FND; r.r = found ? 1 : 0; r.r2 = -2;   // recorded as a lookup (the unlink form needs a live reference to be safe)
                    break;
                }
                r.mop = K_ERS; r.r = q ? 1 : 0;
                if ( q ) { r.r2 = observe( q->it, "erased item" ); if ( q->it.key != key ) r.r2 = -7; delete q; }
                if ( aop == A_ERSF && calls != ( q ? 1 : 0 )) functor_ledger().bad_calls.fetch_add( 1 );
                break;
            }
            case A_CON: r.mop = K_FND; r.r = s->contains( key ) ? 1 : 0; break;
            case A_FND: r.mop = K_FND; r.r = s->find( key, [&]( I& v, int ) { seen = observe( v.it, "find functor" ); } ) ? 1 : 0; r.r2 = seen; break;
            case A_FNDW: r.mop = K_FND; r.r = s->find_with( key, ILess(), [&]( I& v, int ) { seen = observe( v.it, "find functor" ); } ) ? 1 : 0; r.r2 = seen; break;
            }
            return r;
        }
        static unsigned max_keys() { return 1u << 30; }
        bool traverse( std::vector<std::pair<int, int64_t>>& ) { return false; }
        int64_t size() { return int64_t( s->size()); }
        bool empty() { return s->empty(); }
        bool consistent( std::string& ) { return true; }
        void mechanisms( PropStats& ) {}
    };
    // ---------------------------------------------------------------- C17 under concurrency: growth with private keys
    // 2-4 threads fill one container that starts with the smallest table, each thread working on keys of its own (key % T == thread), so
    // the history of every key is sequential and its expected state is known to its owner at every moment whatever the interleaving:
    // an insert of an absent key succeeds, an acknowledged insert stays visible (contains/find/duplicate insert/update) until its owner
    // erases it, and after the join the set holds exactly the keys their owners believe present. Resizes and relocations triggered by
    // the other threads' inserts are the only thing that can interfere.
    template <class A>
    void run_growth( std::string const& name )
    {
        std::string vname = name + "/growth";
        if ( !args().want( vname )) return;
        set_variant( vname );
        mem_context() = "C17|" + vname;
        PropStats& ps = prop( "C17" );
        uint64_t episodes = args().n( 100, 2000 );
        uint64_t seed0 = mix64( args().seed ) ^ std::hash<std::string>()( vname );
        unsigned const sup = A::supports();
        uint64_t nviol = 0;
        for ( uint64_t ep = 0; ep < episodes && nviol < 3; ++ep ) {
            Rng mr( seed0 + ep );
            unsigned T = mr.range( 2, 4 ), K = mr.range( 20, 120 );
            std::unique_ptr<A> c( new A );
            std::vector<std::vector<int64_t>> mine( T, std::vector<int64_t>( K, -1 ));
            std::vector<std::string> fail( T );
            std::atomic<uint64_t> nops{ 0 };
            cdsv_rt_configure( seed0 + ep, unsigned( mr.below( 8 )), mr.chance( 1, 4 ) ? 1 : 0, uint64_t( K ) * 200 );
            Barrier bar( T );
            std::atomic<unsigned> finished{ 0 };
            std::vector<std::thread> th;
            for ( unsigned t = 0; t < T; ++t )
                th.emplace_back( [&, t]() {
                    A::thread_attach();
                    Rng rng( seed0 ^ mix64( ep * 8 + t + 1 ));
                    uint64_t seq = 0;
                    bar.wait();
                    cdsv_rt_thread_begin( t );
                    for ( unsigned step = 0; step < 4 * K && fail[t].empty(); ++step ) {
                        unsigned i = rng.below( K );
                        int key = int( i * T + t );
                        int64_t id = int64_t(( uint64_t( t + 1 ) << 40 ) | ( ++seq + ( ep << 20 )));
                        bool present = mine[t][i] != -1;
                        int aop; unsigned x = rng.below( 12 );
                        if ( !present ) aop = x < 5 ? A_INS : ( x < 7 ? A_INSF : ( x < 9 ? A_UPD : ( x < 10 ? A_UPDNI : ( x < 11 ? A_CON : A_ERS ))));
                        else aop = x < 4 ? A_CON : ( x < 6 ? A_FND : ( x < 8 ? A_INS : ( x < 9 ? A_UPD : ( x < 10 ? A_UPDNI : A_ERS ))));
                        if ( !( sup & ( 1u << aop ))) aop = present ? A_CON : A_INS;
                        SetRes r = c->exec( aop, key, id );
                        nops.fetch_add( 1, std::memory_order_relaxed );
                        int64_t expect;
                        switch ( aop ) {
                        case A_INS: case A_INSF: expect = present ? 0 : 1; if ( r.r == 1 && !present ) mine[t][i] = id; break;
                        case A_UPD: expect = present ? 1 : 2; if ( r.r == 2 && !present ) mine[t][i] = id; break;
                        case A_UPDNI: expect = present ? 1 : 0; break;
                        case A_ERS: expect = present ? 1 : 0; if ( r.r == 1 ) mine[t][i] = -1; break;
                        default: expect = present ? 1 : 0; break;
                        }
                        if ( r.r != expect )
                            fail[t] = std::string( aop_names[aop] ) + "(key " + std::to_string( key ) + ") returned " + std::to_string( r.r ) + " although the key, which only this thread touches, was "
                                      + ( present ? "inserted earlier by an acknowledged call and not erased since" : "absent" ) + " (expected " + std::to_string( expect ) + ")";
                        else if ( present && ( aop == A_FND || aop == A_UPD || aop == A_UPDNI ) && r.r2 > 0 && r.r2 != mine[t][i] )
                            fail[t] = std::string( aop_names[aop] ) + "(key " + std::to_string( key ) + ") showed item id " + std::to_string( r.r2 ) + ", the owner inserted " + std::to_string( mine[t][i] );
                    }
                    cdsv_rt_thread_end();
                    A::thread_detach();
                    finished.fetch_add( 1 );
                } );
            {
                // an episode takes well under a second; 120 s without all threads finishing means that they wait for each other
                double t0 = wall_now();
                while ( finished.load() < T ) {
                    timespec ts; ts.tv_sec = 0; ts.tv_nsec = 2000000; nanosleep( &ts, nullptr );
                    if ( wall_now() - t0 > 120 ) {
                        violation( "C17", "growth-no-progress:" + vname, "episode " + std::to_string( ep ) + " (" + std::to_string( T ) + " threads x " + std::to_string( K ) + " private keys): only "
                                   + std::to_string( finished.load()) + " of " + std::to_string( T ) + " threads finished their " + std::to_string( 4 * K ) + " operations within 120 s; " + std::to_string( nops.load()) + " operations completed",
                                   "{\"variant\":" + jstr( vname ) + ",\"episode\":" + std::to_string( ep ) + ",\"threads\":" + std::to_string( T ) + "}" );
                        int rc = finish( "no-progress" );
                        fflush( nullptr );
                        _exit( rc );
                    }
                }
            }
            for ( auto& x : th ) x.join();
            std::string why;
            for ( unsigned t = 0; t < T && why.empty(); ++t ) if ( !fail[t].empty()) why = "thread " + std::to_string( t ) + ": " + fail[t];
            uint64_t present_total = 0;
            if ( why.empty()) {
                for ( unsigned t = 0; t < T && why.empty(); ++t )
                    for ( unsigned i = 0; i < K; ++i ) {
                        int key = int( i * T + t );
                        bool p = mine[t][i] != -1; present_total += p;
                        SetRes r = c->exec( A_CON, key, 0 );
                        if (( r.r == 1 ) != p ) { why = "after all threads had finished, contains(key " + std::to_string( key ) + ") = " + std::to_string( r.r ) + " but its owner " + ( p ? "had inserted it (acknowledged) and not erased it" : "had erased it / never inserted it" ); break; }
                    }
                if ( why.empty() && uint64_t( c->size()) != present_total ) why = "after all threads had finished size() = " + std::to_string( c->size()) + " but " + std::to_string( present_total ) + " keys are present";
            }
            ps.evaluations.fetch_add( 1 ); ps.operations.fetch_add( nops.load()); ps.nontrivial.fetch_add( 1 );
            ps.add_fp( mix64( std::hash<std::string>()( vname )) ^ mix64( T * 1000 + K ));
            ps.add_extra( "growth.concurrent_episodes", 1 ); ps.add_extra( "growth.keys_present_at_end", present_total );
            if ( !why.empty()) {
                ++nviol;
                violation( "C17", "growth:" + vname, "episode " + std::to_string( ep ) + " (" + std::to_string( T ) + " threads x " + std::to_string( K ) + " private keys, table grown from its minimum): " + why,
                           "{\"variant\":" + jstr( vname ) + ",\"episode\":" + std::to_string( ep ) + ",\"threads\":" + std::to_string( T ) + ",\"keys_per_thread\":" + std::to_string( K ) + "}" );
            }
            else if ( ps.need_sample( 6 ))
                ps.add_sample( "{\"variant\":" + jstr( vname ) + ",\"threads\":" + std::to_string( T ) + ",\"keys_per_thread\":" + std::to_string( K ) + ",\"operations\":" + std::to_string( nops.load())
                               + ",\"keys_present_at_end\":" + std::to_string( present_total ) + ",\"all_private_key_expectations_met\":true}", 6 );
            c->mechanisms( ps );
        }
        ps.add_variant( vname, episodes );
    }

    template <class A>
    void go_raw( const char* name ) { if ( args().prop == "C17" ) run_growth<A>( name ); else run_set_variant<A>( "C16", name, false, true, 0, 1.0, 12, 40 ); }

    template <class S, class Mk>
    void go( const char* name, unsigned sup = M_BASIC ) { (void) sup; if ( args().prop == "C17" ) { run_growth< SetAdapter<S, Mk, M_BASIC, UPD_STD, void, false> >( name ); return; } run_set_variant< SetAdapter<S, Mk, M_BASIC, UPD_STD, void, false> >( "C16", name, false, true, 0, 1.0, 12, 40 ); }   // up to 40 keys so that the tables really grow
}

int main( int argc, char** argv )
{
    parse_args( argc, argv );
    limit_memory_gb( 8 );
    prop( "C16" ).rule = "one evaluation = one round/segment (2-4 threads, seeded programs over 2-8 keys, alphabet insert/insert(f)/emplace/update/update(no-insert)/erase/erase(f)/contains/find(f)) of one lock-based hash set variant "
                         "with tiny initial capacity, probe-set size and resize thresholds (re-created every 25-400 rounds so that it grows again and again); every key's sub-history incl. the pinning lookups is checked by WGL against the "
                         "absent|present(id) register model; non-trivial = >=1 pair of operations of different threads overlaps on one key; distinct = fingerprint of the per-key structures of the round";
    prop( "C18" ).rule = "one evaluation = one quiescent point after a checked round: size()/empty() equal the number of keys that lookups report present (these containers offer no iteration)";
    prop( "C20" ).rule = "one evaluation = one single-threaded sequence of 1-200 API calls (random alphabet, 3 keys or 2000 keys) followed by lookups of every key; results must match the sequential set model exactly";
    LibInit lib;
    {
        SmrSetup smr( 4, 8 );
        using cc::cuckoo::list; using cc::cuckoo::vector;
        typedef cc::cuckoo::striping<> StripingRM;                                     // std::recursive_mutex
        typedef cc::cuckoo::striping<cds::sync::reentrant_spin> StripingSpin;
        typedef cc::cuckoo::refinable<> RefinableRM;
        typedef cc::cuckoo::refinable<cds::sync::reentrant_spin> RefinableSpin;

        { typedef cc::CuckooSet<Item, ck_tr<list, true, false, StripingRM>> S; go<S, MkCuckoo<S, 4, 4, 0>>( "CuckooSet<striping,list,ordered,init4,ps4>" ); }
        { typedef cc::CuckooSet<Item, ck_tr<list, false, true, StripingSpin>> S; go<S, MkCuckoo<S, 4, 3, 2>>( "CuckooSet<striping-spin,list,unordered,storehash,init4,ps3>" ); }
        { typedef cc::CuckooSet<Item, ck_tr<vector<4>, true, true, RefinableRM>> S; go<S, MkCuckoo<S, 4, 4, 0>>( "CuckooSet<refinable,vector4,ordered,storehash>" ); }
        { typedef cc::CuckooSet<Item, ck_tr<vector<2>, false, false, RefinableSpin>> S; go<S, MkCuckoo<S, 4, 2, 0>>( "CuckooSet<refinable-spin,vector2,unordered>" ); }
        { typedef cc::CuckooSet<Item, ck_tr<list, true, false, RefinableRM>> S; go<S, MkCuckoo<S, 4, 2, 1>>( "CuckooSet<refinable,list,ordered,init4,ps2,thr1>" ); }
        { typedef cc::CuckooSet<Item, ck_tr<vector<3>, true, false, StripingRM>> S; go<S, MkCuckoo<S, 8, 3, 2>>( "CuckooSet<striping,vector3,ordered,init8>" ); }

        namespace ss = cc::striped_set;
        using cds::opt::hash; using cds::opt::less; using cds::opt::mutex_policy; using cds::opt::resizing_policy; using cds::opt::equal_to;
        typedef ss::striping<> Str; typedef ss::refinable<> Ref;
        typedef ss::load_factor_resizing<1> LF1; typedef ss::load_factor_resizing<2> LF2; typedef ss::load_factor_resizing<0> LFrt;
        typedef ss::single_bucket_size_threshold<1> SB1; typedef ss::single_bucket_size_threshold<2> SB2; typedef ss::single_bucket_size_threshold<0> SBrt;

        { typedef cc::StripedSet<std::list<Item>, hash<H1>, less<ItemLess>, mutex_policy<Str>, resizing_policy<LF1>> S; go<S, MkStriped<S, 1>>( "StripedSet<std::list,striping,loadfactor1>" ); }
        // single_bucket_size_threshold is only combined with spreading hashes: with a colliding hash the policy asks for a resize after every
        // insert and the table doubles without bound (memory exhaustion, not a property of C16)
        { typedef cc::StripedSet<std::vector<Item>, hash<H2>, less<ItemLess>, mutex_policy<Ref>, resizing_policy<SB2>> S; go<S, MkStriped<S, 1>>( "StripedSet<std::vector,refinable,bucket2>" ); }
        { typedef cc::StripedSet<std::set<Item, ItemLess>, hash<H1>, mutex_policy<Ref>, resizing_policy<LF2>> S; go<S, MkStriped<S, 2>>( "StripedSet<std::set,refinable,loadfactor2>" ); }
        { typedef cc::StripedSet<std::unordered_set<Item, H1, ItemEq>, hash<H2>, mutex_policy<Str>, resizing_policy<SB1>> S; go<S, MkStriped<S, 1>>( "StripedSet<std::unordered_set,striping,bucket1>" ); }
        { typedef cc::StripedSet<boost::container::list<Item>, hash<HConst>, less<ItemLess>, mutex_policy<Ref>, resizing_policy<LFrt>> S; go<S, MkStripedRt<S, 1, 1>>( "StripedSet<boost::list,refinable,loadfactor-rt1,const>" ); }
        { typedef cc::StripedSet<boost::container::slist<Item>, hash<H1>, less<ItemLess>, mutex_policy<Str>, resizing_policy<SBrt>> S; go<S, MkStripedRt<S, 2, 1>>( "StripedSet<boost::slist,striping,bucket-rt1>" ); }
        { typedef cc::StripedSet<boost::container::vector<Item>, hash<H1>, less<ItemLess>, mutex_policy<Ref>, resizing_policy<LF1>> S; go<S, MkStriped<S, 1>>( "StripedSet<boost::vector,refinable,loadfactor1>" ); }
        { typedef cc::StripedSet<boost::container::stable_vector<Item>, hash<HMod2>, less<ItemLess>, mutex_policy<Str>, resizing_policy<LF1>> S; go<S, MkStriped<S, 1>>( "StripedSet<boost::stable_vector,striping,loadfactor1,mod2>" ); }
        { typedef cc::StripedSet<boost::container::set<Item, ItemLess>, hash<H1>, mutex_policy<Ref>, resizing_policy<SB1>> S; go<S, MkStriped<S, 1>>( "StripedSet<boost::set,refinable,bucket1>" ); }
        { typedef cc::StripedSet<boost::container::flat_set<Item, ItemLess>, hash<H2>, mutex_policy<Str>, resizing_policy<LF1>> S; go<S, MkStriped<S, 1>>( "StripedSet<boost::flat_set,striping,loadfactor1>" ); }
        { typedef cc::StripedSet<boost::unordered_set<Item, H1, ItemEq>, hash<H1>, mutex_policy<Ref>, resizing_policy<LF2>> S; go<S, MkStriped<S, 1>>( "StripedSet<boost::unordered_set,refinable,loadfactor2>" ); }

        {
            namespace ci = cds::intrusive; namespace is = ci::striped_set;
            typedef is::load_factor_resizing<1> ILF1; typedef is::load_factor_resizing<0> ILFrt; typedef is::single_bucket_size_threshold<2> ISB2;
            typedef is::striping<> IStr; typedef is::refinable<> IRef;
            { typedef ci::StripedSet<bi::list<IItemList>, hash<IHash<H1>>, less<ILess>, mutex_policy<IStr>, resizing_policy<ILF1>> S; go_raw< IntrStripedAdapter<S, IItemList, 1> >( "intrusive::StripedSet<bi::list,striping,loadfactor1>" ); }
            { typedef ci::StripedSet<bi::list<IItemList>, hash<IHash<HMod2>>, cds::opt::compare<ICmp>, mutex_policy<IRef>, resizing_policy<ILFrt>> S; go_raw< IntrStripedAdapter<S, IItemList, 1, 1> >( "intrusive::StripedSet<bi::list,refinable,loadfactor-rt1,mod2>" ); }
            { typedef ci::StripedSet<bi::set<IItemSet, bi::compare<ILess>>, hash<IHash<H2>>, less<ILess>, mutex_policy<IRef>, resizing_policy<ISB2>> S; go_raw< IntrStripedAdapter<S, IItemSet, 1> >( "intrusive::StripedSet<bi::set,refinable,bucket2>" ); }
            { typedef ci::StripedSet<bi::set<IItemSet, bi::compare<ILess>>, hash<IHash<H1>>, less<ILess>, mutex_policy<IStr>, resizing_policy<ILF1>> S; go_raw< IntrStripedAdapter<S, IItemSet, 2> >( "intrusive::StripedSet<bi::set,striping,loadfactor1>" ); }
        }
    }
    return finish( "set_lock" );
}
