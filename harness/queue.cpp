// C06: unbounded MPMC queues (value-copying forms) are linearizable FIFO queues.
#include <cdsv/seqdrv.h>
#include <cdsv/smr.h>
#include <cds/container/msqueue.h>
#include <cds/container/moir_queue.h>
#include <cds/container/basket_queue.h>
#include <cds/container/optimistic_queue.h>
#include <cds/container/rwqueue.h>
#include <cds/container/fcqueue.h>
#include <cds/sync/spinlock.h>
#include <mutex>
#include <list>

namespace {
    using namespace cdsv;
    namespace cc = cds::container;

    struct Val {
        int64_t uid = 0;
        uint64_t pay = 0;
        Val() {}
        explicit Val( int64_t u ) : uid( u ), pay( mix64( uint64_t( u ))) {}
        bool good() const { return pay == mix64( uint64_t( uid )); }
    };

    template <class Q, class AttachPolicy>
    struct QueueAdapter: AttachPolicy {
        Q q;
        std::string name;
        int64_t capacity() { return -1; }
        int64_t exec( int op, int64_t uid, int64_t, int64_t& )
        {
            switch ( op ) {
            case S_PUSH_BACK: return q.enqueue( Val( uid )) ? 1 : 0;
            case S_POP_FRONT: {
                Val v;
                if ( !q.dequeue( v )) return -1;
                if ( !v.good()) return ( int64_t( 1 ) << 62 ) | ( v.uid & 0xffffff );   // corrupted / invented item: no model state admits it
                return v.uid;
            }
            case S_EMPTY: return q.empty() ? 1 : 0;
            case S_SIZE: return int64_t( q.size());
            case S_CLEAR: q.clear(); return 0;
            }
            return -9;
        }
    };

    // ---- statistics extraction
    template <class Q> struct MechMS { static void get( Q& q, PropStats& ps ) {
        auto const& s = q.statistics();
        ps.add_mech( "ms.onEnqueueRace", s.m_EnqueueRace.get()); ps.add_mech( "ms.onDequeueRace", s.m_DequeueRace.get());
        ps.add_mech( "ms.onBadTail", s.m_BadTail.get()); ps.add_mech( "ms.onAdvanceTailFailed", s.m_AdvanceTailError.get());
        ps.add_mech( "ms.onEmptyDequeue", s.m_EmptyDequeue.get());
    }};
    template <class Q> struct MechBasket { static void get( Q& q, PropStats& ps ) {
        auto const& s = q.statistics();
        ps.add_mech( "basket.onEnqueueRace", s.m_EnqueueRace.get()); ps.add_mech( "basket.onDequeueRace", s.m_DequeueRace.get());
        ps.add_mech( "basket.onBadTail", s.m_BadTail.get()); ps.add_mech( "basket.onTryAddBasket", s.m_TryAddBasket.get());
        ps.add_mech( "basket.onAddBasket", s.m_AddBasketCount.get()); ps.add_mech( "basket.onEmptyDequeue", s.m_EmptyDequeue.get());
    }};
    template <class Q> struct MechOpt { static void get( Q& q, PropStats& ps ) {
        auto const& s = q.statistics();
        ps.add_mech( "optimistic.onEnqueueRace", s.m_EnqueueRace.get()); ps.add_mech( "optimistic.onDequeueRace", s.m_DequeueRace.get());
        ps.add_mech( "optimistic.onFixList", s.m_FixListCount.get()); ps.add_mech( "optimistic.onEmptyDequeue", s.m_EmptyDequeue.get());
    }};
    template <class Q> struct MechFC { static void get( Q& q, PropStats& ps ) {
        auto const& s = q.statistics();
        ps.add_mech( "fc.onCombining", s.m_nCombiningCount.get()); ps.add_mech( "fc.onCollide", s.m_nCollided.get());
        ps.add_mech( "fc.onPassiveToCombiner", s.m_nPassiveToCombiner.get()); ps.add_mech( "fc.onPassiveWait", s.m_nPassiveWaitCall.get());
        ps.add_mech( "fc.onCompactPublicationList", s.m_nCompactPublicationList.get());
    }};
    template <class Q> struct MechNone { static void get( Q&, PropStats& ) {} };

    template <class Q, template <class> class Mech, class AttachPolicy = Attach>
    struct QA: QueueAdapter<Q, AttachPolicy> {
        void mechanisms( PropStats& ps ) { Mech<Q>::get( this->q, ps ); }
    };

    struct Weights { unsigned push, pop, empty, size, clear; };

    template <class Adapter>
    void run_queue( std::string const& name, Weights w, unsigned threads_hint = 0 )
    {
        if ( !args().want( name )) return;
        Rng vr( args().seed ^ std::hash<std::string>()( name ));
        // rounds: tiny histories
        {
            SeqPlan p; p.prop = "C06"; p.variant = name + "/rounds";
            p.threads = threads_hint ? threads_hint : vr.range( 2, 4 );
            p.min_ops = 1; p.max_ops = 4;
            p.rounds = args().n( 6000, 150000 );
            p.weight[S_PUSH_BACK] = w.push; p.weight[S_POP_FRONT] = w.pop; p.weight[S_EMPTY] = w.empty; p.weight[S_SIZE] = w.size; p.weight[S_CLEAR] = w.clear;
            p.prefill_max = 2;
            SeqDriver<Adapter, SeqModel> d( p );
            d.run();
        }
        // segments: longer free-running histories (node reclamation and reuse inside a history)
        {
            SeqPlan p; p.prop = "C06"; p.variant = name + "/segments";
            p.threads = threads_hint ? threads_hint : vr.range( 2, 4 );
            p.min_ops = 8; p.max_ops = 30;
            p.rounds = args().n( 600, 15000 );
            p.weight[S_PUSH_BACK] = w.push; p.weight[S_POP_FRONT] = w.pop; p.weight[S_EMPTY] = w.empty; p.weight[S_SIZE] = w.size; p.weight[S_CLEAR] = 0;
            SeqDriver<Adapter, SeqModel> d( p );
            d.run();
        }
    }

    // ---- trait sets
    template <class Stat, class IC, class MM, class BO>
    struct ms_traits: cc::msqueue::traits { typedef Stat stat; typedef IC item_counter; typedef MM memory_model; typedef BO back_off; };
    template <class IC, class MM, class BO>
    struct basket_traits: cc::basket_queue::traits { typedef cc::basket_queue::stat<> stat; typedef IC item_counter; typedef MM memory_model; typedef BO back_off; };
    template <class IC, class MM, class BO>
    struct opt_traits: cc::optimistic_queue::traits { typedef cc::optimistic_queue::stat<> stat; typedef IC item_counter; typedef MM memory_model; typedef BO back_off; };

    typedef cds::atomicity::item_counter IC;
    typedef cds::atomicity::empty_item_counter NoIC;
    typedef cds::opt::v::relaxed_ordering Rlx;
    typedef cds::opt::v::sequential_consistent Sc;
    typedef cds::backoff::empty BoE;
    typedef cds::backoff::Default BoD;
    typedef cds::backoff::pause BoP;

    template <class L> struct rw_traits: cc::rwqueue::traits { typedef L lock_type; typedef IC item_counter; };

    template <bool Elim, class Wait, class Lock>
    struct fc_traits: cc::fcqueue::traits {
        typedef cc::fcqueue::stat<> stat;
        static constexpr const bool enable_elimination = Elim;
        typedef Wait wait_strategy;
        typedef Lock lock_type;
    };
}

int main( int argc, char** argv )
{
    parse_args( argc, argv );
    limit_memory_gb( 8 );
    prop( "C06" ).rule = "one evaluation = one round/segment history (2-4 threads, seeded programs) of one queue variant incl. the sequential drain, checked by WGL against the FIFO model; "
                         "non-trivial = >=1 pair of operations of different threads overlaps; distinct = fingerprint of (op, normalised ids, results, interleaving order of all invocation/response events)";
    LibInit lib;
    {
        // BasketQueue needs 6 hazard pointers, OptimisticQueue 5, MS/Moir 2..3 (+ harness none)
        SmrSetup smr( 8, 8, 0, ( args().seed & 1 ) ? cds::gc::HP::scan_type::inplace : cds::gc::HP::scan_type::inplace );
        typedef cds::gc::HP HP; typedef cds::gc::DHP DHP;
        Weights w{ 5, 5, 0, 0, 0 };

        run_queue< QA< cc::MSQueue<HP, Val, ms_traits<cc::msqueue::stat<>, NoIC, Rlx, BoE>>, MechMS >>( "MSQueue<HP,relaxed>", w );
        run_queue< QA< cc::MSQueue<DHP, Val, ms_traits<cc::msqueue::stat<>, IC, Sc, BoD>>, MechMS >>( "MSQueue<DHP,ic,seqcst,backoff>", w );
        run_queue< QA< cc::MSQueue<HP, Val, ms_traits<cc::msqueue::stat<>, IC, Sc, BoP>>, MechMS >>( "MSQueue<HP,ic,seqcst,pause>", w );
        run_queue< QA< cc::MSQueue<DHP, Val, ms_traits<cc::msqueue::stat<>, NoIC, Rlx, BoE>>, MechMS >>( "MSQueue<DHP,relaxed>", w );
        run_queue< QA< cc::MoirQueue<HP, Val, ms_traits<cc::msqueue::stat<>, IC, Rlx, BoE>>, MechMS >>( "MoirQueue<HP,ic,relaxed>", w );
        run_queue< QA< cc::MoirQueue<DHP, Val, ms_traits<cc::msqueue::stat<>, NoIC, Sc, BoD>>, MechMS >>( "MoirQueue<DHP,seqcst,backoff>", w );
        run_queue< QA< cc::BasketQueue<HP, Val, basket_traits<NoIC, Rlx, BoE>>, MechBasket >>( "BasketQueue<HP,relaxed>", w );
        run_queue< QA< cc::BasketQueue<DHP, Val, basket_traits<IC, Sc, BoD>>, MechBasket >>( "BasketQueue<DHP,ic,seqcst,backoff>", w );
        run_queue< QA< cc::BasketQueue<HP, Val, basket_traits<IC, Sc, BoP>>, MechBasket >>( "BasketQueue<HP,ic,seqcst,pause>", w );
        run_queue< QA< cc::OptimisticQueue<HP, Val, opt_traits<NoIC, Rlx, BoE>>, MechOpt >>( "OptimisticQueue<HP,relaxed>", w );
        run_queue< QA< cc::OptimisticQueue<DHP, Val, opt_traits<IC, Sc, BoD>>, MechOpt >>( "OptimisticQueue<DHP,ic,seqcst,backoff>", w );
        run_queue< QA< cc::OptimisticQueue<DHP, Val, opt_traits<NoIC, Rlx, BoE>>, MechOpt >>( "OptimisticQueue<DHP,relaxed>", w );

        run_queue< QA< cc::RWQueue<Val, rw_traits<cds::sync::spin>>, MechNone, NoAttach >>( "RWQueue<spin>", w );
        run_queue< QA< cc::RWQueue<Val, rw_traits<std::mutex>>, MechNone, NoAttach >>( "RWQueue<std::mutex>", w );

        namespace fc = cds::algo::flat_combining;
        // size() of FCQueue reads the underlying container without the combiner lock (documented as unreliable): not part of the alphabet
        Weights wf{ 5, 5, 1, 0, 1 };
        run_queue< QA< cc::FCQueue<Val, std::queue<Val>, fc_traits<false, fc::wait_strategy::backoff<>, cds::sync::spin>>, MechFC >>( "FCQueue<noelim,backoff>", wf );
        run_queue< QA< cc::FCQueue<Val, std::queue<Val>, fc_traits<true, fc::wait_strategy::backoff<>, cds::sync::spin>>, MechFC >>( "FCQueue<elim,backoff>", wf );
        run_queue< QA< cc::FCQueue<Val, std::queue<Val, std::list<Val>>, fc_traits<true, fc::wait_strategy::empty, std::mutex>>, MechFC >>( "FCQueue<elim,empty,list,mutex>", wf );
        run_queue< QA< cc::FCQueue<Val, std::queue<Val>, fc_traits<true, fc::wait_strategy::single_mutex_single_condvar<>, cds::sync::spin>>, MechFC >>( "FCQueue<elim,ss>", wf );
        run_queue< QA< cc::FCQueue<Val, std::queue<Val>, fc_traits<false, fc::wait_strategy::single_mutex_multi_condvar<>, cds::sync::spin>>, MechFC >>( "FCQueue<noelim,sm>", wf );
        run_queue< QA< cc::FCQueue<Val, std::queue<Val>, fc_traits<true, fc::wait_strategy::multi_mutex_multi_condvar<>, cds::sync::spin>>, MechFC >>( "FCQueue<elim,mm>", wf );
    }
    return finish( "queue" );
}
