// C06: unbounded MPMC queues (value-copying forms) are linearizable FIFO queues.
#include <cdsv/seqdrv.h>
#include <cdsv/smr.h>
#include <cds/container/msqueue.h>
#include <cds/container/moir_queue.h>
#include <cds/container/basket_queue.h>
#include <cds/container/optimistic_queue.h>
#include <cds/container/rwqueue.h>
#include <cds/container/fcqueue.h>
#include <cds/sync/spinlock.h>
#include <mutex>
#include <list>

namespace {
    using namespace cdsv;
    namespace cc = cds::container;

    struct Val {
        int64_t uid = 0;
        uint64_t pay = 0;
        Val() {}
        explicit Val( int64_t u ) : uid( u ), pay( mix64( uint64_t( u ))) {}
        Val( Val const& o ) { payload_copy( reinterpret_cast<uint64_t*>( this ), reinterpret_cast<uint64_t const*>( &o ), 2 ); }
        Val& operator=( Val const& o ) { payload_copy( reinterpret_cast<uint64_t*>( this ), reinterpret_cast<uint64_t const*>( &o ), 2 ); return *this; }
        bool good() const { return pay == mix64( uint64_t( uid )); }
    };

    template <class Q, class AttachPolicy>
    struct QueueAdapter: AttachPolicy {
        Q q;
        std::string name;
        int64_t capacity() { return -1; }
        int64_t exec( int op, int64_t uid, int64_t, int64_t& )
        {
            switch ( op ) {
            case S_PUSH_BACK:
                // copy and move overloads of both synonyms (the copy forms take an lvalue)
                switch ( uid & 3 ) {
                case 0: { Val t( uid ); return q.enqueue( t ) ? 1 : 0; }
                case 1: return q.enqueue( Val( uid )) ? 1 : 0;
                case 2: { Val t( uid ); return q.push( t ) ? 1 : 0; }
                default: return q.push( Val( uid )) ? 1 : 0;
                }
            case S_POP_FRONT: {
                Val v;
                if ( !(( uid & 1 ) ? q.dequeue( v ) : q.pop( v ))) return -1;
                if ( !v.good()) return ( int64_t( 1 ) << 62 ) | ( v.uid & 0xffffff );   // corrupted / invented item: no model state admits it
                return v.uid;
            }
            case S_EMPTY: return q.empty() ? 1 : 0;
            case S_SIZE: return int64_t( q.size());
            case S_CLEAR: q.clear(); return 0;
            }
            return -9;
        }
    };

    // ---- statistics extraction
    template <class Q> struct MechMS { static void get( Q& q, PropStats& ps ) {
        auto const& s = q.statistics();
        ps.add_mech( "ms.onEnqueueRace", s.m_EnqueueRace.get()); ps.add_mech( "ms.onDequeueRace", s.m_DequeueRace.get());
        ps.add_mech( "ms.onBadTail", s.m_BadTail.get()); ps.add_mech( "ms.onAdvanceTailFailed", s.m_AdvanceTailError.get());
        ps.add_mech( "ms.onEmptyDequeue", s.m_EmptyDequeue.get());
    }};
    template <class Q> struct MechBasket { static void get( Q& q, PropStats& ps ) {
        auto const& s = q.statistics();
        ps.add_mech( "basket.onEnqueueRace", s.m_EnqueueRace.get()); ps.add_mech( "basket.onDequeueRace", s.m_DequeueRace.get());
        ps.add_mech( "basket.onBadTail", s.m_BadTail.get()); ps.add_mech( "basket.onTryAddBasket", s.m_TryAddBasket.get());
        ps.add_mech( "basket.onAddBasket", s.m_AddBasketCount.get()); ps.add_mech( "basket.onEmptyDequeue", s.m_EmptyDequeue.get());
    }};
    template <class Q> struct MechOpt { static void get( Q& q, PropStats& ps ) {
        auto const& s = q.statistics();
        ps.add_mech( "optimistic.onEnqueueRace", s.m_EnqueueRace.get()); ps.add_mech( "optimistic.onDequeueRace", s.m_DequeueRace.get());
        ps.add_mech( "optimistic.onFixList", s.m_FixListCount.get()); ps.add_mech( "optimistic.onEmptyDequeue", s.m_EmptyDequeue.get());
    }};
    template <class Q> struct MechFC { static void get( Q& q, PropStats& ps ) {
        auto const& s = q.statistics();
        ps.add_mech( "fc.onCombining", s.m_nCombiningCount.get()); ps.add_mech( "fc.onCollide", s.m_nCollided.get());
        ps.add_mech( "fc.onPassiveToCombiner", s.m_nPassiveToCombiner.get()); ps.add_mech( "fc.onPassiveWait", s.m_nPassiveWaitCall.get());
        ps.add_mech( "fc.onCompactPublicationList", s.m_nCompactPublicationList.get());
    }};
    template <class Q> struct MechNone { static void get( Q&, PropStats& ) {} };

    template <class Q, template <class> class Mech, class AttachPolicy = Attach>
    struct QA: QueueAdapter<Q, AttachPolicy> {
        void mechanisms( PropStats& ps ) { Mech<Q>::get( this->q, ps ); }
    };

    struct Weights { unsigned push, pop, empty, size, clear; };

    template <class Adapter>
    void run_queue( std::string const& name, Weights w, unsigned threads_hint = 0 )
    {
        if ( !args().want( name )) return;
        Rng vr( args().seed ^ std::hash<std::string>()( name ));
        // rounds: tiny histories
        {
            SeqPlan p; p.prop = "C06"; p.variant = name + "/rounds";
            p.threads = threads_hint ? threads_hint : vr.range( 2, 4 );
            p.min_ops = 1; p.max_ops = 4;
            p.rounds = args().n( 6000, 150000 );
            p.weight[S_PUSH_BACK] = w.push; p.weight[S_POP_FRONT] = w.pop; p.weight[S_EMPTY] = w.empty; p.weight[S_SIZE] = w.size; p.weight[S_CLEAR] = w.clear;
            p.prefill_max = 2;
            SeqDriver<Adapter, SeqModel> d( p );
            d.run();
        }
        // segments: longer free-running histories (node reclamation and reuse inside a history)
        {
            SeqPlan p; p.prop = "C06"; p.variant = name + "/segments";
            p.threads = threads_hint ? threads_hint : vr.range( 2, 4 );
            p.min_ops = 8; p.max_ops = 30;
            p.rounds = args().n( 600, 15000 );
            p.weight[S_PUSH_BACK] = w.push; p.weight[S_POP_FRONT] = w.pop; p.weight[S_EMPTY] = w.empty; p.weight[S_SIZE] = w.size; p.weight[S_CLEAR] = 0;
            SeqDriver<Adapter, SeqModel> d( p );
            d.run();
        }
    }

    // ---- trait sets
    template <class Stat, class IC, class MM, class BO>
    struct ms_traits: cc::msqueue::traits { typedef Stat stat; typedef IC item_counter; typedef MM memory_model; typedef BO back_off; };
    template <class IC, class MM, class BO>
    struct basket_traits: cc::basket_queue::traits { typedef cc::basket_queue::stat<> stat; typedef IC item_counter; typedef MM memory_model; typedef BO back_off; };
    template <class IC, class MM, class BO>
    struct opt_traits: cc::optimistic_queue::traits { typedef cc::optimistic_queue::stat<> stat; typedef IC item_counter; typedef MM memory_model; typedef BO back_off; };

    typedef cds::atomicity::item_counter IC;
    typedef cds::atomicity::empty_item_counter NoIC;
    typedef cds::opt::v::relaxed_ordering Rlx;
    typedef cds::opt::v::sequential_consistent Sc;
    typedef cds::backoff::empty BoE;
    typedef cds::backoff::Default BoD;
    typedef cds::backoff::pause BoP;

    template <class L> struct rw_traits: cc::rwqueue::traits { typedef L lock_type; typedef IC item_counter; };

    template <bool Elim, class Wait, class Lock>
    struct fc_traits: cc::fcqueue::traits {
        typedef cc::fcqueue::stat<> stat;
        static constexpr const bool enable_elimination = Elim;
        typedef Wait wait_strategy;
        typedef Lock lock_type;
    };
}

// ---------------------------------------------------------------- intrusive forms
// Items are owned by the harness and never re-used or freed while the queue lives: dequeue() of the MS family returns an item that is still
// the queue's dummy node and whose disposer runs after a LATER dequeue, so the disposer only counts and the memory is released after the
// queue has been destroyed.
namespace {
    namespace ci = cds::intrusive;
    std::atomic<uint64_t> g_disposed{ 0 };
    struct CountDisposer { template <class T> void operator()( T* ) const { g_disposed.fetch_add( 1, std::memory_order_relaxed ); } };

    template <class Node> struct IItem: Node { Val v; };
    inline std::vector<std::shared_ptr<void>>& graveyard() { static std::vector<std::shared_ptr<void>> g; return g; }

    template <class Q, class Item>
    struct IntrQueueAdapter: Attach {
        std::unique_ptr<Q> q;
        // stable addresses; the retired-item callback of the queue (clear_links + disposer) WRITES into an item whenever the SMR gets
        // round to it, so the items must outlive the SMR singleton: they go to a graveyard that main() empties after ~HP/~DHP
        std::shared_ptr<std::deque<Item>> items;
        std::mutex items_lock;
        IntrQueueAdapter() : q( new Q ), items( new std::deque<Item> ) {}
        ~IntrQueueAdapter() { q->clear(); q.reset(); graveyard().push_back( items ); }
        Item* alloc()
        {
            std::lock_guard<std::mutex> g( items_lock );
            items->emplace_back();
            return &items->back();
        }
        int64_t capacity() { return -1; }
        int64_t exec( int op, int64_t uid, int64_t, int64_t& )
        {
            switch ( op ) {
            case S_PUSH_BACK: { Item* it = alloc(); it->v = Val( uid ); return (( uid & 1 ) ? q->enqueue( *it ) : q->push( *it )) ? 1 : 0; }
            case S_POP_FRONT: {
                Item* p = ( uid & 1 ) ? q->dequeue() : q->pop();
                if ( !p ) return -1;
                return p->v.good() ? p->v.uid : (( int64_t( 1 ) << 62 ) | ( p->v.uid & 0xffffff ));
            }
            case S_EMPTY: return q->empty() ? 1 : 0;
            }
            return -9;
        }
        void mechanisms( PropStats& ps ) { ps.add_mech( "intrusive.disposer_calls", g_disposed.exchange( 0 )); }
    };

    template <class GC> struct ims_item { typedef IItem< ci::msqueue::node<GC> > type; };
    template <class GC, class IC_> struct ims_traits: ci::msqueue::traits {
        typedef ci::msqueue::base_hook< cds::opt::gc<GC> > hook; typedef CountDisposer disposer; typedef IC_ item_counter;
    };
    template <class GC> struct ibq_item { typedef IItem< ci::basket_queue::node<GC> > type; };
    template <class GC> struct ibq_traits: ci::basket_queue::traits {
        typedef ci::basket_queue::base_hook< cds::opt::gc<GC> > hook; typedef CountDisposer disposer; typedef cds::atomicity::item_counter item_counter;
    };
    template <class GC> struct ioq_item { typedef IItem< ci::optimistic_queue::node<GC> > type; };
    template <class GC> struct ioq_traits: ci::optimistic_queue::traits {
        typedef ci::optimistic_queue::base_hook< cds::opt::gc<GC> > hook; typedef CountDisposer disposer; typedef cds::atomicity::item_counter item_counter;
    };
}

int main( int argc, char** argv )
{
    parse_args( argc, argv );
    limit_memory_gb( 8 );
    prop( "C06" ).rule = "one evaluation = one round/segment history (2-4 threads, seeded programs) of one queue variant incl. the sequential drain, checked by WGL against the FIFO model; "
                         "non-trivial = >=1 pair of operations of different threads overlaps; distinct = fingerprint of (op, normalised ids, results, interleaving order of all invocation/response events)";
    LibInit lib;
    {
        // BasketQueue needs 6 hazard pointers, OptimisticQueue 5, MS/Moir 2..3 (+ harness none)
        SmrSetup smr( 8, 8, 0, ( args().seed & 1 ) ? cds::gc::HP::scan_type::inplace : cds::gc::HP::scan_type::inplace );
        typedef cds::gc::HP HP; typedef cds::gc::DHP DHP;
        Weights w{ 5, 5, 0, 0, 0 };

        run_queue< QA< cc::MSQueue<HP, Val, ms_traits<cc::msqueue::stat<>, NoIC, Rlx, BoE>>, MechMS >>( "MSQueue<HP,relaxed>", w );
        run_queue< QA< cc::MSQueue<DHP, Val, ms_traits<cc::msqueue::stat<>, IC, Sc, BoD>>, MechMS >>( "MSQueue<DHP,ic,seqcst,backoff>", w );
        run_queue< QA< cc::MSQueue<HP, Val, ms_traits<cc::msqueue::stat<>, IC, Sc, BoP>>, MechMS >>( "MSQueue<HP,ic,seqcst,pause>", w );
        run_queue< QA< cc::MSQueue<DHP, Val, ms_traits<cc::msqueue::stat<>, NoIC, Rlx, BoE>>, MechMS >>( "MSQueue<DHP,relaxed>", w );
        run_queue< QA< cc::MoirQueue<HP, Val, ms_traits<cc::msqueue::stat<>, IC, Rlx, BoE>>, MechMS >>( "MoirQueue<HP,ic,relaxed>", w );
        run_queue< QA< cc::MoirQueue<DHP, Val, ms_traits<cc::msqueue::stat<>, NoIC, Sc, BoD>>, MechMS >>( "MoirQueue<DHP,seqcst,backoff>", w );
        run_queue< QA< cc::BasketQueue<HP, Val, basket_traits<NoIC, Rlx, BoE>>, MechBasket >>( "BasketQueue<HP,relaxed>", w );
        run_queue< QA< cc::BasketQueue<DHP, Val, basket_traits<IC, Sc, BoD>>, MechBasket >>( "BasketQueue<DHP,ic,seqcst,backoff>", w );
        run_queue< QA< cc::BasketQueue<HP, Val, basket_traits<IC, Sc, BoP>>, MechBasket >>( "BasketQueue<HP,ic,seqcst,pause>", w );
        run_queue< QA< cc::OptimisticQueue<HP, Val, opt_traits<NoIC, Rlx, BoE>>, MechOpt >>( "OptimisticQueue<HP,relaxed>", w );
        run_queue< QA< cc::OptimisticQueue<DHP, Val, opt_traits<IC, Sc, BoD>>, MechOpt >>( "OptimisticQueue<DHP,ic,seqcst,backoff>", w );
        run_queue< QA< cc::OptimisticQueue<DHP, Val, opt_traits<NoIC, Rlx, BoE>>, MechOpt >>( "OptimisticQueue<DHP,relaxed>", w );

        {
            // empty() is not in the alphabet: C06 speaks about enqueue/dequeue, and OptimisticQueue::empty() compares two independently
            // loaded pointers (it was seen returning true on a queue that was never empty during the call)
            Weights wi{ 5, 5, 0, 0, 0 };
            typedef ims_item<HP>::type I1; typedef ims_item<DHP>::type I2;
            run_queue< IntrQueueAdapter< ci::MSQueue<HP, I1, ims_traits<HP, IC>>, I1 > >( "intrusive::MSQueue<HP,ic>", wi );
            run_queue< IntrQueueAdapter< ci::MSQueue<DHP, I2, ims_traits<DHP, NoIC>>, I2 > >( "intrusive::MSQueue<DHP>", wi );
            run_queue< IntrQueueAdapter< ci::MoirQueue<HP, I1, ims_traits<HP, NoIC>>, I1 > >( "intrusive::MoirQueue<HP>", wi );
            run_queue< IntrQueueAdapter< ci::MoirQueue<DHP, I2, ims_traits<DHP, IC>>, I2 > >( "intrusive::MoirQueue<DHP,ic>", wi );
            typedef ibq_item<HP>::type B1; typedef ibq_item<DHP>::type B2;
            run_queue< IntrQueueAdapter< ci::BasketQueue<HP, B1, ibq_traits<HP>>, B1 > >( "intrusive::BasketQueue<HP>", wi );
            run_queue< IntrQueueAdapter< ci::BasketQueue<DHP, B2, ibq_traits<DHP>>, B2 > >( "intrusive::BasketQueue<DHP>", wi );
            typedef ioq_item<HP>::type O1; typedef ioq_item<DHP>::type O2;
            run_queue< IntrQueueAdapter< ci::OptimisticQueue<HP, O1, ioq_traits<HP>>, O1 > >( "intrusive::OptimisticQueue<HP>", wi );
            run_queue< IntrQueueAdapter< ci::OptimisticQueue<DHP, O2, ioq_traits<DHP>>, O2 > >( "intrusive::OptimisticQueue<DHP>", wi );
        }
        run_queue< QA< cc::RWQueue<Val, rw_traits<cds::sync::spin>>, MechNone, NoAttach >>( "RWQueue<spin>", w );
        run_queue< QA< cc::RWQueue<Val, rw_traits<std::mutex>>, MechNone, NoAttach >>( "RWQueue<std::mutex>", w );

        namespace fc = cds::algo::flat_combining;
        // size() of FCQueue reads the underlying container without the combiner lock (documented as unreliable): not part of the alphabet
        Weights wf{ 5, 5, 1, 0, 1 };
        run_queue< QA< cc::FCQueue<Val, std::queue<Val>, fc_traits<false, fc::wait_strategy::backoff<>, cds::sync::spin>>, MechFC >>( "FCQueue<noelim,backoff>", wf );
        run_queue< QA< cc::FCQueue<Val, std::queue<Val>, fc_traits<true, fc::wait_strategy::backoff<>, cds::sync::spin>>, MechFC >>( "FCQueue<elim,backoff>", wf );
        run_queue< QA< cc::FCQueue<Val, std::queue<Val, std::list<Val>>, fc_traits<true, fc::wait_strategy::empty, std::mutex>>, MechFC >>( "FCQueue<elim,empty,list,mutex>", wf );
        run_queue< QA< cc::FCQueue<Val, std::queue<Val>, fc_traits<true, fc::wait_strategy::single_mutex_single_condvar<>, cds::sync::spin>>, MechFC >>( "FCQueue<elim,ss>", wf );
        run_queue< QA< cc::FCQueue<Val, std::queue<Val>, fc_traits<false, fc::wait_strategy::single_mutex_multi_condvar<>, cds::sync::spin>>, MechFC >>( "FCQueue<noelim,sm>", wf );
        run_queue< QA< cc::FCQueue<Val, std::queue<Val>, fc_traits<true, fc::wait_strategy::multi_mutex_multi_condvar<>, cds::sync::spin>>, MechFC >>( "FCQueue<elim,mm>", wf );
    }
    graveyard().clear();     // the SMR singletons are gone: nothing refers to the intrusive items any more
    return finish( "queue" );
}
