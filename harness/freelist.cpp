// C21: FreeList, TaggedFreeList, CachedFreeList<FreeList>, CachedFreeList<TaggedFreeList> as concurrent bags.
//  - ownership monitor: every node carries an atomic owner word (FREE / thread id). A node returned by get() must be FREE
//    (CAS FREE -> tid); put() resets the word before the node is handed back.
//  - quiescent check: at the end of every run all workers are parked (back in the crew, idle); draining the list with get() must yield
//    exactly the nodes that no worker holds (none lost, none extra, none twice); they are put back and drained once more.
//  - TSan payload: a plain field of the node is written by the putter (cdsv::payload_write) and read by the getter
//    (cdsv::payload_read). The monitor's own atomics are relaxed so that they add no happens-before edge.
//  - evidence: contention is measured, not guessed: the number of library atomic operations executed by one get()/put()
//    (cdsv_rt_my_steps) is compared with the maximum any single-threaded call of that list type can execute (calibrated
//    per variant); more steps = a retry loop was taken; fewer steps than any single-threaded put = FreeList::put found
//    the reference count non-zero and left the re-add to the getter that still holds a reference.
#include <cdsv/core.h>
#include <cdsv/sync_ledger.h>
#include <cdsv/sync_crew.h>
#include <cds/intrusive/free_list.h>
#include <cds/intrusive/free_list_tagged.h>
#include <cds/intrusive/free_list_cached.h>
#include <memory>

namespace {
    using namespace cdsv;

    enum : uint32_t { OWNER_FREE = 0, OWNER_MAIN = 0xFFFFu };

    template <class FL>
    struct Node : FL::node {
        std::atomic<uint32_t> owner{ OWNER_FREE };
        std::atomic<uint32_t> last_putter{ 0 };
        std::atomic<uint64_t> shadow{ 0 };     // value the last putter wrote into pay
        Payload pay{ 0 };                      // plain: TSan payload
        uint32_t idx = 0;
    };

    struct Calib {
        uint64_t max_get = 0, max_put = 0, min_put = ~uint64_t( 0 );
    };

    struct ThreadOut {
        uint64_t gets = 0, puts = 0, nulls = 0, cget = 0, cput = 0, dput = 0, cross = 0, steps = 0;
        std::vector<uint32_t> held;
    };

    struct Totals {
        uint64_t runs = 0, nontrivial = 0, ops = 0, gets = 0, puts = 0, nulls = 0, cget = 0, cput = 0, dput = 0, cross = 0, drained = 0, held = 0;
    };

    // single-threaded calibration: the largest / smallest number of library atomic operations one call can execute
    template <class FL>
    Calib calibrate( std::string const& name )
    {
        Calib c;
        const unsigned N = 6;
        std::unique_ptr<Node<FL>[]> nodes( new Node<FL>[N] );
        FL fl;
        std::vector<Node<FL>*> held;
        for ( unsigned i = 0; i < N; ++i ) held.push_back( &nodes[i] );
        cdsv_rt_configure( 1, 0, 0, 1 );
        cdsv_rt_thread_begin( 0 );
        Rng rng( 12345 );
        for ( unsigned i = 0; ; ++i ) {
            // random get/put; after 400 calls only get() until the list is empty (a get() on the empty list included)
            bool get = held.size() == N ? false : ( held.empty() || i >= 400 || rng.chance( 1, 2 ));
            if ( i >= 400 && held.size() == N ) break;
            uint64_t s0 = cdsv_rt_my_steps();
            if ( get ) {
                typename FL::node* p = fl.get();
                uint64_t d = cdsv_rt_my_steps() - s0;
                if ( d > c.max_get ) c.max_get = d;
                if ( !p ) {
                    // single thread: every node that was put and not taken out must be obtainable
                    violation( "C21", "node-lost:" + name, "single-threaded put/get sequence: get() returned null although " + std::to_string( N - held.size()) + " node(s) are on the list",
                               "{\"variant\":" + jstr( name ) + ",\"phase\":\"single-thread-calibration\",\"on_list\":" + std::to_string( N - held.size()) + "}" );
                    break;
                }
                held.push_back( static_cast<Node<FL>*>( p ));
            }
            else {
                unsigned k = rng.below( unsigned( held.size()));
                Node<FL>* n = held[k]; held[k] = held.back(); held.pop_back();
                fl.put( n );
                uint64_t d = cdsv_rt_my_steps() - s0;
                if ( d > c.max_put ) c.max_put = d;
                if ( d < c.min_put ) c.min_put = d;
            }
        }
        if ( held.size() == N ) {
            uint64_t s0 = cdsv_rt_my_steps();
            if ( fl.get())
                violation( "C21", "node-handed-out-twice:" + name, "single-threaded sequence: all nodes are held but get() returned a node",
                           "{\"variant\":" + jstr( name ) + ",\"phase\":\"single-thread-calibration\"}" );
            uint64_t d = cdsv_rt_my_steps() - s0;
            if ( d > c.max_get ) c.max_get = d;
        }
        cdsv_rt_thread_end();
        fl.clear( []( typename FL::node* ) {} );
        return c;
    }

    template <class FL>
    struct Run {
        typedef Node<FL> node_t;
        std::string variant;
        Calib cal;
        uint64_t run_seed;
        uint64_t run_index;
        unsigned T, N, ops;
        unsigned cap[4];
        std::unique_ptr<node_t[]> nodes;
        FL fl;
        Barrier bar;
        ThreadOut out[4];
        std::vector<uint32_t> initial[4];
        std::atomic<uint64_t> token{ 1 };

        Run() : bar( 1 ) {}

        std::string ctx() const
        {
            return "\"variant\":" + jstr( variant ) + ",\"seed\":" + std::to_string( args().seed ) + ",\"run\":" + std::to_string( run_index )
                 + ",\"run_seed\":" + std::to_string( run_seed ) + ",\"threads\":" + std::to_string( T ) + ",\"nodes\":" + std::to_string( N );
        }

        node_t* check_ours( typename FL::node* p, const char* where )
        {
            node_t* n = static_cast<node_t*>( p );
            if ( n < nodes.get() || n >= nodes.get() + N || n != &nodes[n - nodes.get()] ) {
                violation( "C21", "foreign-node:" + variant, std::string( "get() returned a pointer that is not a node of this run (" ) + where + ")",
                           "{" + ctx() + ",\"where\":" + jstr( where ) + "}" );
                return nullptr;
            }
            return n;
        }

        void do_put( node_t* n, uint32_t who )
        {
            uint64_t tk = ( token.fetch_add( 1, std::memory_order_relaxed ) << 8 ) | who;
            payload_write( &n->pay, tk );
            n->shadow.store( tk, std::memory_order_relaxed );
            n->last_putter.store( who, std::memory_order_relaxed );
            n->owner.store( OWNER_FREE, std::memory_order_relaxed );
            compiler_barrier();
            fl.put( n );
            compiler_barrier();
        }

        // returns the node, or nullptr (list empty / violation already reported)
        node_t* do_get( uint32_t who, const char* where, bool& null_result )
        {
            compiler_barrier();
            typename FL::node* p = fl.get();
            compiler_barrier();
            null_result = ( p == nullptr );
            if ( !p ) return nullptr;
            node_t* n = check_ours( p, where );
            if ( !n ) return nullptr;
            uint32_t prev = OWNER_FREE;
            if ( !n->owner.compare_exchange_strong( prev, who, std::memory_order_relaxed, std::memory_order_relaxed )) {
                violation( "C21", "node-handed-out-twice:" + variant,
                           "get() returned node " + std::to_string( n->idx ) + " to holder " + std::to_string( who ) + " while holder " + std::to_string( prev )
                           + " had obtained it and not put it back (" + where + ")",
                           "{" + ctx() + ",\"node\":" + std::to_string( n->idx ) + ",\"getter\":" + std::to_string( who ) + ",\"current_owner\":" + std::to_string( prev )
                           + ",\"where\":" + jstr( where ) + "}" );
                return nullptr;     // the node belongs to the other holder
            }
            uint64_t seen = payload_read( &n->pay );
            uint64_t want = n->shadow.load( std::memory_order_relaxed );
            if ( seen != want )
                violation( "C21", "payload-not-from-last-put:" + variant,
                           "node " + std::to_string( n->idx ) + " obtained by get() does not carry the payload written before its last put()",
                           "{" + ctx() + ",\"node\":" + std::to_string( n->idx ) + ",\"seen\":" + std::to_string( seen ) + ",\"expected\":" + std::to_string( want ) + "}" );
            return n;
        }

        void worker( unsigned tid )
        {
            ThreadOut& o = out[tid];
            uint32_t who = tid + 1;
            std::vector<node_t*> held;
            for ( uint32_t i : initial[tid] ) held.push_back( &nodes[i] );
            Rng rng( mix64( run_seed ) ^ mix64( 0xF00D + tid ));
            bar.wait();
            cdsv_rt_thread_begin( tid );
            for ( unsigned i = 0; i < ops; ++i ) {
                bool get = held.empty() || ( held.size() < cap[tid] && rng.chance( 1, 2 ));
                uint64_t s0 = cdsv_rt_my_steps();
                if ( get ) {
                    bool null_result = false;
                    node_t* n = do_get( who, "worker", null_result );
                    uint64_t d = cdsv_rt_my_steps() - s0;
                    ++o.gets;
                    if ( d > cal.max_get ) ++o.cget;
                    if ( null_result ) ++o.nulls;
                    if ( n ) {
                        uint32_t lp = n->last_putter.load( std::memory_order_relaxed );
                        if ( lp != who ) ++o.cross;
                        held.push_back( n );
                    }
                }
                else {
                    unsigned k = rng.below( unsigned( held.size()));
                    node_t* n = held[k]; held[k] = held.back(); held.pop_back();
                    do_put( n, who );
                    uint64_t d = cdsv_rt_my_steps() - s0;
                    ++o.puts;
                    if ( d > cal.max_put ) ++o.cput;
                    else if ( d < cal.min_put ) ++o.dput;
                }
            }
            o.steps = cdsv_rt_my_steps();
            cdsv_rt_thread_end();
            for ( node_t* n : held ) o.held.push_back( n->idx );
        }
    };

    template <class FL>
    void one_run( Crew& crew, std::string const& variant, Calib const& cal, uint64_t run_index, Totals& tot, PropStats& ps )
    {
        typedef Node<FL> node_t;
        Run<FL> r;
        r.variant = variant;
        r.cal = cal;
        r.run_index = run_index;
        r.run_seed = mix64( mix64( args().seed ) ^ mix64( std::hash<std::string>()( variant )) ^ ( run_index * 0x9E3779B97F4A7C15ull ));
        Rng rng( r.run_seed );
        r.T = rng.range( 2, 4 );
        r.N = rng.chance( 1, 3 ) ? rng.range( 1, 2 ) : rng.range( 1, 8 );
        r.ops = rng.chance( 1, 4 ) ? rng.range( 100, 300 ) : rng.range( 6, 80 );
        r.nodes.reset( new node_t[r.N] );
        for ( unsigned i = 0; i < r.N; ++i ) r.nodes[i].idx = i;
        for ( unsigned t = 0; t < r.T; ++t ) r.cap[t] = rng.range( 1, 3 );
        // initial distribution: each node starts on the list or in the hands of a worker
        unsigned on_list = 0;
        for ( unsigned i = 0; i < r.N; ++i ) {
            unsigned t = rng.below( r.T * 2 );
            if ( t < r.T && r.initial[t].size() < r.cap[t] ) {
                r.initial[t].push_back( i );
                r.nodes[i].owner.store( t + 1, std::memory_order_relaxed );
            }
            else {
                r.do_put( &r.nodes[i], OWNER_MAIN );
                ++on_list;
            }
        }
        unsigned noise = unsigned( rng.below( 8 ));
        unsigned stalls = rng.below( 4 );
        cdsv_rt_configure( r.run_seed, noise, stalls, uint64_t( r.ops ) * 8 );
        r.bar.reset( r.T );
        crew.run( r.T, [&r]( unsigned t ) { r.worker( t ); } );

        // ---- quiescent check: every worker has returned to the crew (parked), holding the nodes it lists
        std::vector<uint8_t> state( r.N, 0 );    // 1 held by a worker, 2 drained
        unsigned held_total = 0;
        for ( unsigned t = 0; t < r.T; ++t )
            for ( uint32_t i : r.out[t].held ) {
                if ( state[i] ) harness_failure( "freelist: two workers list the same node as held" );
                state[i] = 1; ++held_total;
            }
        std::vector<node_t*> drained;
        bool ok = true;
        for ( unsigned guard = 0; guard < r.N * 2 + 4; ++guard ) {
            bool null_result = false;
            node_t* n = r.do_get( OWNER_MAIN, "quiescent-drain", null_result );
            if ( null_result ) break;
            if ( !n ) { ok = false; continue; }      // violation already reported (held by a worker / drained twice)
            state[n->idx] = 2;
            drained.push_back( n );
        }
        for ( unsigned i = 0; i < r.N; ++i ) {
            if ( state[i] == 0 ) {
                ok = false;
                violation( "C21", "node-lost:" + variant,
                           "node " + std::to_string( i ) + " was put back and is held by nobody, but draining the quiescent list with get() did not yield it",
                           "{" + r.ctx() + ",\"node\":" + std::to_string( i ) + ",\"held_by_workers\":" + std::to_string( held_total ) + ",\"drained\":" + std::to_string( drained.size())
                           + ",\"owner_word\":" + std::to_string( r.nodes[i].owner.load()) + ",\"last_putter\":" + std::to_string( r.nodes[i].last_putter.load()) + "}" );
            }
        }
        // put them back, drain again: the same number must come out
        for ( node_t* n : drained ) r.do_put( n, OWNER_MAIN );
        size_t second = 0;
        for ( unsigned guard = 0; guard < r.N * 2 + 4; ++guard ) {
            bool null_result = false;
            node_t* n = r.do_get( OWNER_MAIN, "quiescent-redrain", null_result );
            if ( null_result ) break;
            if ( n ) ++second;
        }
        if ( ok && second != drained.size()) {
            ok = false;
            violation( "C21", "node-lost-after-putback:" + variant,
                       "after putting the " + std::to_string( drained.size()) + " drained nodes back (single thread) only " + std::to_string( second ) + " could be obtained again",
                       "{" + r.ctx() + ",\"put_back\":" + std::to_string( drained.size()) + ",\"obtained_again\":" + std::to_string( second ) + "}" );
        }
        r.fl.clear( []( typename FL::node* ) {} );

        // ---- evidence
        uint64_t gets = 0, puts = 0, nulls = 0, cget = 0, cput = 0, dput = 0, cross = 0;
        uint64_t fp = mix64( std::hash<std::string>()( variant )) ^ mix64( r.T * 16 + r.N );
        for ( unsigned t = 0; t < r.T; ++t ) {
            ThreadOut& o = r.out[t];
            gets += o.gets; puts += o.puts; nulls += o.nulls; cget += o.cget; cput += o.cput; dput += o.dput; cross += o.cross;
            fp = mix64( fp ^ ( log2_bucket( o.gets ) * 64 + log2_bucket( o.puts )) ^ ( uint64_t( o.held.size()) << 16 ));
        }
        fp = mix64( fp ^ ( log2_bucket( cget ) | ( log2_bucket( cput ) << 6 ) | ( log2_bucket( dput ) << 12 ) | ( log2_bucket( nulls ) << 18 ) | ( log2_bucket( cross ) << 24 )
                   | ( uint64_t( drained.size()) << 30 )));
        bool nontrivial = ( cget + cput + dput ) > 0;
        ++tot.runs; tot.ops += gets + puts; tot.gets += gets; tot.puts += puts; tot.nulls += nulls; tot.cget += cget; tot.cput += cput; tot.dput += dput; tot.cross += cross;
        tot.drained += drained.size(); tot.held += held_total;
        if ( nontrivial ) { ++tot.nontrivial; ps.add_fp( fp ); }
        if ( nontrivial && cross && ps.need_sample( 4 ) && ( run_index % 7 ) == 3 ) {
            std::string ops = "[";
            for ( unsigned t = 0; t < r.T; ++t ) {
                if ( t ) ops += ",";
                ops += "{\"get\":" + std::to_string( r.out[t].gets ) + ",\"put\":" + std::to_string( r.out[t].puts ) + ",\"get_null\":" + std::to_string( r.out[t].nulls )
                     + ",\"max_hold\":" + std::to_string( r.cap[t] ) + ",\"holds_at_end\":" + std::to_string( r.out[t].held.size())
                     + ",\"library_atomic_ops\":" + std::to_string( r.out[t].steps ) + "}";
            }
            ops += "]";
            ps.add_sample( "{" + r.ctx() + ",\"noise_class\":" + std::to_string( noise ) + ",\"targeted_stalls\":" + std::to_string( stalls ) + ",\"per_thread\":" + ops
                           + ",\"gets_with_retry_loop\":" + std::to_string( cget ) + ",\"puts_with_retry_loop\":" + std::to_string( cput )
                           + ",\"puts_deferred_to_a_getter_holding_a_reference\":" + std::to_string( dput ) + ",\"nodes_obtained_from_another_thread\":" + std::to_string( cross )
                           + ",\"quiescent\":{\"held_by_workers\":" + std::to_string( held_total ) + ",\"drained\":" + std::to_string( drained.size())
                           + ",\"drained_again_after_putback\":" + std::to_string( second ) + ",\"exact\":" + ( ok ? "true" : "false" ) + "}}" );
        }
    }

#if defined(__SANITIZE_THREAD__)
    const double BUDGET_QUICK_S = 14.0;
#else
    const double BUDGET_QUICK_S = 18.0;
#endif
    double g_deadline_step = 0, g_t0 = 0;
    HangGuard* g_guard = nullptr;
    unsigned g_variant_no = 0;

    template <class FL>
    void run_variant( std::string const& name, uint64_t runs )
    {
        unsigned my_no = g_variant_no++;
        if ( !args().want( name )) return;
        set_variant( name );
        PropStats& ps = prop( "C21" );
        Calib cal = calibrate<FL>( name );
        Totals tot;
        std::unique_ptr<Crew> crew;
        double deadline = g_t0 + g_deadline_step * ( my_no + 1 );
        uint64_t i = 0;
        for ( ; i < runs; ++i ) {
            if ( i && i % 10 == 0 && wall_now() > deadline ) break;     // wall-clock budget of the tier (only cuts the number of runs)
            if ( i % 40 == 0 ) { crew.reset(); crew.reset( new Crew( 4 )); }   // fresh OS threads (and thread ids) now and then
            one_run<FL>( *crew, name, cal, i, tot, ps );
            g_guard->tick();
        }
        if ( i < runs ) ps.add_extra( "runs_not_made_because_of_the_wall_clock_budget", runs - i );
        ps.evaluations.fetch_add( tot.runs );
        ps.operations.fetch_add( tot.ops );
        ps.nontrivial.fetch_add( tot.nontrivial );
        ps.add_variant( name, tot.runs );
        ps.add_extra( "get_calls", tot.gets );
        ps.add_extra( "put_calls", tot.puts );
        ps.add_extra( "get_returned_null", tot.nulls );
        ps.add_extra( "nodes_obtained_from_another_thread", tot.cross );
        ps.add_extra( "quiescent_nodes_drained", tot.drained );
        ps.add_extra( "quiescent_nodes_held_by_workers", tot.held );
        ps.add_mech( "get_took_retry_loop(more atomic ops than any single-threaded get)", tot.cget );
        ps.add_mech( "put_took_retry_loop(more atomic ops than any single-threaded put)", tot.cput );
        ps.add_mech( "put_deferred:refcount_nonzero,re-add_left_to_getter(FreeList only)", tot.dput );
        ps.add_extra( "calibrated_max_atomic_ops_get:" + name, cal.max_get );
        ps.add_extra( "calibrated_max_atomic_ops_put:" + name, cal.max_put );
        ps.add_extra( "calibrated_min_atomic_ops_put:" + name, cal.min_put );
        ps.add_extra( "runs_with_contention:" + name, tot.nontrivial );
        ps.add_extra( "put_deferred:" + name, tot.dput );
        ps.add_extra( "retry_loops:" + name, tot.cget + tot.cput );
    }
}

int main( int argc, char** argv )
{
    parse_args( argc, argv );
    limit_memory_gb( 8 );
    prop( "C21" ).rule = "one evaluation = one seeded run: 2-4 perturbed threads do get/put on one free list holding 1-8 nodes (each thread holds at most 1-3), then park; "
                         "the main thread drains the quiescent list and compares it with the nodes held (exact), puts them back and drains again; "
                         "operations = get()+put() calls of the workers; non-trivial = runs in which at least one call executed more library atomic operations than any "
                         "single-threaded call can (a CAS-retry loop ran) or a FreeList::put found the reference count non-zero (fewer atomic operations than any single-threaded put); "
                         "distinct_nontrivial = distinct hashes of (variant, threads, nodes, per-thread log2(get), log2(put), nodes held at the end, log2 of each contention counter, drained count) among those runs";
    uint64_t runs = args().n( 700, 14000 );
#if defined(__SANITIZE_THREAD__)
    runs = args().n( 250, 5000 );
#elif defined(__SANITIZE_ADDRESS__)
    runs = args().n( 500, 10000 );
#endif
    HangGuard guard( "freelist", 12.0 );
    g_guard = &guard;
    g_t0 = wall_now();
    g_deadline_step = ( args().thorough ? 360.0 : BUDGET_QUICK_S ) * ( args().scale > 1 ? args().scale : 1.0 ) / 6.0;   // --scale < 1 cuts the planned runs, not the budget
    typedef cds::intrusive::FreeList FL;
    typedef cds::intrusive::TaggedFreeList TFL;
    run_variant< FL >( "FreeList", runs );
    run_variant< TFL >( "TaggedFreeList", runs );
    run_variant< cds::intrusive::CachedFreeList< FL > >( "CachedFreeList<FreeList,16>", runs );
    run_variant< cds::intrusive::CachedFreeList< FL, 4 > >( "CachedFreeList<FreeList,4>", runs );
    run_variant< cds::intrusive::CachedFreeList< TFL > >( "CachedFreeList<TaggedFreeList,16>", runs );
    run_variant< cds::intrusive::CachedFreeList< TFL, 4, 8 > >( "CachedFreeList<TaggedFreeList,4,pad8>", runs );
    g_guard = nullptr;
    return finish( "freelist" );
}
