// C04 / C05: user-space RCU flavours (general_instant, general_buffered, general_threaded, signal_buffered).
//  - reader monitor (C04): an object loaded from a shared slot INSIDE a read-side critical section (nesting 1..3) is read
//    repeatedly until the outermost access_unlock; the DISPOSED mark there is a violation. Writers unlink by exchange and then
//    either retire (retire_ptr overloads, batch_retire forms) or call synchronize() and dispose the object themselves
//    (tests "synchronize returns only after pre-existing readers left").
//  - ledger (C05): disposer calls per retired object: never > 1, exactly 1 after destruction of the gc<> singleton.
#include <cdsv/core.h>
#include <cdsv/smr.h>
#include <cds/urcu/general_instant.h>
#include <cds/urcu/general_buffered.h>
#include <cds/urcu/general_threaded.h>
#include <cds/urcu/signal_buffered.h>
#include <cds/sync/spinlock.h>
#include <memory>
#include <mutex>

namespace {
    using namespace cdsv;

    enum : uint32_t { ST_LIVE = 0x11A1A1A1u, ST_RETIRED = 0x22B2B2B2u, ST_DISPOSED = 0xDEADDEADu };

    struct Obj {
        std::atomic<uint32_t> state;
        uint32_t id;
        uint32_t heap;
        uint32_t pad;
    };
    struct Ledger {
        std::atomic<uint8_t> retired{ 0 };
        std::atomic<uint8_t> disposed{ 0 };
    };
    struct Run {
        std::string variant;
        std::unique_ptr<Ledger[]> ledger;
        std::unique_ptr<Obj[]> arena;
        size_t max_objs = 0;
        std::atomic<uint32_t> next_id{ 0 };
        bool heap_half = false;
        std::atomic<uint64_t> sections{ 0 }, reads{ 0 }, reads_after_unlink{ 0 }, retires{ 0 }, sync_disposed{ 0 }, disposed_total{ 0 }, churns{ 0 }, batches{ 0 }, nested{ 0 };
    };
    Run* g_run = nullptr;

    Obj* alloc_obj()
    {
        Run& r = *g_run;
        uint32_t id = r.next_id.fetch_add( 1, std::memory_order_relaxed );
        if ( id >= r.max_objs ) return nullptr;
        bool heap = r.heap_half && ( id & 1 );
        Obj* o = heap ? new Obj : &r.arena[id];
        o->id = id; o->heap = heap;
        o->state.store( ST_LIVE, std::memory_order_release );
        return o;
    }

    void dispose_fn( void* p )
    {
        Run& r = *g_run;
        Obj* o = static_cast<Obj*>( p );
        uint32_t id = o->id;
        if ( id >= r.max_objs ) { violation( "C05", "dispose-garbage:" + r.variant, "disposer called with a pointer that is not a harness object" ); return; }
        Ledger& l = r.ledger[id];
        uint8_t c = l.disposed.fetch_add( 1, std::memory_order_acq_rel );
        if ( c != 0 )
            violation( "C05", "double-dispose:" + r.variant, "object " + std::to_string( id ) + " given to its disposer " + std::to_string( c + 1 ) + " times",
                       "{\"object\":" + std::to_string( id ) + ",\"dispose_calls\":" + std::to_string( c + 1 ) + "}" );
        if ( !l.retired.load( std::memory_order_acquire ))
            violation( "C05", "dispose-not-retired:" + r.variant, "object " + std::to_string( id ) + " disposed although it was never retired" );
        r.disposed_total.fetch_add( 1, std::memory_order_relaxed );
        if ( c == 0 ) {
            o->state.store( ST_DISPOSED, std::memory_order_release );
            if ( o->heap ) delete o;
        }
    }
    struct DisposerF { void operator()( Obj* p ) const { dispose_fn( p ); } };

    inline bool check_in_section( Obj* p, unsigned depth )
    {
        Run& r = *g_run;
        uint32_t s = p->state.load( std::memory_order_acquire );
        r.reads.fetch_add( 1, std::memory_order_relaxed );
        if ( s == ST_LIVE ) return true;
        if ( s == ST_RETIRED ) { r.reads_after_unlink.fetch_add( 1, std::memory_order_relaxed ); return true; }
        violation( "C04", "reader-saw-disposed:" + r.variant,
                   std::string( "object obtained inside a read-side critical section carries the " ) + ( s == ST_DISPOSED ? "DISPOSED" : "garbage" )
                   + " mark before the section's outermost access_unlock (nesting depth at the read: " + std::to_string( depth ) + ")",
                   "{\"variant\":" + jstr( r.variant ) + ",\"state\":" + std::to_string( s ) + ",\"depth\":" + std::to_string( depth ) + "}" );
        return false;
    }

    struct Cfg {
        std::string name;
        unsigned threads = 3;
        unsigned slots = 2;
        uint64_t ops = 50000;
        size_t capacity = 0;
        bool has_force = false;
    };

    template <class RCU>
    struct Workload {
        Cfg cfg;
        Run& run;
        std::unique_ptr<atomics::atomic<Obj*>[]> slots;
        Barrier bar;
        std::atomic<bool> exhausted{ false };

        Workload( Cfg const& c, Run& r ) : cfg( c ), run( r ), slots( new atomics::atomic<Obj*>[c.slots] ), bar( c.threads + 1 )
        {
            for ( unsigned i = 0; i < c.slots; ++i ) slots[i].store( nullptr, std::memory_order_relaxed );
        }

        void reader( Rng& rng )
        {
            unsigned depth = rng.chance( 1, 3 ) ? rng.range( 2, 3 ) : 1;
            if ( depth > 1 ) run.nested.fetch_add( 1, std::memory_order_relaxed );
            run.sections.fetch_add( 1, std::memory_order_relaxed );
            RCU::access_lock();
            Obj* p = slots[rng.below( cfg.slots )].load( atomics::memory_order_acquire );
            unsigned cur = 1;
            unsigned n = rng.chance( 1, 8 ) ? rng.range( 20, 80 ) : rng.range( 1, 6 );
            for ( unsigned i = 0; i < n; ++i ) {
                if ( p && !check_in_section( p, cur )) break;
                cds_verif_point( 5, nullptr );
                // nested sections open and close in the middle; the outermost stays
                if ( cur < depth && rng.chance( 1, 2 )) { RCU::access_lock(); ++cur; }
                else if ( cur > 1 && rng.chance( 1, 2 )) { RCU::access_unlock(); --cur; }
                if ( rng.chance( 1, 64 )) sched_yield();
            }
            if ( p ) check_in_section( p, cur );
            while ( cur > 1 ) { RCU::access_unlock(); --cur; if ( p ) check_in_section( p, cur ); }
            RCU::access_unlock();
        }

        Obj* unlink_one( Rng& rng )
        {
            Obj* n = alloc_obj();
            if ( !n ) { exhausted.store( true ); return nullptr; }
            Obj* old = slots[rng.below( cfg.slots )].exchange( n, atomics::memory_order_acq_rel );
            if ( old ) {
                run.ledger[old->id].retired.store( 1, std::memory_order_release );
                old->state.store( ST_RETIRED, std::memory_order_release );
                run.retires.fetch_add( 1, std::memory_order_relaxed );
            }
            return old;
        }

        void writer( Rng& rng )
        {
            unsigned form = rng.below( 16 );
            if ( form < 5 ) {
                Obj* old = unlink_one( rng );
                if ( old ) RCU::retire_ptr( old, dispose_fn );
            }
            else if ( form < 8 ) {
                Obj* old = unlink_one( rng );
                if ( old ) RCU::template retire_ptr<DisposerF>( old );
            }
            else if ( form < 9 ) {
                Obj* old = unlink_one( rng );
                if ( old ) { cds::urcu::retired_ptr rp( old, dispose_fn ); RCU::retire_ptr( rp ); }
            }
            else if ( form < 12 ) {
                // batch forms: empty, single, long (1 .. 4 x capacity)
                unsigned k = rng.chance( 1, 8 ) ? 0 : ( rng.chance( 1, 3 ) ? 1 : rng.range( 2, unsigned( 4 * ( cfg.capacity ? cfg.capacity : 4 ))));
                if ( k > 64 ) k = 64;
                std::vector<cds::urcu::retired_ptr> v;
                for ( unsigned i = 0; i < k; ++i ) { Obj* old = unlink_one( rng ); if ( old ) v.push_back( cds::urcu::retired_ptr( old, dispose_fn )); }
                run.batches.fetch_add( 1, std::memory_order_relaxed );
                if ( rng.chance( 1, 2 )) RCU::batch_retire( v.begin(), v.end());
                else {
                    size_t i = 0;
                    RCU::batch_retire( [&v, &i]() -> cds::urcu::retired_ptr { return i < v.size() ? v[i++] : cds::urcu::retired_ptr(); } );
                }
            }
            else if ( form < 15 ) {
                // synchronize(), then the writer disposes the unlinked object itself
                Obj* old = unlink_one( rng );
                if ( old ) {
                    RCU::synchronize();
                    run.sync_disposed.fetch_add( 1, std::memory_order_relaxed );
                    dispose_fn( old );
                }
            }
            else {
                if ( rng.chance( 1, 2 )) RCU::synchronize(); else RCU::force_dispose();
            }
        }

        void child_thread( uint64_t seed )
        {
            cds::threading::Manager::attachThread();
            cdsv_rt_thread_begin( 60 );
            Rng rng( seed );
            unsigned k = rng.range( 1, 12 );
            for ( unsigned i = 0; i < k && !exhausted.load(); ++i ) { if ( rng.chance( 1, 2 )) reader( rng ); else writer( rng ); }
            cdsv_rt_thread_end();
            cds::threading::Manager::detachThread();
        }

        void worker( unsigned tid )
        {
            cds::threading::Manager::attachThread();
            bar.wait();
            cdsv_rt_thread_begin( tid );
            Rng rng( mix64( args().seed ) ^ mix64( std::hash<std::string>()( run.variant )) ^ ( tid + 1 ));
            unsigned rw = 1 + ( tid + unsigned( args().seed )) % 3;   // reader weight 1..3 of 4
            for ( uint64_t i = 0; i < cfg.ops && !exhausted.load( std::memory_order_relaxed ); ++i ) {
                unsigned x = rng.below( 400 );
                if ( x == 0 ) {
                    run.churns.fetch_add( 1, std::memory_order_relaxed );
                    cdsv_rt_thread_end();
                    cds::threading::Manager::detachThread();
                    uint64_t s = rng.next();
                    std::thread t( [this, s]() { child_thread( s ); } );
                    t.join();
                    cds::threading::Manager::attachThread();
                    cdsv_rt_thread_begin( tid );
                }
                else if ( x % 4 < rw ) reader( rng );
                else writer( rng );
            }
            cdsv_rt_thread_end();
            bar.wait();
            cds::threading::Manager::detachThread();
        }

        void run_threads()
        {
            std::vector<std::thread> th;
            for ( unsigned i = 0; i < cfg.threads; ++i ) th.emplace_back( [this, i]() { worker( i ); } );
            bar.wait();
            bar.wait();
            for ( auto& t : th ) t.join();
        }
    };

    template <class RCU, class Make>
    void run_cfg( Cfg cfg, Make make )
    {
        if ( !args().want( cfg.name )) return;
        set_variant( cfg.name );
        PropStats& p4 = prop( "C04" );
        PropStats& p5 = prop( "C05" );
        Run run;
        run.variant = cfg.name;
#ifdef __SANITIZE_ADDRESS__
        run.heap_half = true;
#endif
        run.max_objs = size_t( cfg.ops ) * cfg.threads * 6 + 100000;
        run.ledger.reset( new Ledger[run.max_objs] );
        run.arena.reset( new Obj[run.max_objs] );
        g_run = &run;
        {
            std::unique_ptr<RCU> rcu( make());
            cds::threading::Manager::attachThread();
            cdsv_rt_configure( mix64( args().seed ) ^ std::hash<std::string>()( cfg.name ), unsigned(( args().seed + std::hash<std::string>()( cfg.name )) % 8 ), 2, cfg.ops * 40 );
            Workload<RCU> w( cfg, run );
            w.run_threads();
            for ( unsigned i = 0; i < cfg.slots; ++i ) {
                Obj* o = w.slots[i].load( std::memory_order_relaxed );
                w.slots[i].store( nullptr, std::memory_order_relaxed );
                if ( o && o->heap ) delete o;
            }
            cds::threading::Manager::detachThread();
            // gc<> destructor = Destruct(true): must drain the buffer / stop the disposer thread after a final pass
        }
        uint32_t n = uint32_t( std::min<uint64_t>( run.next_id.load(), run.max_objs ));
        uint64_t bad = 0;
        for ( uint32_t id = 0; id < n; ++id ) {
            uint8_t r = run.ledger[id].retired.load(), d = run.ledger[id].disposed.load();
            if ( r && d != 1 ) {
                if ( bad++ < 3 )
                    violation( "C05", ( d == 0 ? "not-disposed-at-destruction:" : "multi-dispose-at-destruction:" ) + cfg.name,
                               "retired object " + std::to_string( id ) + " has been given to its disposer " + std::to_string( d ) + " time(s) after destruction of the RCU singleton",
                               "{\"variant\":" + jstr( cfg.name ) + ",\"object\":" + std::to_string( id ) + ",\"dispose_calls\":" + std::to_string( d ) + "}" );
            }
            if ( !r && d && bad++ < 3 )
                violation( "C05", "disposed-never-retired:" + cfg.name, "object " + std::to_string( id ) + " was disposed but never retired" );
        }
        p4.evaluations.fetch_add( run.sections.load());
        p4.operations.fetch_add( run.reads.load());
        p4.nontrivial.fetch_add( run.reads_after_unlink.load());
        p4.add_extra( "read_side_sections", run.sections.load());
        p4.add_extra( "nested_sections", run.nested.load());
        p4.add_extra( "reads_inside_sections", run.reads.load());
        p4.add_extra( "reads_of_objects_unlinked_during_the_section", run.reads_after_unlink.load());
        p4.add_extra( "objects_disposed_by_writer_after_synchronize", run.sync_disposed.load());
        p4.add_extra( "retires", run.retires.load());
        p4.add_extra( "thread_churns", run.churns.load());
        p4.add_variant( cfg.name, run.sections.load());
        if ( run.reads_after_unlink.load()) {
            uint64_t c = run.reads_after_unlink.load(); unsigned lg = 0; while ( c >>= 1 ) ++lg;
            for ( unsigned i = 0; i <= lg; ++i ) p4.add_fp( mix64( std::hash<std::string>()( cfg.name )) ^ i );
        }
        if ( p4.need_sample( 4 ))
            p4.add_sample( "{\"variant\":" + jstr( cfg.name ) + ",\"sections\":" + std::to_string( run.sections.load()) + ",\"nested\":" + std::to_string( run.nested.load())
                           + ",\"reads\":" + std::to_string( run.reads.load()) + ",\"reads_of_objects_unlinked_during_the_section\":" + std::to_string( run.reads_after_unlink.load())
                           + ",\"disposed_marks_seen\":0}" );
        p5.evaluations.fetch_add( run.retires.load());
        p5.operations.fetch_add( run.retires.load() + run.disposed_total.load());
        p5.nontrivial.fetch_add( run.retires.load());
        p5.add_extra( "retired_objects", run.retires.load());
        p5.add_extra( "disposer_calls", run.disposed_total.load());
        p5.add_extra( "batch_retire_calls", run.batches.load());
        p5.add_extra( "thread_churns", run.churns.load());
        p5.add_variant( cfg.name, run.retires.load());
        {
            uint64_t c = run.retires.load(); unsigned lg = 0; while ( c >>= 1 ) ++lg;
            for ( unsigned i = 0; i <= lg; ++i ) p5.add_fp( mix64( std::hash<std::string>()( cfg.name )) ^ i );
        }
        if ( p5.need_sample( 6 ))
            p5.add_sample( "{\"variant\":" + jstr( cfg.name ) + ",\"retired\":" + std::to_string( run.retires.load()) + ",\"disposer_calls\":" + std::to_string( run.disposed_total.load())
                           + ",\"all_disposed_exactly_once_after_singleton_destruction\":" + ( bad ? "false" : "true" ) + "}", 6 );
        g_run = nullptr;
    }

    typedef cds::urcu::epoch_retired_ptr ERP;
    typedef cds::container::VyukovMPMCCycleQueue<ERP> BufMPMC;
    typedef cds::container::VyukovMPSCCycleQueue<ERP> BufMPSC;

    template <class RCU> RCU* make_plain() { return new RCU(); }
}

int main( int argc, char** argv )
{
    parse_args( argc, argv );
    limit_memory_gb( 8 );
    prop( "C04" ).rule = "one evaluation = one read-side critical section (nesting 1-3, inner sections opened/closed in the middle) in which an object loaded inside the section is re-read 1-80 times "
                         "while writers unlink + retire / batch_retire / synchronize-then-dispose and threads attach/detach; non-trivial = reads that found the object already unlinked (retired) before the outermost unlock; "
                         "distinct_nontrivial = number of (configuration, log2 bucket of such reads) pairs (conservative)";
    prop( "C05" ).rule = "one evaluation = one retired object followed through the ledger to its disposer call; checked inside the disposer (never twice) and after destruction of the gc<> singleton (exactly once); "
                         "distinct_nontrivial = number of (configuration, log2 bucket of retired objects) pairs (conservative)";
    LibInit lib;
    uint64_t ops = args().n( 40000, 800000 );
    using namespace cds::urcu;
    typedef cds::sync::spin Spin;
    typedef cds::backoff::pause Pause;
    typedef cds::backoff::Default Dflt;
    unsigned s = unsigned( args().seed );

    { typedef gc< general_instant<std::mutex, Dflt> > R; Cfg c; c.name = "general_instant<std::mutex,Default>"; c.ops = ops; c.threads = 2 + s % 3; c.slots = 1 + s % 2; run_cfg<R>( c, []() { return new R(); } ); }
    { typedef gc< general_instant<Spin, Pause> > R; Cfg c; c.name = "general_instant<spin,pause>"; c.ops = ops; c.threads = 2 + ( s + 1 ) % 3; c.slots = 2; run_cfg<R>( c, []() { return new R(); } ); }
    for ( size_t cap : { size_t( 2 ), size_t( 3 ), size_t( 4 ), size_t( 8 ), size_t( 256 ) } ) {
        { typedef gc< general_buffered<BufMPMC, std::mutex, Dflt> > R; Cfg c; c.name = "general_buffered<std::mutex,Default,cap=" + std::to_string( cap ) + ">"; c.ops = ops; c.capacity = cap;
          c.threads = 2 + ( s + unsigned( cap )) % 3; c.slots = 1 + unsigned( cap ) % 2; run_cfg<R>( c, [cap]() { return new R( cap ); } ); }
        { typedef gc< general_buffered<BufMPMC, Spin, Pause> > R; Cfg c; c.name = "general_buffered<spin,pause,cap=" + std::to_string( cap ) + ">"; c.ops = ops; c.capacity = cap;
          c.threads = 2 + ( s + unsigned( cap ) + 1 ) % 3; c.slots = 2; run_cfg<R>( c, [cap]() { return new R( cap ); } ); }
        { typedef gc< general_threaded<BufMPSC, std::mutex, dispose_thread<BufMPSC>, Dflt> > R; Cfg c; c.name = "general_threaded<std::mutex,Default,cap=" + std::to_string( cap ) + ">"; c.ops = ops; c.capacity = cap;
          c.threads = 2 + ( s + unsigned( cap ) + 2 ) % 3; c.slots = 1 + unsigned( cap ) % 2; c.has_force = true; run_cfg<R>( c, [cap]() { return new R( cap ); } ); }
#ifdef CDS_URCU_SIGNAL_HANDLING_ENABLED
        { typedef gc< signal_buffered<BufMPMC, std::mutex, Dflt> > R; Cfg c; c.name = "signal_buffered<std::mutex,Default,cap=" + std::to_string( cap ) + ">"; c.ops = ops / 2; c.capacity = cap;
          c.threads = 2 + ( s + unsigned( cap )) % 3; c.slots = 2; run_cfg<R>( c, [cap]() { return new R( cap ); } ); }
#endif
    }
    return finish( "smr_rcu" );
}
