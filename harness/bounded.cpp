// C07: bounded Vyukov queue is a linearizable bounded FIFO (value, intrusive, single-consumer forms).
// C08: SegmentedQueue conserves items and bounds reordering by the quasi factor.
#include <cdsv/seqdrv.h>
#include <cdsv/oracles.h>
#include <cdsv/smr.h>
#include <cds/container/vyukov_mpmc_cycle_queue.h>
#include <cds/intrusive/vyukov_mpmc_cycle_queue.h>
#include <cds/container/segmented_queue.h>
#include <cds/intrusive/segmented_queue.h>

namespace {
    using namespace cdsv;
    namespace cc = cds::container;
    namespace ci = cds::intrusive;

    struct Val {
        int64_t uid = 0;
        uint64_t pay = 0;
        Val() {}
        explicit Val( int64_t u ) : uid( u ), pay( mix64( uint64_t( u ))) {}
        Val( Val const& o ) { payload_copy( reinterpret_cast<uint64_t*>( this ), reinterpret_cast<uint64_t const*>( &o ), 2 ); }
        Val& operator=( Val const& o ) { payload_copy( reinterpret_cast<uint64_t*>( this ), reinterpret_cast<uint64_t const*>( &o ), 2 ); return *this; }
        bool good() const { return pay == mix64( uint64_t( uid )); }
    };
    int64_t bad_uid( Val const& v ) { return ( int64_t( 1 ) << 62 ) | ( v.uid & 0xffffff ); }
    // The cell of a Vyukov queue is cleaned (opt::value_cleaner; by default the destructor of a non-trivially-destructible value) after
    // the value has been handed out and before the cell is given back to producers. Both cleaners below wipe the value, so a cleaner
    // that runs on a cell a producer already owns again shows up as a corrupt element.
    struct ValD: Val {
        ValD() {}
        explicit ValD( int64_t u ) : Val( u ) {}
        ValD( ValD const& o ) : Val( o ) {}
        ValD& operator=( ValD const& o ) { Val::operator=( o ); return *this; }
        ~ValD() { uid = -99; pay = 0xDEADDEADDEADDEADull; poison_barrier(); }
    };
    struct ResetCleaner { void operator()( Val& v ) const { v.uid = 0; v.pay = 0xC1EA4EDull; } };

    std::atomic<uint64_t> g_full{ 0 }, g_empty{ 0 }, g_pushed{ 0 };

    // ---------------------------------------------------------------- Vyukov, value form
    template <class Q, size_t Cap, class V = Val>
    struct VyAdapter: NoAttach {
        Q q;
        VyAdapter() : q( Cap ) {}
        int64_t capacity() { return int64_t( q.capacity()); }
        int64_t exec( int op, int64_t uid, int64_t, int64_t& )
        {
            switch ( op ) {
            case S_PUSH_BACK: {
                bool ok;
                switch ( uid % 3 ) {
                case 0: if ( uid & 4 ) { V t( uid ); ok = q.enqueue( t ); } else ok = q.enqueue( V( uid )); break;   // copy / move overloads
                case 1: if ( uid & 4 ) { V t( uid ); ok = q.push( t ); } else ok = q.push( V( uid )); break;
                default: ok = q.enqueue_with( [uid]( V& dst ) { dst = V( uid ); } ); break;
                }
                if ( ok ) g_pushed.fetch_add( 1, std::memory_order_relaxed ); else g_full.fetch_add( 1, std::memory_order_relaxed );
                return ok ? 1 : 0;
            }
            case S_POP_FRONT: {
                V v;
                bool ok = ( uid & 1 ) ? q.dequeue( v ) : q.dequeue_with( [&v]( V& src ) { v = src; } );
                if ( !ok ) { g_empty.fetch_add( 1, std::memory_order_relaxed ); return -1; }
                return v.good() ? v.uid : bad_uid( v );
            }
            }
            return -9;
        }
        void mechanisms( PropStats& ) {}
    };

    // single-consumer form: front() + pop_front()
    template <class Q, size_t Cap>
    struct VyScAdapter: NoAttach {
        Q q;
        VyScAdapter() : q( Cap ) {}
        int64_t capacity() { return int64_t( q.capacity()); }
        int64_t exec( int op, int64_t uid, int64_t, int64_t& )
        {
            switch ( op ) {
            case S_PUSH_BACK: {
                bool ok = q.enqueue( Val( uid ));
                if ( ok ) g_pushed.fetch_add( 1, std::memory_order_relaxed ); else g_full.fetch_add( 1, std::memory_order_relaxed );
                return ok ? 1 : 0;
            }
            case S_FRONT: {
                Val* p = q.front();
                if ( !p ) return -1;
                return p->good() ? p->uid : bad_uid( *p );
            }
            case S_POP_FRONT: {
                // the consumer looks at the oldest item and removes it: one recorded operation
                Val* p = q.front();
                if ( !p ) { g_empty.fetch_add( 1, std::memory_order_relaxed ); return -1; }   // empty at the instant of front(); pop_front() is not called
                int64_t id = p->good() ? p->uid : bad_uid( *p );
                bool ok = q.pop_front();
                if ( !ok ) return ( int64_t( 1 ) << 62 ) | 1;   // an item was visible to the only consumer but could not be removed
                return id;
            }
            }
            return -9;
        }
        void mechanisms( PropStats& ) {}
    };

    // ---------------------------------------------------------------- Vyukov, intrusive form (stores pointers)
    struct Item { Val v; };
    template <class Q, size_t Cap>
    struct VyIntrAdapter: NoAttach {
        Q q;
        std::unique_ptr<Item[]> arena;
        std::atomic<size_t> next{ 0 };
        static const size_t arena_size = 1 << 22;
        VyIntrAdapter() : q( Cap ), arena( new Item[arena_size] ) {}
        ~VyIntrAdapter() { while ( q.dequeue()) {} }
        int64_t capacity() { return int64_t( q.capacity()); }
        int64_t exec( int op, int64_t uid, int64_t, int64_t& )
        {
            switch ( op ) {
            case S_PUSH_BACK: {
                Item& it = arena[next.fetch_add( 1, std::memory_order_relaxed ) % arena_size];   // items are re-used only after 4M pushes
                it.v = Val( uid );
                bool ok = ( uid & 1 ) ? q.enqueue( it ) : q.push( it );
                if ( ok ) g_pushed.fetch_add( 1, std::memory_order_relaxed ); else g_full.fetch_add( 1, std::memory_order_relaxed );
                return ok ? 1 : 0;
            }
            case S_POP_FRONT: {
                Item* p = ( uid & 1 ) ? q.dequeue() : q.pop();
                if ( !p ) { g_empty.fetch_add( 1, std::memory_order_relaxed ); return -1; }
                return p->v.good() ? p->v.uid : bad_uid( p->v );
            }
            }
            return -9;
        }
        void mechanisms( PropStats& ) {}
    };

    template <class Adapter>
    void run_vyukov( std::string const& name, bool single_consumer )
    {
        if ( !args().want( name )) return;
        Rng vr( args().seed ^ std::hash<std::string>()( name ));
        for ( int seg = 0; seg < 2; ++seg ) {
            SeqPlan p; p.prop = "C07"; p.variant = name + ( seg ? "/segments" : "/rounds" );
            p.threads = vr.range( 2, 4 );
            if ( seg ) { p.min_ops = 8; p.max_ops = 30; p.rounds = args().n( 800, 20000 ); }
            else { p.min_ops = 1; p.max_ops = 4; p.rounds = args().n( 8000, 200000 ); p.prefill_max = 3; }
            if ( single_consumer ) {
                p.single_consumer = true;
                p.weight[S_PUSH_BACK] = 10;
                p.weight_consumer[S_POP_FRONT] = 10; p.weight_consumer[S_FRONT] = 4; p.weight_consumer[S_PUSH_BACK] = 2;
            }
            else { p.weight[S_PUSH_BACK] = 11; p.weight[S_POP_FRONT] = 10; }
            p.drain_op = S_POP_FRONT;
            g_full = 0; g_empty = 0; g_pushed = 0;
            SeqDriver<Adapter, SeqModel> d( p );
            d.run();
            PropStats& ps = prop( "C07" );
            ps.add_mech( "vyukov.enqueue_full", g_full.load()); ps.add_mech( "vyukov.dequeue_empty", g_empty.load()); ps.add_mech( "vyukov.enqueued", g_pushed.load());
        }
    }

    template <class Buffer, class IC, class MM, class BO>
    struct vy_traits: cc::vyukov_queue::traits { typedef Buffer buffer; typedef IC item_counter; typedef MM memory_model; typedef BO back_off; };
    template <class Buffer, class IC, class MM, class BO, class Cleaner>
    struct vy_traits_cl: vy_traits<Buffer, IC, MM, BO> { typedef Cleaner value_cleaner; };
    template <class Buffer>
    struct vyi_traits: ci::vyukov_queue::traits { typedef Buffer buffer; typedef cds::atomicity::item_counter item_counter; };

    // ---------------------------------------------------------------- SegmentedQueue
    template <class Q, size_t QF>
    struct SegAdapter: Attach {
        Q q;
        SegAdapter() : q( QF ) {}
        int64_t capacity() { return -1; }
        int64_t exec( int op, int64_t uid, int64_t, int64_t& )
        {
            switch ( op ) {
            case S_PUSH_BACK: { Val t( uid ); return (( uid & 2 ) ? (( uid & 1 ) ? q.enqueue( t ) : q.push( t )) : (( uid & 1 ) ? q.enqueue( Val( uid )) : q.push( Val( uid )))) ? 1 : 0; }   // copy / move overloads of both synonyms
            case S_POP_FRONT: { Val v; if ( !q.dequeue( v )) return -1; return v.good() ? v.uid : bad_uid( v ); }
            }
            return -9;
        }
        void mechanisms( PropStats& ps )
        {
            auto const& st = q.statistics();
            ps.add_mech( "segq.onSegmentCreated", st.m_nCreateSegmentReq.get()); ps.add_mech( "segq.onSegmentDeleted", st.m_nDeleteSegmentReq.get());
            ps.add_mech( "segq.onPushContended", st.m_nPushContended.get()); ps.add_mech( "segq.onPopContended", st.m_nPopContended.get());
            ps.add_mech( "segq.onPopEmpty", st.m_nPopEmpty.get());
        }
    };
    template <class IC, class Lock>
    struct seg_traits: cc::segmented_queue::traits { typedef cc::segmented_queue::stat<> stat; typedef IC item_counter; typedef Lock lock_type; };

    template <class Adapter>
    void run_segq( std::string const& name )
    {
        if ( !args().want( name )) return;
        Rng vr( args().seed ^ std::hash<std::string>()( name ));
        int64_t qf;
        { Adapter probe; qf = int64_t( probe.q.quasi_factor()); }
        for ( int seg = 0; seg < 2; ++seg ) {
            SeqPlan p; p.prop = "C08"; p.variant = name + ( seg ? "/segments" : "/rounds" );
            p.threads = vr.range( 2, 4 );
            if ( seg ) { p.min_ops = 8; p.max_ops = 40; p.rounds = args().n( 1500, 40000 ); }
            else { p.min_ops = 1; p.max_ops = 5; p.rounds = args().n( 8000, 200000 ); p.prefill_max = unsigned( qf ) + 1; }
            p.weight[S_PUSH_BACK] = 10; p.weight[S_POP_FRONT] = 10;
            p.drain_op = S_POP_FRONT;
            p.custom_check = [qf]( std::vector<Op> const& h, int64_t ) { return segmented_oracle( h, qf ); };
            SeqDriver<Adapter, SeqModel> d( p );
            d.run();
        }
        prop( "C08" ).add_extra( "quasi_factor_seen_" + std::to_string( qf ), 1 );
    }
}

int main( int argc, char** argv )
{
    parse_args( argc, argv );
    limit_memory_gb( 8 );
    const char* rule = "one evaluation = one round/segment history (2-4 threads, seeded programs) of one queue variant incl. the sequential drain; "
                       "non-trivial = >=1 pair of operations of different threads overlaps; distinct = fingerprint of (op, normalised ids, results, interleaving order of all invocation/response events). ";
    prop( "C07" ).rule = std::string( rule ) + "Checked by WGL against the FIFO model with the capacity read from capacity(): enqueue may fail only in a full state, dequeue only in the empty state; "
                         "single-consumer variants: worker 0 is the only consumer (front(), front()+pop_front()).";
    prop( "C08" ).rule = std::string( rule ) + "Checked by the interval oracle: conservation (every enqueued uid dequeued exactly once, none invented), quasi-FIFO bound "
                         "(|{x: enq(x) returned before enq(y) began and x surely still queued when deq(y) returned}| < quasi factor), empty rule.";
    LibInit lib;
    {
        SmrSetup smr( 4, 8 );
        typedef cds::gc::HP HP; typedef cds::gc::DHP DHP;
        using cds::opt::v::uninitialized_dynamic_buffer; using cds::opt::v::uninitialized_static_buffer;
        typedef cds::atomicity::item_counter IC; typedef cds::atomicity::empty_item_counter NoIC;
        typedef cds::opt::v::relaxed_ordering Rlx; typedef cds::opt::v::sequential_consistent Sc;
        typedef cds::backoff::Default BoD; typedef cds::backoff::empty BoE;
        bool c7 = args().prop != "C08", c8 = args().prop != "C07";
        if ( c7 ) {
            run_vyukov< VyAdapter< cc::VyukovMPMCCycleQueue<Val, vy_traits<uninitialized_dynamic_buffer<Val>, NoIC, Rlx, BoD>>, 2 >>( "VyukovMPMC<dyn2,relaxed>", false );
            run_vyukov< VyAdapter< cc::VyukovMPMCCycleQueue<Val, vy_traits<uninitialized_dynamic_buffer<Val>, IC, Sc, BoE>>, 4 >>( "VyukovMPMC<dyn4,ic,seqcst>", false );
            run_vyukov< VyAdapter< cc::VyukovMPMCCycleQueue<Val, vy_traits<uninitialized_dynamic_buffer<Val>, IC, Rlx, BoD>>, 5 >>( "VyukovMPMC<dyn5to8,ic>", false );
            run_vyukov< VyAdapter< cc::VyukovMPMCCycleQueue<Val, vy_traits<uninitialized_static_buffer<Val, 2>, IC, Rlx, BoE>>, 2 >>( "VyukovMPMC<static2,ic>", false );
            run_vyukov< VyAdapter< cc::VyukovMPMCCycleQueue<Val, vy_traits<uninitialized_static_buffer<Val, 8>, NoIC, Sc, BoD>>, 8 >>( "VyukovMPMC<static8,seqcst>", false );
            run_vyukov< VyAdapter< cc::VyukovMPMCCycleQueue<Val, vy_traits_cl<uninitialized_dynamic_buffer<Val>, IC, Rlx, BoE, ResetCleaner>>, 2 >>( "VyukovMPMC<dyn2,ic,reset_cleaner>", false );
            run_vyukov< VyAdapter< cc::VyukovMPMCCycleQueue<ValD, vy_traits<uninitialized_dynamic_buffer<ValD>, NoIC, Rlx, BoD>>, 2, ValD >>( "VyukovMPMC<dyn2,dtor_value>", false );
            run_vyukov< VyAdapter< cc::VyukovMPMCCycleQueue<ValD, vy_traits<uninitialized_dynamic_buffer<ValD>, IC, Sc, BoE>>, 4, ValD >>( "VyukovMPMC<dyn4,ic,seqcst,dtor_value>", false );
            run_vyukov< VyIntrAdapter< ci::VyukovMPMCCycleQueue<Item, vyi_traits<uninitialized_dynamic_buffer<Item*>>>, 2 >>( "IntrusiveVyukovMPMC<dyn2>", false );
            run_vyukov< VyIntrAdapter< ci::VyukovMPMCCycleQueue<Item, vyi_traits<uninitialized_static_buffer<Item*, 4>>>, 4 >>( "IntrusiveVyukovMPMC<static4>", false );
            run_vyukov< VyScAdapter< cc::VyukovMPSCCycleQueue<Val, vy_traits<uninitialized_dynamic_buffer<Val>, IC, Rlx, BoD>>, 2 >>( "VyukovMPSC<dyn2,front/pop_front>", true );
            run_vyukov< VyScAdapter< cc::VyukovMPSCCycleQueue<Val, vy_traits<uninitialized_static_buffer<Val, 4>, NoIC, Sc, BoE>>, 4 >>( "VyukovMPSC<static4,front/pop_front>", true );
        }
        if ( c8 ) {
            typedef cds::sync::spin Spin;
            run_segq< SegAdapter< cc::SegmentedQueue<HP, Val, seg_traits<IC, Spin>>, 2 >>( "SegmentedQueue<HP,qf2>" );
            run_segq< SegAdapter< cc::SegmentedQueue<DHP, Val, seg_traits<IC, Spin>>, 3 >>( "SegmentedQueue<DHP,qf3to4>" );
            run_segq< SegAdapter< cc::SegmentedQueue<HP, Val, seg_traits<IC, std::mutex>>, 4 >>( "SegmentedQueue<HP,qf4,mutex>" );
            run_segq< SegAdapter< cc::SegmentedQueue<DHP, Val, seg_traits<IC, Spin>>, 5 >>( "SegmentedQueue<DHP,qf5to8>" );
            run_segq< SegAdapter< cc::SegmentedQueue<HP, Val, seg_traits<IC, Spin>>, 8 >>( "SegmentedQueue<HP,qf8>" );
        }
    }
    return finish( "bounded" );
}
