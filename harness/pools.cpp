// C24: cds::memory::vyukov_queue_pool, lazy_vyukov_queue_pool, bounded_vyukov_queue_pool and pool_allocator over them.
//  - ownership ledger in a SIDE TABLE keyed by object address (the pools hand out raw storage): the result of allocate() must not
//    be owned by another holder; ownership is cleared before deallocate(); objects travel between threads through a mailbox so
//    that objects are also deallocated by threads that did not allocate them.
//  - capacity is read from the pool (the queue rounds up to a power of two). "strict" runs use permits (capacity many, one per
//    allocate call / held object / deallocate call in flight): then at every instant at least one object is completely back in
//    the queue, so bounded_vyukov_queue_pool::allocate must not throw and vyukov_queue_pool::allocate must not fall back to the
//    heap. "overcommit" runs allocate past the capacity: the unbounded pools fall back to the heap (ledgered too), the bounded
//    pool throws std::bad_alloc as documented (never deallocating a foreign pointer into it: documented precondition).
//  - quiescent check at the end of every run (workers parked): with the held objects outstanding and again after returning
//    them, everything that was deallocated can be allocated again: exactly the missing pool objects come out (bounded: then
//    bad_alloc; vyukov: then a heap object); lazy pool: capacity many deallocated objects come back as the same set.
#include <cdsv/core.h>
#include <cdsv/sync_ledger.h>
#include <cdsv/sync_crew.h>
#include <cds/memory/vyukov_queue_pool.h>
#include <cds/memory/pool_allocator.h>
#include <memory>
#include <new>
#include <algorithm>

namespace {
    using namespace cdsv;

    // the destructor wipes the token: a pool that runs it on an object somebody holds (again) is seen by the holder's token check
    struct Obj { uint64_t token; uint64_t pad[2]; ~Obj() { token = 0xDEADDEADDEADDEADull; poison_barrier(); } };
    struct Small { uint64_t token; explicit Small( uint64_t t ) : token( t ) {} };

    enum : uint32_t { WHO_MAIN = 100, WHO_TRANSIT = 200 };
    enum Kind { VYUKOV, LAZY, BOUNDED };

    // ------------------------------------------------------------------ pools with their capacity / address range exposed
    template <class P>
    struct RangePool : P {
        explicit RangePool( size_t c ) : P( c ) {}
        size_t cap() const { return this->m_Queue.capacity(); }
        bool in_pool( const void* p ) const { return static_cast<const Obj*>( p ) >= this->m_pFirst && static_cast<const Obj*>( p ) < this->m_pLast; }
    };
    template <class P>
    struct LazyPool : P {
        explicit LazyPool( size_t c ) : P( c ) {}
        size_t cap() const { return this->m_Queue.capacity(); }
        bool in_pool( const void* ) const { return false; }
    };

    struct static4_traits : cds::memory::vyukov_queue_pool_traits {
        typedef cds::opt::v::uninitialized_static_buffer< Obj, 4 > buffer;
    };
    struct static2_traits : cds::memory::vyukov_queue_pool_traits {
        typedef cds::opt::v::uninitialized_static_buffer< Obj, 2 > buffer;
    };

    // ------------------------------------------------------------------ access paths
    template <class P> struct Holder { static P* ptr; };
    template <class P> P* Holder<P>::ptr = nullptr;
    template <class P> struct Accessor {
        typedef typename P::value_type value_type;
        P& operator()() const { return *Holder<P>::ptr; }
    };

    template <class P> struct DirectApi {
        static const char* name() { return ""; }
        static Obj* alloc( P& p, uint64_t tk ) { Obj* o = p.allocate( 1 ); o->token = tk; return o; }
        static uint64_t token( Obj* o ) { return o->token; }
        static void dealloc( P& p, Obj* o ) { p.deallocate( o, 1 ); }
    };
    template <class P> struct AllocApi {
        typedef cds::memory::pool_allocator< Obj, Accessor<P> > A;
        static Obj* alloc( P&, uint64_t tk ) { A a; Obj* o = a.allocate( 1 ); a.construct( o, Obj{ tk, { 0, 0 } } ); return o; }
        static uint64_t token( Obj* o ) { return o->token; }
        static void dealloc( P&, Obj* o ) { A a; a.destroy( o ); A( a ).deallocate( o, 1 ); }
    };
    template <class P> struct RebindApi {
        typedef typename cds::memory::pool_allocator< Obj, Accessor<P> >::template rebind<Small>::other A;
        static Obj* alloc( P&, uint64_t tk ) { A a; Small* s = a.allocate( 1, nullptr ); a.construct( s, tk ); return reinterpret_cast<Obj*>( s ); }
        static uint64_t token( Obj* o ) { return reinterpret_cast<Small*>( o )->token; }
        static void dealloc( P&, Obj* o ) { A a; Small* s = reinterpret_cast<Small*>( o ); a.destroy( s ); a.deallocate( s, 1 ); }
    };

    // ------------------------------------------------------------------ per-thread results
    struct ThreadOut {
        uint64_t allocs = 0, deallocs = 0, posts = 0, takes = 0, bad_alloc = 0, heap = 0, cross_dealloc = 0, calloc_ = 0, cdealloc = 0, no_permit = 0, steps = 0;
        std::vector<Obj*> held;
    };
    struct Calib { uint64_t max_alloc = 0, max_dealloc = 0; };
    struct Totals {
        uint64_t runs = 0, nontrivial = 0, strict_runs = 0, ops = 0, allocs = 0, deallocs = 0, posts = 0, bad_alloc = 0, heap = 0, cross_dealloc = 0, calloc_ = 0, cdealloc = 0, no_permit = 0,
                 addresses = 0, q_drained = 0, q_held = 0;
    };

    template <class P, class Api, Kind K>
    struct Run {
        std::string variant;
        uint64_t run_seed = 0, run_index = 0;
        unsigned T = 0, ops = 0;
        size_t cap = 0;
        bool strict = false;
        unsigned hold_cap[4];
        std::unique_ptr<P> pool;
        std::unique_ptr<AddrLedger> ledger;
        std::atomic<int> permits{ 0 };
        std::atomic<Obj*> mailbox[3];
        std::atomic<uint64_t> seq{ 1 };
        ThreadOut out[4];
        Calib cal;

        std::string ctx() const
        {
            return "\"variant\":" + jstr( variant ) + ",\"seed\":" + std::to_string( args().seed ) + ",\"run\":" + std::to_string( run_index ) + ",\"run_seed\":" + std::to_string( run_seed )
                 + ",\"threads\":" + std::to_string( T ) + ",\"capacity\":" + std::to_string( cap ) + ",\"mode\":" + ( strict ? "\"strict\"" : "\"overcommit\"" );
        }

        // allocate + ledger; returns nullptr if the bounded pool threw std::bad_alloc
        Obj* do_alloc( uint32_t who, const char* where, bool& threw )
        {
            threw = false;
            uint64_t tk = ( uint64_t( who ) << 48 ) | seq.fetch_add( 1, std::memory_order_relaxed );
            Obj* o = nullptr;
            try {
                o = Api::alloc( *pool, tk );
            }
            catch ( std::bad_alloc& ) {
                threw = true;
                return nullptr;
            }
            if ( !o ) {
                violation( "C24", "allocate-returned-null:" + variant, std::string( "allocate() returned a null pointer (" ) + where + ")", "{" + ctx() + "}" );
                return nullptr;
            }
            AddrLedger::Slot& s = ledger->slot( o );
            uint32_t prev = 0;
            if ( !s.owner.compare_exchange_strong( prev, who, std::memory_order_relaxed, std::memory_order_relaxed )) {
                violation( "C24", "object-handed-out-twice:" + variant,
                           "allocate() returned to holder " + std::to_string( who ) + " an object that " + ( prev == WHO_TRANSIT ? std::string( "is in the mailbox between two holders" ) : "holder " + std::to_string( prev ) + " has allocated (or received)" )
                           + " and that has not been deallocated (" + where + ")",
                           "{" + ctx() + ",\"new_holder\":" + std::to_string( who ) + ",\"current_holder\":" + std::to_string( prev ) + ",\"from_preallocated_block\":" + ( pool->in_pool( o ) ? "true" : "false" )
                           + ",\"where\":" + jstr( where ) + "}" );
                return nullptr;     // it belongs to the other holder
            }
            s.claims.fetch_add( 1, std::memory_order_relaxed );
            s.token.store( tk, std::memory_order_relaxed );
            return o;
        }

        // ledger + deallocate; the caller owns o (ledger owner == who)
        void do_dealloc( Obj* o, uint32_t who, bool& cross )
        {
            AddrLedger::Slot& s = ledger->slot( o );
            uint64_t want = s.token.load( std::memory_order_relaxed );
            uint64_t seen = Api::token( o );
            cross = uint32_t( want >> 48 ) != who;
            if ( seen != want )
                violation( "C24", "object-overwritten-while-held:" + variant, "an allocated object no longer carries the value its holder wrote into it",
                           "{" + ctx() + ",\"seen\":" + std::to_string( seen ) + ",\"expected\":" + std::to_string( want ) + "}" );
            uint32_t prev = who;
            if ( !s.owner.compare_exchange_strong( prev, 0, std::memory_order_relaxed, std::memory_order_relaxed ))
                harness_failure( "pools: deallocating an object the ledger does not attribute to the caller" );
            compiler_barrier();
            Api::dealloc( *pool, o );
        }

        bool take_permit()
        {
            int p = permits.load( std::memory_order_relaxed );
            while ( p > 0 )
                if ( permits.compare_exchange_weak( p, p - 1, std::memory_order_acq_rel, std::memory_order_relaxed )) return true;
            return false;
        }

        void worker( unsigned tid )
        {
            ThreadOut& o = out[tid];
            uint32_t who = tid + 1;
            Rng rng( mix64( run_seed ) ^ mix64( 0xA110C + tid ));
            std::vector<Obj*>& held = o.held;
            for ( unsigned i = 0; i < ops; ++i ) {
                unsigned x = rng.below( 100 );
                bool want_alloc = held.empty() ? x < 90 : ( held.size() < hold_cap[tid] && x < 45 );
                if ( want_alloc ) {
                    if ( strict && !take_permit()) { ++o.no_permit; want_alloc = false; }
                }
                if ( want_alloc ) {
                    bool threw = false;
                    uint64_t s0 = cdsv_rt_my_steps();
                    Obj* p = do_alloc( who, "worker", threw );
                    if ( cdsv_rt_my_steps() - s0 > cal.max_alloc ) ++o.calloc_;
                    ++o.allocs;
                    if ( threw ) {
                        ++o.bad_alloc;
                        if ( strict ) {
                            violation( "C24", "bad_alloc-below-capacity:" + variant,
                                       "bounded pool threw std::bad_alloc although fewer than capacity objects are allocated or in flight (every allocate is preceded by taking one of capacity permits, "
                                       "returned only after the matching deallocate has returned), i.e. a deallocated object was not available",
                                       "{" + ctx() + ",\"thread\":" + std::to_string( who ) + "}" );
                            permits.fetch_add( 1, std::memory_order_acq_rel );
                        }
                    }
                    else if ( p ) {
                        if ( K != LAZY && !pool->in_pool( p )) {
                            ++o.heap;
                            if ( K == BOUNDED )
                                violation( "C24", "bounded-pool-returned-foreign-object:" + variant, "bounded pool returned a pointer outside its preallocated block", "{" + ctx() + "}" );
                            else if ( strict )
                                violation( "C24", "deallocated-object-not-available:" + variant,
                                           "vyukov_queue_pool fell back to the heap although fewer than capacity objects are allocated or in flight (permits), i.e. a deallocated pool object was not available",
                                           "{" + ctx() + ",\"thread\":" + std::to_string( who ) + "}" );
                        }
                        held.push_back( p );
                    }
                    else if ( strict ) permits.fetch_add( 1, std::memory_order_acq_rel );   // violation already reported
                    continue;
                }
                if ( held.empty()) {
                    // nothing to give back: try to receive an object from another thread
                    Obj* q = mailbox[rng.below( 3 )].exchange( nullptr, std::memory_order_acq_rel );
                    if ( q ) {
                        if ( ledger->transfer( q, WHO_TRANSIT, who ) != WHO_TRANSIT ) harness_failure( "pools: mailbox object not in transit" );
                        held.push_back( q ); ++o.takes;
                    }
                    continue;
                }
                unsigned k = rng.below( unsigned( held.size()));
                Obj* p = held[k]; held[k] = held.back(); held.pop_back();
                if ( x >= 70 ) {
                    // hand the object to another thread through the mailbox (and take what was there)
                    if ( ledger->transfer( p, who, WHO_TRANSIT ) != who ) harness_failure( "pools: posting an object the ledger does not attribute to the caller" );
                    Obj* q = mailbox[rng.below( 3 )].exchange( p, std::memory_order_acq_rel );
                    ++o.posts;
                    if ( q ) {
                        if ( ledger->transfer( q, WHO_TRANSIT, who ) != WHO_TRANSIT ) harness_failure( "pools: mailbox object not in transit" );
                        held.push_back( q ); ++o.takes;
                    }
                }
                else {
                    bool cross = false;
                    uint64_t s0 = cdsv_rt_my_steps();
                    do_dealloc( p, who, cross );
                    if ( cdsv_rt_my_steps() - s0 > cal.max_dealloc ) ++o.cdealloc;
                    ++o.deallocs;
                    if ( cross ) ++o.cross_dealloc;
                    if ( strict ) permits.fetch_add( 1, std::memory_order_acq_rel );
                }
            }
            o.steps = cdsv_rt_my_steps();
        }
    };

    template <class P, class Api, Kind K>
    Calib calibrate( std::string const& name )
    {
        Calib c;
        Run<P, Api, K> r;
        r.variant = name;
        r.pool.reset( new P( 4 ));
        Holder<P>::ptr = r.pool.get();
        r.cap = r.pool->cap();
        r.ledger.reset( new AddrLedger( 4096 ));
        cdsv_rt_configure( 1, 0, 0, 1 );
        cdsv_rt_thread_begin( 0 );
        std::vector<Obj*> held;
        Rng rng( 4242 );
        size_t limit = K == BOUNDED ? r.cap : r.cap + 3;
        bool broken = false;
        for ( unsigned i = 0; i < 600; ++i ) {
            uint64_t s0 = cdsv_rt_my_steps();
            if ( held.size() < limit && ( held.empty() || rng.chance( 1, 2 ))) {
                bool threw = false;
                Obj* p = r.do_alloc( 1, "calibration", threw );
                uint64_t d = cdsv_rt_my_steps() - s0; if ( d > c.max_alloc ) c.max_alloc = d;
                if ( !p ) {
                    // single thread, fewer than capacity objects out: a library defect, not a harness problem
                    if ( threw )
                        violation( "C24", "bad_alloc-below-capacity:" + name, "bounded pool threw std::bad_alloc in a single-threaded alloc/dealloc sequence with " + std::to_string( held.size())
                                   + " of " + std::to_string( r.cap ) + " objects allocated", "{" + r.ctx() + ",\"phase\":\"single-thread-calibration\",\"allocated\":" + std::to_string( held.size()) + "}" );
                    broken = true;
                    break;
                }
                held.push_back( p );
            }
            else {
                unsigned k = rng.below( unsigned( held.size()));
                Obj* p = held[k]; held[k] = held.back(); held.pop_back();
                bool cross;
                r.do_dealloc( p, 1, cross );
                uint64_t d = cdsv_rt_my_steps() - s0; if ( d > c.max_dealloc ) c.max_dealloc = d;
            }
        }
        if ( K == BOUNDED && !broken ) {
            // a failing allocate (pool empty) is a single-threaded path too
            while ( held.size() < r.cap ) {
                bool threw; Obj* p = r.do_alloc( 1, "calibration", threw );
                if ( !p ) {
                    if ( threw )
                        violation( "C24", "bad_alloc-below-capacity:" + name, "bounded pool threw std::bad_alloc in a single-threaded sequence with " + std::to_string( held.size()) + " of "
                                   + std::to_string( r.cap ) + " objects allocated", "{" + r.ctx() + ",\"phase\":\"single-thread-calibration\",\"allocated\":" + std::to_string( held.size()) + "}" );
                    broken = true;
                    break;
                }
                held.push_back( p );
            }
            if ( !broken ) {
                uint64_t s0 = cdsv_rt_my_steps();
                bool threw = false;
                Obj* p = r.do_alloc( 1, "calibration", threw );      // an object handed out twice is reported by do_alloc
                if ( p ) {
                    violation( "C24", "more-objects-than-capacity:" + name, "bounded pool handed out more objects than its capacity (single thread)", "{" + r.ctx() + ",\"phase\":\"single-thread-calibration\"}" );
                    held.push_back( p );
                }
                uint64_t d = cdsv_rt_my_steps() - s0; if ( d > c.max_alloc ) c.max_alloc = d;
            }
        }
        for ( Obj* p : held ) { bool cross; r.do_dealloc( p, 1, cross ); }
        cdsv_rt_thread_end();
        Holder<P>::ptr = nullptr;
        return c;
    }

    template <class P, class Api, Kind K>
    void one_run( Crew& crew, std::string const& variant, Calib const& cal, uint64_t run_index, Totals& tot, PropStats& ps )
    {
        typedef Run<P, Api, K> run_t;
        std::unique_ptr<run_t> rp( new run_t );
        run_t& r = *rp;
        r.variant = variant;
        r.cal = cal;
        r.run_index = run_index;
        r.run_seed = mix64( mix64( args().seed ) ^ mix64( std::hash<std::string>()( variant )) ^ ( run_index * 0x9E3779B97F4A7C15ull ));
        Rng rng( r.run_seed );
        r.T = rng.range( 2, 4 );
        r.ops = rng.chance( 1, 4 ) ? rng.range( 100, 300 ) : rng.range( 8, 80 );
        r.strict = rng.chance( 1, 2 );
        size_t want_cap = rng.chance( 1, 2 ) ? 2 : rng.range( 2, 8 );      // the queue needs >= 2 and rounds up to a power of two
        r.pool.reset( new P( want_cap ));
        Holder<P>::ptr = r.pool.get();
        r.cap = r.pool->cap();
        r.permits.store( int( r.cap ));
        for ( unsigned t = 0; t < 4; ++t ) r.hold_cap[t] = rng.range( 1, 4 );
        for ( auto& m : r.mailbox ) m.store( nullptr );
        r.ledger.reset( new AddrLedger( size_t( r.ops ) * r.T + 64 ));
        unsigned noise = rng.below( 8 ), stalls = rng.below( 4 );
        cdsv_rt_configure( r.run_seed, noise, stalls, uint64_t( r.ops ) * 6 );
        Barrier bar( r.T );
        crew.run( r.T, [&]( unsigned tid ) {
            bar.wait();
            cdsv_rt_thread_begin( tid );
            r.worker( tid );
            cdsv_rt_thread_end();
        } );

        // ---- quiescent check (workers parked). Held = objects in the hands of workers + in the mailbox.
        std::vector<Obj*> held;
        for ( unsigned t = 0; t < r.T; ++t ) for ( Obj* p : r.out[t].held ) held.push_back( p );
        for ( auto& m : r.mailbox ) if ( Obj* p = m.load()) { held.push_back( p ); }
        size_t held_in_pool = 0;
        for ( Obj* p : held ) if ( r.pool->in_pool( p )) ++held_in_pool;
        bool ok = true;
        size_t drained_total = 0;

        auto drain_check = [&]( size_t outstanding_pool_objects, const char* phase ) {
            std::vector<Obj*> got;
            if ( K == LAZY ) {
                // capacity many objects: afterwards the queue is empty; give them back, take capacity many again: the same set
                for ( size_t i = 0; i < r.cap; ++i ) { bool threw; Obj* p = r.do_alloc( WHO_MAIN, phase, threw ); if ( p ) got.push_back( p ); else ok = false; }
                std::vector<Obj*> first( got );
                for ( Obj* p : got ) { bool cross; r.do_dealloc( p, WHO_MAIN, cross ); }
                got.clear();
                for ( size_t i = 0; i < r.cap; ++i ) { bool threw; Obj* p = r.do_alloc( WHO_MAIN, phase, threw ); if ( p ) got.push_back( p ); else ok = false; }
                std::vector<Obj*> a( first ), b( got );
                std::sort( a.begin(), a.end()); std::sort( b.begin(), b.end());
                if ( ok && a != b ) {
                    ok = false;
                    size_t common = 0;
                    for ( Obj* p : a ) if ( std::binary_search( b.begin(), b.end(), p )) ++common;
                    violation( "C24", "object-lost:" + variant,
                               "lazy pool: " + std::to_string( r.cap ) + " objects deallocated into the empty queue (single thread), but only " + std::to_string( common ) + " of them could be allocated again",
                               "{" + r.ctx() + ",\"phase\":" + jstr( phase ) + ",\"deallocated\":" + std::to_string( r.cap ) + ",\"allocated_again\":" + std::to_string( common ) + "}" );
                }
                drained_total += got.size();
                for ( Obj* p : got ) { bool cross; r.do_dealloc( p, WHO_MAIN, cross ); }
                return;
            }
            size_t expect = r.cap - outstanding_pool_objects;
            size_t from_pool = 0;
            for ( size_t i = 0; i < expect + 1; ++i ) {
                bool threw = false;
                Obj* p = r.do_alloc( WHO_MAIN, phase, threw );
                if ( threw ) break;
                if ( !p ) { ok = false; continue; }     // violation already reported
                got.push_back( p );
                if ( r.pool->in_pool( p )) ++from_pool;
            }
            bool extra_is_right = K == BOUNDED ? got.size() <= expect : got.size() == expect + 1;
            if ( ok && from_pool < expect ) {
                ok = false;
                violation( "C24", "object-lost:" + variant,
                           std::to_string( outstanding_pool_objects ) + " of the " + std::to_string( r.cap ) + " preallocated objects are held, all others were deallocated, but only "
                           + std::to_string( from_pool ) + " instead of " + std::to_string( expect ) + " could be allocated again (single thread, workers parked)",
                           "{" + r.ctx() + ",\"phase\":" + jstr( phase ) + ",\"held\":" + std::to_string( outstanding_pool_objects ) + ",\"expected\":" + std::to_string( expect )
                           + ",\"allocated_again\":" + std::to_string( from_pool ) + "}" );
            }
            else if ( ok && ( from_pool > expect || !extra_is_right )) {
                ok = false;
                violation( "C24", "more-objects-than-capacity:" + variant, "the pool yielded more objects from its preallocated block than it has (or no heap object once the block was exhausted)",
                           "{" + r.ctx() + ",\"phase\":" + jstr( phase ) + ",\"allocated\":" + std::to_string( got.size()) + ",\"from_block\":" + std::to_string( from_pool )
                           + ",\"expected\":" + std::to_string( expect ) + "}" );
            }
            drained_total += from_pool;
            for ( Obj* p : got ) { bool cross; r.do_dealloc( p, WHO_MAIN, cross ); }
        };

        drain_check( held_in_pool, "quiescent-with-held-objects" );
        // main returns everything the workers still hold (cross-thread deallocation once more)
        for ( Obj* p : held ) {
            uint32_t cur = r.ledger->owner( p );
            if ( r.ledger->transfer( p, cur, WHO_MAIN ) != cur ) harness_failure( "pools: ledger changed at quiescence" );
            bool cross; r.do_dealloc( p, WHO_MAIN, cross );
        }
        drain_check( 0, "quiescent-all-returned" );
        Holder<P>::ptr = nullptr;
        size_t addresses = r.ledger->distinct_addresses();
        r.pool.reset();

        // ---- evidence
        ThreadOut s;
        uint64_t fp = mix64( std::hash<std::string>()( variant )) ^ mix64( r.T * 64 + r.cap * 2 + ( r.strict ? 1 : 0 ));
        for ( unsigned t = 0; t < r.T; ++t ) {
            ThreadOut& o = r.out[t];
            s.allocs += o.allocs; s.deallocs += o.deallocs; s.posts += o.posts; s.takes += o.takes; s.bad_alloc += o.bad_alloc; s.heap += o.heap; s.cross_dealloc += o.cross_dealloc;
            s.calloc_ += o.calloc_; s.cdealloc += o.cdealloc; s.no_permit += o.no_permit;
            fp = mix64( fp ^ ( log2_bucket( o.allocs ) | ( log2_bucket( o.deallocs ) << 6 ) | ( log2_bucket( o.posts ) << 12 ) | ( uint64_t( o.held.size()) << 18 )));
        }
        fp = mix64( fp ^ ( log2_bucket( s.calloc_ ) | ( log2_bucket( s.cdealloc ) << 6 ) | ( log2_bucket( s.bad_alloc ) << 12 ) | ( log2_bucket( s.heap ) << 18 ) | ( log2_bucket( s.cross_dealloc ) << 24 )));
        bool nontrivial = ( s.calloc_ + s.cdealloc ) > 0;
        ++tot.runs; if ( r.strict ) ++tot.strict_runs;
        tot.ops += s.allocs + s.deallocs; tot.allocs += s.allocs; tot.deallocs += s.deallocs; tot.posts += s.posts; tot.bad_alloc += s.bad_alloc; tot.heap += s.heap;
        tot.cross_dealloc += s.cross_dealloc; tot.calloc_ += s.calloc_; tot.cdealloc += s.cdealloc; tot.no_permit += s.no_permit; tot.addresses += addresses;
        tot.q_drained += drained_total; tot.q_held += held.size();
        if ( nontrivial ) { ++tot.nontrivial; ps.add_fp( fp ); }
        if ( nontrivial && s.cross_dealloc && ( run_index % 5 ) == 1 && ps.need_sample( 4 )) {
            std::string pt = "[";
            for ( unsigned t = 0; t < r.T; ++t ) {
                ThreadOut& o = r.out[t];
                if ( t ) pt += ",";
                pt += "{\"allocate\":" + std::to_string( o.allocs ) + ",\"deallocate\":" + std::to_string( o.deallocs ) + ",\"deallocated_objects_of_other_threads\":" + std::to_string( o.cross_dealloc )
                    + ",\"handed_to_mailbox\":" + std::to_string( o.posts ) + ",\"bad_alloc\":" + std::to_string( o.bad_alloc ) + ",\"max_hold\":" + std::to_string( r.hold_cap[t] )
                    + ",\"holds_at_end\":" + std::to_string( o.held.size()) + ",\"library_atomic_ops\":" + std::to_string( o.steps ) + "}";
            }
            pt += "]";
            ps.add_sample( "{" + r.ctx() + ",\"noise_class\":" + std::to_string( noise ) + ",\"targeted_stalls\":" + std::to_string( stalls ) + ",\"per_thread\":" + pt
                           + ",\"allocate_calls_with_retry_or_wait_loop\":" + std::to_string( s.calloc_ ) + ",\"deallocate_calls_with_retry_or_wait_loop\":" + std::to_string( s.cdealloc )
                           + ",\"heap_fallback_allocations\":" + std::to_string( s.heap ) + ",\"distinct_addresses_ledgered\":" + std::to_string( addresses )
                           + ",\"quiescent\":{\"held_by_workers_and_mailbox\":" + std::to_string( held.size()) + ",\"of_them_from_preallocated_block\":" + std::to_string( held_in_pool )
                           + ",\"pool_objects_allocated_again_in_both_phases\":" + std::to_string( drained_total ) + ",\"exact\":" + ( ok ? "true" : "false" ) + "}}" );
        }
    }

#if defined(__SANITIZE_THREAD__)
    const double BUDGET_QUICK_S = 14.0;
#else
    const double BUDGET_QUICK_S = 18.0;
#endif
    double g_deadline_step = 0, g_t0 = 0;
    HangGuard* g_guard = nullptr;
    unsigned g_variant_no = 0;

    template <class P, class Api, Kind K>
    void run_variant( std::string const& name, uint64_t runs )
    {
        unsigned my_no = g_variant_no++;
        if ( !args().want( name )) return;
        set_variant( name );
        PropStats& ps = prop( "C24" );
        Calib cal = calibrate<P, Api, K>( name );
        Totals tot;
        std::unique_ptr<Crew> crew;
        double deadline = g_t0 + g_deadline_step * ( my_no + 1 );
        uint64_t i = 0;
        for ( ; i < runs; ++i ) {
            if ( i && i % 10 == 0 && wall_now() > deadline ) break;     // wall-clock budget of the tier (only cuts the number of runs)
            if ( i % 40 == 0 ) { crew.reset(); crew.reset( new Crew( 4 )); }   // fresh OS threads (and thread ids) now and then
            one_run<P, Api, K>( *crew, name, cal, i, tot, ps );
            g_guard->tick();
        }
        if ( i < runs ) ps.add_extra( "runs_not_made_because_of_the_wall_clock_budget", runs - i );
        ps.evaluations.fetch_add( tot.runs );
        ps.operations.fetch_add( tot.ops );
        ps.nontrivial.fetch_add( tot.nontrivial );
        ps.add_variant( name, tot.runs );
        ps.add_extra( "strict_runs(permits=capacity)", tot.strict_runs );
        ps.add_extra( "allocate_calls", tot.allocs );
        ps.add_extra( "deallocate_calls", tot.deallocs );
        ps.add_extra( "objects_handed_to_another_thread", tot.posts );
        ps.add_extra( "deallocated_by_a_thread_other_than_the_allocator", tot.cross_dealloc );
        ps.add_extra( "bad_alloc_thrown_past_capacity(bounded,overcommit)", tot.bad_alloc );
        ps.add_extra( "heap_fallback_allocations_past_capacity(vyukov,overcommit)", tot.heap );
        ps.add_extra( "allocations_skipped_for_lack_of_a_permit(strict)", tot.no_permit );
        ps.add_extra( "distinct_addresses_ledgered", tot.addresses );
        ps.add_extra( "quiescent_pool_objects_allocated_again", tot.q_drained );
        ps.add_extra( "quiescent_objects_held", tot.q_held );
        ps.add_mech( "allocate_took_retry_or_wait_loop(more atomic ops than any single-threaded allocate)", tot.calloc_ );
        ps.add_mech( "deallocate_took_retry_or_wait_loop(more atomic ops than any single-threaded deallocate)", tot.cdealloc );
        ps.add_extra( "runs_with_contention:" + name, tot.nontrivial );
        ps.add_extra( "calibrated_max_atomic_ops_allocate:" + name, cal.max_alloc );
        ps.add_extra( "calibrated_max_atomic_ops_deallocate:" + name, cal.max_dealloc );
    }
}

int main( int argc, char** argv )
{
    parse_args( argc, argv );
    limit_memory_gb( 8 );
    prop( "C24" ).rule = "one evaluation = one seeded run: 2-4 perturbed threads allocate / deallocate / hand objects to each other on one pool of capacity 2-8 (strict runs: at most capacity objects out; "
                         "overcommit runs: past the capacity), every allocate checked against the side-table ledger, then all threads park and the main thread allocates everything that is not held "
                         "(exact count, from the preallocated block), returns the held objects and does it again; operations = allocate+deallocate calls of the workers; "
                         "non-trivial = runs in which at least one call executed more library atomic operations than any single-threaded call can (a retry / wait loop of the queue ran); "
                         "distinct_nontrivial = distinct hashes of (variant, threads, capacity, mode, per-thread log2 allocate/deallocate/hand-over counts, objects held at the end, log2 of each contention counter) among those runs";
    uint64_t runs = args().n( 400, 8000 );
#if defined(__SANITIZE_ADDRESS__)
    runs = args().n( 300, 6000 );
#endif
    HangGuard guard( "pools", 12.0 );
    g_guard = &guard;
    g_t0 = wall_now();
    g_deadline_step = ( args().thorough ? 360.0 : BUDGET_QUICK_S ) * ( args().scale > 1 ? args().scale : 1.0 ) / 11.0;   // --scale < 1 cuts the planned runs, not the budget
    typedef cds::memory::vyukov_queue_pool<Obj> vp;
    typedef cds::memory::lazy_vyukov_queue_pool<Obj> lp;
    typedef cds::memory::bounded_vyukov_queue_pool<Obj> bp;
    typedef RangePool<vp> VP;
    typedef LazyPool<lp> LP;
    typedef RangePool<bp> BP;
    typedef RangePool< cds::memory::vyukov_queue_pool<Obj, static4_traits> > VP4;
    typedef RangePool< cds::memory::bounded_vyukov_queue_pool<Obj, static2_traits> > BP2;
    run_variant< VP, DirectApi<VP>, VYUKOV >( "vyukov_queue_pool", runs );
    run_variant< LP, DirectApi<LP>, LAZY >( "lazy_vyukov_queue_pool", runs );
    run_variant< BP, DirectApi<BP>, BOUNDED >( "bounded_vyukov_queue_pool", runs );
    run_variant< VP4, DirectApi<VP4>, VYUKOV >( "vyukov_queue_pool<static_buffer4>", runs );
    run_variant< BP2, DirectApi<BP2>, BOUNDED >( "bounded_vyukov_queue_pool<static_buffer2>", runs );
    run_variant< VP, AllocApi<VP>, VYUKOV >( "pool_allocator<vyukov_queue_pool>", runs );
    run_variant< LP, AllocApi<LP>, LAZY >( "pool_allocator<lazy_vyukov_queue_pool>", runs );
    run_variant< BP, AllocApi<BP>, BOUNDED >( "pool_allocator<bounded_vyukov_queue_pool>", runs );
    run_variant< VP, RebindApi<VP>, VYUKOV >( "pool_allocator<vyukov_queue_pool>::rebind<smaller>", runs );
    run_variant< LP, RebindApi<LP>, LAZY >( "pool_allocator<lazy_vyukov_queue_pool>::rebind<smaller>", runs );
    run_variant< BP, RebindApi<BP>, BOUNDED >( "pool_allocator<bounded_vyukov_queue_pool>::rebind<smaller>", runs );
    g_guard = nullptr;
    return finish( "pools" );
}
