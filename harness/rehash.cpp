// C17: resize and rehash never lose or duplicate elements, for any hash functions (incl. constant and low-entropy ones).
// Sequential differential test against std::set. Every case (container configuration x hash-function tuple x key set x operation
// sequence) runs in a forked child under an address-space limit and an alarm, because with hashes that never spread a cuckoo/striped
// table can keep resizing until memory is exhausted: such an outcome is *inconclusive*, not a violation.
#include <cstring>
#include <cdsv/core.h>
#include <cdsv/smr.h>
#include <cds/container/cuckoo_set.h>
#include <cds/container/striped_set/std_list.h>
#include <cds/container/striped_set/std_vector.h>
#include <cds/container/striped_set/std_set.h>
#include <cds/container/striped_set.h>
#include <cds/container/michael_list_hp.h>
#include <cds/container/lazy_list_hp.h>
#include <cds/container/split_list_set.h>
#include <cds/container/feldman_hashset_hp.h>
#include <set>
#include <sys/wait.h>
#include <signal.h>

namespace {
    using namespace cdsv;
    namespace cc = cds::container;

    // run-time parameterised hash functions (set before the fork)
    struct HashCfg { int mode = 0; int m = 1; int d = 1; };
    HashCfg g_h[2];
    inline size_t rt_hash( HashCfg const& c, int k )
    {
        switch ( c.mode ) {
        case 0: return size_t( k );                                    // identity
        case 1: return size_t( c.m );                                  // constant
        case 2: return size_t( unsigned( k ) % unsigned( c.m ));       // k mod m
        case 3: return size_t( unsigned( k ) / unsigned( c.d ) % unsigned( c.m ));   // (k / d) mod m
        case 4: return size_t( k ) << 20;                              // high bits only
        default: return ( size_t( k ) * 0x9E3779B1u ) >> 7;            // spreading
        }
    }
    std::string hash_name( HashCfg const& c )
    {
        switch ( c.mode ) {
        case 0: return "k";
        case 1: return "const" + std::to_string( c.m );
        case 2: return "k%" + std::to_string( c.m );
        case 3: return "(k/" + std::to_string( c.d ) + ")%" + std::to_string( c.m );
        case 4: return "k<<20";
        default: return "mix(k)";
        }
    }
    struct RtH1 { size_t operator()( int k ) const { return rt_hash( g_h[0], k ); } };
    struct RtH2 { size_t operator()( int k ) const { return rt_hash( g_h[1], k ); } };

    struct Case {
        unsigned a = 0, b = 0, c = 0;        // container parameters (meaning depends on the family)
        std::vector<int> ops;                // >= 0: insert key ; < 0: erase key (-1 - v)
        std::string describe( const char* family ) const
        {
            std::ostringstream o;
            o << "{\"family\":" << jstr( family ) << ",\"params\":[" << a << "," << b << "," << c << "],\"h1\":" << jstr( hash_name( g_h[0] )) << ",\"h2\":" << jstr( hash_name( g_h[1] )) << ",\"ops\":[";
            for ( size_t i = 0; i < ops.size(); ++i ) o << ( i ? "," : "" ) << ( ops[i] >= 0 ? "\"i" + std::to_string( ops[i] ) + "\"" : "\"e" + std::to_string( -1 - ops[i] ) + "\"" );
            o << "]}";
            return o.str();
        }
    };

    // ---- container wrappers: insert / erase / contains / size / growth counter
    template <class Probeset, bool Ordered>
    struct ck_tr: cc::cuckoo::traits {
        typedef cds::opt::hash_tuple<RtH1, RtH2> hash; typedef std::less<int> less; typedef Probeset probeset_type; typedef cc::cuckoo::stat stat;
    };
    template <class Probeset>
    struct ck_tr<Probeset, false>: cc::cuckoo::traits {
        typedef cds::opt::hash_tuple<RtH1, RtH2> hash; typedef std::equal_to<int> equal_to; typedef Probeset probeset_type; typedef cc::cuckoo::stat stat;
    };
    template <class S> struct CuckooW {
        S s;
        CuckooW( Case const& c ) : s( c.a, c.b, c.c ) {}
        bool insert( int k ) { return s.insert( k ); }
        bool erase( int k ) { return s.erase( k ); }
        bool contains( int k ) { return s.contains( k ); }
        size_t size() { return s.size(); }
        uint64_t growth() { return s.statistics().m_nResizeCallCount.get() + s.statistics().m_nRelocateCallCount.get(); }
    };
    template <class S, class Policy> struct StripedW {
        S s;
        StripedW( Case const& c ) : s( c.a, Policy( c.b )) {}
        bool insert( int k ) { return s.insert( k ); }
        bool erase( int k ) { return s.erase( k ); }
        bool contains( int k ) { return s.contains( k ); }
        size_t size() { return s.size(); }
        uint64_t growth() { return s.bucket_count(); }
    };
    struct ml_tr: cc::michael_list::traits { typedef std::less<int> less; };
    struct ll_tr: cc::lazy_list::traits { typedef std::less<int> less; };
    template <class Tag, class LT, bool Dyn>
    struct sp_tr: cc::split_list::traits {
        typedef Tag ordered_list; typedef RtH1 hash; typedef LT ordered_list_traits; static const bool dynamic_bucket_table = Dyn; typedef cc::split_list::stat<> stat;
    };
    template <class S> struct SplitW {
        S s;
        SplitW( Case const& c ) : s( c.a, c.b ) {}
        bool insert( int k ) { return s.insert( k ); }
        bool erase( int k ) { return s.erase( k ); }
        bool contains( int k ) { return s.contains( k ); }
        size_t size() { return s.size(); }
        uint64_t growth() { return s.statistics().m_nBucketCount.get(); }
        // traversal must yield each element exactly once
        bool traverse( std::multiset<int>& out ) { for ( auto it = s.begin(); it != s.end(); ++it ) out.insert( *it ); return true; }
    };
    struct FVal { uint32_t hash; int key; };
    struct f_acc { uint32_t const& operator()( FVal const& v ) const { return v.hash; } };
    struct feld_tr: cc::feldman_hashset::traits { typedef f_acc hash_accessor; typedef cc::feldman_hashset::stat<> stat; };
    struct FeldW {
        typedef cc::FeldmanHashSet<cds::gc::HP, FVal, feld_tr> S;
        S s; unsigned shift;
        FeldW( Case const& c ) : s( c.a, c.b ), shift( c.c ) {}
        uint32_t h( int k ) const { return uint32_t( k ) << shift; }   // injective for k < 2^(32-shift): collisions on all chunks but one
        bool insert( int k ) { FVal v; v.hash = h( k ); v.key = k; return s.insert( v ); }
        bool erase( int k ) { return s.erase( h( k )); }
        bool contains( int k ) { return s.contains( h( k )); }
        size_t size() { return s.size(); }
        uint64_t growth() { return s.statistics().m_nExpandNodeSuccess.get(); }
        bool traverse( std::multiset<int>& out ) { for ( auto it = s.begin(); it != s.end(); ++it ) out.insert( it->key ); return true; }
    };
    template <class W> auto try_traverse( W& w, std::multiset<int>& out, int ) -> decltype( w.traverse( out )) { return w.traverse( out ); }
    template <class W> bool try_traverse( W&, std::multiset<int>&, long ) { return false; }

    // child: returns "" if the container behaved like std::set, else a description; *growth receives the growth counter
    template <class W>
    std::string run_case( Case const& c, uint64_t* growth )
    {
        W w( c );
        std::set<int> model;
        std::set<int> universe;
        for ( int op : c.ops ) universe.insert( op >= 0 ? op : -1 - op );
        size_t step = 0;
        for ( int op : c.ops ) {
            ++step;
            if ( op >= 0 ) {
                bool r = w.insert( op ), m = model.insert( op ).second;
                if ( r != m ) return "step " + std::to_string( step ) + ": insert(" + std::to_string( op ) + ") returned " + ( r ? "true" : "false" ) + ", the model says " + ( m ? "true" : "false" );
            }
            else {
                int k = -1 - op;
                bool r = w.erase( k ), m = model.erase( k ) != 0;
                if ( r != m ) return "step " + std::to_string( step ) + ": erase(" + std::to_string( k ) + ") returned " + ( r ? "true" : "false" ) + ", the model says " + ( m ? "true" : "false" );
            }
            // after EVERY operation the content must equal the model
            for ( int k : universe ) {
                bool r = w.contains( k ), m = model.count( k ) != 0;
                if ( r != m )
                    return "after step " + std::to_string( step ) + " (" + ( op >= 0 ? "insert " + std::to_string( op ) : "erase " + std::to_string( -1 - op )) + "): contains(" + std::to_string( k ) + ") is "
                           + ( r ? "true" : "false" ) + " but the key " + ( m ? "was inserted successfully and never erased (element lost)" : "is not in the set (element invented / not removed)" );
            }
            if ( w.size() != model.size())
                return "after step " + std::to_string( step ) + ": size() = " + std::to_string( w.size()) + ", the model holds " + std::to_string( model.size()) + " elements";
        }
        std::multiset<int> tr;
        if ( try_traverse( w, tr, 0 )) {
            if ( tr.size() != model.size() || !std::equal( tr.begin(), tr.end(), model.begin()))
                return "final traversal yields " + std::to_string( tr.size()) + " elements, the model holds " + std::to_string( model.size()) + " (element lost or duplicated)";
        }
        *growth = w.growth();
        return "";
    }

    enum Outcome { OK, MISMATCH, INCONCLUSIVE_TIME, INCONCLUSIVE_MEM, CRASH };

    template <class W>
    Outcome fork_case( Case const& c, std::string& msg, uint64_t& growth, int& sig )
    {
        int fd[2];
        if ( pipe( fd ) != 0 ) harness_failure( "pipe" );
        fflush( nullptr );
        pid_t pid = fork();
        if ( pid < 0 ) harness_failure( "fork" );
        if ( pid == 0 ) {
            close( fd[0] );
#if !defined(__SANITIZE_ADDRESS__)
            rlimit rl; rl.rlim_cur = rl.rlim_max = rlim_t( 1 ) << 30; setrlimit( RLIMIT_AS, &rl );
#endif
            alarm( 2 );
            // memory exhaustion that surfaces inside a noexcept function ends in std::terminate: still "inconclusive (memory)", not a crash
            std::set_terminate( []() {
                try { if ( std::current_exception()) std::rethrow_exception( std::current_exception()); }
                catch ( std::bad_alloc& ) { _exit( 7 ); }
                catch ( ... ) {}
                abort();
            } );
            std::string r;
            uint64_t g = 0;
            try { r = run_case<W>( c, &g ); }
            catch ( std::bad_alloc& ) { _exit( 7 ); }
            std::string out = std::to_string( g ) + "\n" + r;
            ssize_t ignored = write( fd[1], out.data(), out.size()); (void) ignored;
            _exit( r.empty() ? 0 : 3 );
        }
        close( fd[1] );
        std::string out; char buf[4096]; ssize_t n;
        while (( n = read( fd[0], buf, sizeof buf )) > 0 ) out.append( buf, size_t( n ));
        close( fd[0] );
        int st = 0; waitpid( pid, &st, 0 );
        size_t nl = out.find( '\n' );
        if ( nl != std::string::npos ) { growth = strtoull( out.c_str(), nullptr, 10 ); msg = out.substr( nl + 1 ); }
        if ( WIFEXITED( st )) {
            int rc = WEXITSTATUS( st );
            if ( rc == 0 ) return OK;
            if ( rc == 3 ) return MISMATCH;
            if ( rc == 7 ) return INCONCLUSIVE_MEM;
            sig = rc; return CRASH;     // e.g. sanitizer exit code
        }
        sig = WTERMSIG( st );
        if ( sig == SIGALRM ) return INCONCLUSIVE_TIME;
        return CRASH;                    // SIGSEGV, SIGABRT (glibc "double free"), ...
    }

    void gen_hashes( Rng& rng, bool two )
    {
        for ( int i = 0; i < ( two ? 2 : 1 ); ++i ) {
            HashCfg& h = g_h[i];
            h.mode = int( rng.below( 6 )); h.m = int( rng.range( 1, 4 )); h.d = int( rng.range( 1, 4 ));
        }
        if ( two && rng.chance( 1, 6 )) g_h[1] = g_h[0];        // two identical functions
    }
    void gen_ops( Rng& rng, Case& c, unsigned max_key, unsigned max_ops )
    {
        unsigned nkeys = rng.range( 2, max_key );
        unsigned n = rng.range( 4, max_ops );
        bool sparse = rng.chance( 1, 3 );
        for ( unsigned i = 0; i < n; ++i ) {
            int k = int( rng.below( nkeys )) * ( sparse ? 37 : 1 );
            c.ops.push_back( rng.chance( 3, 4 ) ? k : -1 - k );
        }
    }

    // Cuckoo: keys whose BOTH hash values coincide can never be separated by a resize; such a class can hold at most
    // (arity x probe-set size) keys, beyond that insert() resizes forever. Keep every class within one probe set so that the case can terminate;
    // colliding in one of the two functions (or in both for up to `limit` keys) stays in.
    void limit_collision_classes( Case& c, unsigned limit )
    {
        std::map<std::pair<size_t, size_t>, std::vector<int>> cls;
        for ( int& op : c.ops ) {
            int k = op >= 0 ? op : -1 - op;
            std::vector<int>& v = cls[std::make_pair( rt_hash( g_h[0], k ), rt_hash( g_h[1], k ))];
            if ( std::find( v.begin(), v.end(), k ) == v.end()) {
                if ( v.size() >= limit ) { k = v[size_t( k ) % v.size()]; op = op >= 0 ? k : -1 - k; }
                else v.push_back( k );
            }
        }
    }

    template <class W, class Gen>
    void run_family( const char* family, uint64_t cases, Gen gen )
    {
        if ( !args().want( family )) return;
        set_variant( family );
        PropStats& ps = prop( "C17" );
        Rng rng( mix64( args().seed ) ^ std::hash<std::string>()( family ));
        uint64_t nviol = 0, inc_time = 0, inc_mem = 0, grown = 0;
        for ( uint64_t i = 0; i < cases && nviol < 20; ++i ) {
            Case c; gen( rng, c );
            std::string msg; uint64_t growth = 0; int sig = 0;
            Outcome o = fork_case<W>( c, msg, growth, sig );
            ps.evaluations.fetch_add( 1 ); ps.operations.fetch_add( c.ops.size());
            if ( o == INCONCLUSIVE_TIME ) { ++inc_time; continue; }
            if ( o == INCONCLUSIVE_MEM ) { ++inc_mem; continue; }
            std::string desc = c.describe( family );
            if ( o == OK ) {
                if ( growth ) {
                    ++grown; ps.nontrivial.fetch_add( 1 );
                    ps.add_fp( mix64( std::hash<std::string>()( desc )));
                    if ( ps.need_sample( 4 )) ps.add_sample( "{\"case\":" + desc + ",\"growth_events\":" + std::to_string( growth ) + ",\"result\":\"content equals std::set after every operation\"}" );
                }
                continue;
            }
            ++nviol;
            if ( o == MISMATCH )
                violation( "C17", std::string( "content-mismatch:" ) + family, msg, "{\"case\":" + desc + ",\"mismatch\":" + jstr( msg ) + "}" );
            else
                violation( "C17", std::string( "crash:" ) + family, "the case ended with " + ( sig < 64 && sig != 99 && sig != 98 ? "signal " + std::to_string( sig ) : "exit code " + std::to_string( sig )) + " (memory corruption)",
                           "{\"case\":" + desc + ",\"signal_or_exit\":" + std::to_string( sig ) + "}" );
        }
        ps.add_extra( std::string( "inconclusive_alarm:" ) + family, inc_time ); ps.add_extra( std::string( "inconclusive_memory:" ) + family, inc_mem );
        ps.add_extra( std::string( "cases_with_growth:" ) + family, grown );
        if ( inc_time + inc_mem ) inconclusive( std::string( family ) + ": " + std::to_string( inc_time ) + " cases hit the 2 s alarm and " + std::to_string( inc_mem ) + " the 1 GB limit (endless resize with non-spreading hashes)" );
        ps.add_variant( family, cases );
    }
}

int main( int argc, char** argv )
{
    parse_args( argc, argv );
    prop( "C17" ).rule = "one evaluation = one forked sequential case: container family x parameters (initial size, probe-set size / threshold, load factor) x hash-function tuple (identity, constant, k mod m, (k/d) mod m, high bits only, spreading; "
                         "two identical functions for cuckoo) x key set (dense or sparse) x sequence of 4-60 insert/erase operations; after EVERY operation contains() of every key, size() and (at the end) the traversal must equal std::set; "
                         "non-trivial = the case completed and the container grew (resize / relocation / new buckets / array-node expansion counted by the container's own statistics); distinct = hash of the full case description; "
                         "cases ended by the 2 s alarm or the 1 GB limit are inconclusive";
    LibInit lib;
    {
        SmrSetup smr( 8, 4 );
        uint64_t n = args().n( 1500, 60000 );
        using cc::cuckoo::list; using cc::cuckoo::vector;
        run_family< CuckooW< cc::CuckooSet<int, ck_tr<list, true>> > >( "CuckooSet<list,ordered>", n, []( Rng& r, Case& c ) {
            gen_hashes( r, true ); c.a = 4u << r.below( 2 ); c.b = r.range( 2, 4 ); c.c = r.chance( 1, 2 ) ? 0 : r.range( 1, c.b - 1 ); gen_ops( r, c, 24, 40 ); limit_collision_classes( c, c.b ); } );
        run_family< CuckooW< cc::CuckooSet<int, ck_tr<list, false>> > >( "CuckooSet<list,unordered>", n / 2, []( Rng& r, Case& c ) {
            gen_hashes( r, true ); c.a = 4u << r.below( 2 ); c.b = r.range( 2, 4 ); c.c = r.chance( 1, 2 ) ? 0 : r.range( 1, c.b - 1 ); gen_ops( r, c, 24, 40 ); limit_collision_classes( c, c.b ); } );
        run_family< CuckooW< cc::CuckooSet<int, ck_tr<vector<4>, true>> > >( "CuckooSet<vector4,ordered>", n / 2, []( Rng& r, Case& c ) {
            gen_hashes( r, true ); c.a = 4u << r.below( 2 ); c.b = 4; c.c = r.range( 0, 3 ); gen_ops( r, c, 24, 40 ); limit_collision_classes( c, c.b ); } );
        run_family< CuckooW< cc::CuckooSet<int, ck_tr<vector<2>, false>> > >( "CuckooSet<vector2,unordered>", n / 2, []( Rng& r, Case& c ) {
            gen_hashes( r, true ); c.a = 4u << r.below( 2 ); c.b = 2; c.c = r.range( 0, 1 ); gen_ops( r, c, 16, 30 ); limit_collision_classes( c, c.b ); } );

        namespace ss = cc::striped_set;
        using cds::opt::hash; using cds::opt::less; using cds::opt::mutex_policy; using cds::opt::resizing_policy;
        typedef ss::load_factor_resizing<0> LF; typedef ss::single_bucket_size_threshold<0> SB;
        { typedef cc::StripedSet<std::list<int>, hash<RtH1>, less<std::less<int>>, resizing_policy<LF>> S;
          run_family< StripedW<S, LF> >( "StripedSet<std::list,loadfactor>", n, []( Rng& r, Case& c ) { gen_hashes( r, false ); c.a = 1u << r.below( 3 ); c.b = r.range( 1, 4 ); gen_ops( r, c, 60, 60 ); } ); }
        { typedef cc::StripedSet<std::vector<int>, hash<RtH1>, less<std::less<int>>, mutex_policy<ss::refinable<>>, resizing_policy<SB>> S;
          run_family< StripedW<S, SB> >( "StripedSet<std::vector,refinable,bucket-threshold>", n / 2, []( Rng& r, Case& c ) { gen_hashes( r, false ); c.a = 1u << r.below( 3 ); c.b = r.range( 1, 4 ); gen_ops( r, c, 40, 50 ); } ); }
        { typedef cc::StripedSet<std::set<int>, hash<RtH1>, mutex_policy<ss::refinable<>>, resizing_policy<LF>> S;
          run_family< StripedW<S, LF> >( "StripedSet<std::set,refinable,loadfactor>", n / 2, []( Rng& r, Case& c ) { gen_hashes( r, false ); c.a = 1u << r.below( 3 ); c.b = r.range( 1, 4 ); gen_ops( r, c, 60, 60 ); } ); }

        typedef cds::gc::HP HP;
        run_family< SplitW< cc::SplitListSet<HP, int, sp_tr<cc::michael_list_tag, ml_tr, true>> > >( "SplitListSet<michael,dynamic>", n, []( Rng& r, Case& c ) {
            gen_hashes( r, false ); c.a = 1u << r.below( 7 ); c.b = r.range( 1, 4 ); gen_ops( r, c, 80, 80 ); } );
        run_family< SplitW< cc::SplitListSet<HP, int, sp_tr<cc::lazy_list_tag, ll_tr, false>> > >( "SplitListSet<lazy,static>", n / 2, []( Rng& r, Case& c ) {
            gen_hashes( r, false ); c.a = 1u << r.below( 6 ); c.b = r.range( 1, 4 ); gen_ops( r, c, 80, 80 ); } );
        run_family< FeldW >( "FeldmanHashSet<uint32>", n, []( Rng& r, Case& c ) {
            c.a = r.range( 2, 8 ); c.b = r.range( 2, 6 ); unsigned sh[] = { 0, 8, 16, 24, 26 }; c.c = sh[r.below( 5 )]; gen_ops( r, c, ( c.c >= 24 ? 60u : 200u ), 120 );
            // keep the key -> hash mapping injective: keys are reduced to the bits that survive the shift
            unsigned mask = c.c ? (( 1u << ( 32 - c.c )) - 1 ) : 0x7fffffffu;
            for ( int& op : c.ops ) { int k = op >= 0 ? op : -1 - op; k = int( unsigned( k ) & mask ); op = op >= 0 ? k : -1 - k; } } );
    }
    return finish( "rehash" );
}
