#!/bin/sh
# MANIFEST.hooks.baseline_off_cmd: rebuild /repo/_build with the verification guard OFF (nothing defines
# KHIZMAX_LIBCDS_VERIF in the repository's own build) and run the repository's pinned test command.
set -e
cd /repo
cmake -G Ninja -B /repo/_build -DCMAKE_BUILD_TYPE=RelWithDebInfo -DLIBCDS_WITH_TESTS=ON >/dev/null
cmake --build /repo/_build -j16
ctest --test-dir /repo/_build -j8 --timeout 900 --output-junit /tmp/baseline_off.junit.xml
