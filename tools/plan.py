"""Which harness processes decide which property (used by check.py)."""

DEFAULT_ASSUMPTIONS = [
    "x86-64 TSO hardware; the logical clock is a seq_cst RMW, so a.ret < b.inv implies a returned before b was invoked",
    "executions are sampled (seeded programs, injected delays), not enumerated: 'held on what was observed'",
    "harness adapters follow the documented API preconditions of libcds",
]


def shards(target, build, n, threads, timeout, extra=None, scale=None):
    out = []
    for i in range(n):
        a = ['--shard', '%d/%d' % (i, n)]
        if scale is not None:
            a += ['--scale', str(scale)]
        if extra:
            a += list(extra)
        out.append((target, build, a, threads, timeout))
    return out


def jobs_C06(tier, seed):
    if tier == 'quick':
        return (shards('queue', 'dbg', 5, 5, 600) + shards('queue', 'asan', 5, 5, 900, scale=0.4)
                + shards('queue', 'tsan', 5, 5, 900, scale=0.15))
    return (shards('queue', 'dbg', 10, 5, 3600) + shards('queue', 'rel', 10, 5, 3600) + shards('queue', 'asan', 10, 5, 3600, scale=0.4)
            + shards('queue', 'tsan', 10, 5, 3600, scale=0.15))


def jobs_smr_hp(tier, seed):
    # the harness selects HP configurations for C01, DHP for C02, both for C03 (from --prop)
    if tier == 'quick':
        return shards('smr_hp', 'dbg', 6, 5, 600, scale=2) + shards('smr_hp', 'asan', 6, 5, 900, scale=0.7)
    return (shards('smr_hp', 'dbg', 8, 5, 3600) + shards('smr_hp', 'rel', 8, 5, 3600) + shards('smr_hp', 'asan', 8, 5, 3600, scale=0.4))


def jobs_smr_rcu(tier, seed):
    if tier == 'quick':
        return shards('smr_rcu', 'dbg', 6, 5, 900) + shards('smr_rcu', 'asan', 6, 5, 900, scale=0.5)
    return (shards('smr_rcu', 'dbg', 11, 5, 3600) + shards('smr_rcu', 'rel', 11, 5, 3600) + shards('smr_rcu', 'asan', 11, 5, 3600, scale=0.4))


HP_MECH = ['hp.inplace.scan_count', 'hp.classic.scan_count', 'hp.inplace.help_scan_count', 'hp.classic.help_scan_count']
DHP_MECH = ['dhp.scan_count', 'dhp.help_scan_count', 'dhp.hp_extend_count', 'dhp.retired_block_count']

PROPS = {
    'C01': {'jobs': jobs_smr_hp, 'mechanisms_required': HP_MECH},
    'C02': {'jobs': jobs_smr_hp, 'mechanisms_required': DHP_MECH},
    'C03': {'jobs': jobs_smr_hp, 'mechanisms_required': HP_MECH + DHP_MECH},
    'C04': {'jobs': jobs_smr_rcu},
    'C05': {'jobs': jobs_smr_rcu},
    'C06': {
        'jobs': jobs_C06,
        'mechanisms_required': ['ms.onBadTail', 'ms.onEnqueueRace', 'ms.onDequeueRace', 'basket.onTryAddBasket', 'basket.onAddBasket',
                                'optimistic.onFixList', 'fc.onCombining', 'fc.onCollide', 'fc.onPassiveToCombiner'],
    },
}
