"""Which harness processes decide which property (used by check.py)."""

DEFAULT_ASSUMPTIONS = [
    "x86-64 TSO hardware; the logical clock is a seq_cst RMW, so a.ret < b.inv implies a returned before b was invoked",
    "executions are sampled (seeded programs, injected delays), not enumerated: 'held on what was observed'",
    "harness adapters follow the documented API preconditions of libcds",
]


def shards(target, build, n, threads, timeout, extra=None, scale=None):
    out = []
    for i in range(n):
        a = ['--shard', '%d/%d' % (i, n)]
        if scale is not None:
            a += ['--scale', str(scale)]
        if extra:
            a += list(extra)
        out.append((target, build, a, threads, timeout))
    return out


def jobs_C06(tier, seed):
    if tier == 'quick':
        return (shards('queue', 'dbg', 5, 5, 600) + shards('queue', 'asan', 5, 5, 900, scale=0.4)
                + shards('queue', 'tsan', 5, 5, 900, scale=0.15))
    return (shards('queue', 'dbg', 10, 5, 3600) + shards('queue', 'rel', 10, 5, 3600) + shards('queue', 'asan', 10, 5, 3600, scale=0.4)
            + shards('queue', 'tsan', 10, 5, 3600, scale=0.15))


def seq_jobs(target, nq, nt, asan_scale=0.4, tsan_scale=0.15, threads=5, quick_scale=None):
    def jobs(tier, seed):
        if tier == 'quick':
            return (shards(target, 'dbg', nq, threads, 900, scale=quick_scale) + shards(target, 'asan', nq, threads, 900, scale=asan_scale * (quick_scale or 1))
                    + shards(target, 'tsan', nq, threads, 900, scale=tsan_scale * (quick_scale or 1)))
        return (shards(target, 'dbg', nt, threads, 5400) + shards(target, 'rel', nt, threads, 5400) + shards(target, 'asan', nt, threads, 5400, scale=asan_scale)
                + shards(target, 'tsan', nt, threads, 5400, scale=tsan_scale))
    return jobs


def set_jobs(targets, nq, nt, quick_scale=1.0, special=None, builds_quick=('dbg', 'asan'), asan_scale=0.3, timeout_q=1200, run_special=True):
    """targets: list of set harness binaries. special: {target: [(filter, nshards)]} = crash/hang-prone variants run in processes of their own
    (a known finding that ends the process must not cost the results of other variants)."""
    def jobs(tier, seed):
        out = []
        builds = builds_quick if tier == 'quick' else ('dbg', 'rel', 'asan', 'tsan')
        for t in targets:
            sp = (special or {}).get(t, [])
            excl = ';'.join('!' + f for (f, _) in sp)
            for b in builds:
                sc = {'dbg': 1.0, 'rel': 1.0, 'asan': asan_scale, 'tsan': 0.12}[b] * (quick_scale if tier == 'quick' else 1.0)
                n = nq if tier == 'quick' else nt
                tmo = timeout_q if tier == 'quick' else 7200
                extra = ['--filter', excl] if excl else None
                out += shards(t, b, n, 5, tmo, extra=extra, scale=sc)
                if run_special and b in ('dbg', 'asan'):
                    for (f, k) in sp:
                        out += shards(t, b, k, 5, tmo, extra=['--filter', f], scale=sc * 0.5)
        return out
    return jobs


def jobs_C20(tier, seed):
    out = []
    builds = ('dbg', 'asan') if tier == 'quick' else ('dbg', 'rel', 'asan')
    for t, n in (('set_list', 3), ('set_hash', 3), ('set_tree', 3), ('set_lock', 3), ('queue', 2), ('stack', 2), ('deque_pq', 2), ('bounded', 2)):
        for b in builds:
            sc = (1.0 if b != 'asan' else 0.4) * (1.0 if tier == 'quick' else 8.0)
            extra = ['--filter', '!+caller_owned_insert'] if t == 'set_tree' else None
            out += shards(t, b, n if tier == 'quick' else 2 * n, 2, 1200 if tier == 'quick' else 5400, extra=extra, scale=sc)
    return out


SET_SPECIAL = {'set_tree': [('+extract_minmax', 3), ('+caller_owned_insert', 2)]}


def jobs_smr_hp(tier, seed):
    # the harness selects HP configurations for C01, DHP for C02, both for C03 (from --prop)
    if tier == 'quick':
        return shards('smr_hp', 'dbg', 6, 5, 600, scale=2) + shards('smr_hp', 'asan', 6, 5, 900, scale=0.7)
    return (shards('smr_hp', 'dbg', 8, 5, 3600) + shards('smr_hp', 'rel', 8, 5, 3600) + shards('smr_hp', 'asan', 8, 5, 3600, scale=0.4))


def jobs_smr_rcu(tier, seed):
    if tier == 'quick':
        return shards('smr_rcu', 'dbg', 6, 5, 900) + shards('smr_rcu', 'asan', 6, 5, 900, scale=0.5)
    return (shards('smr_rcu', 'dbg', 11, 5, 3600) + shards('smr_rcu', 'rel', 11, 5, 3600) + shards('smr_rcu', 'asan', 11, 5, 3600, scale=0.4))


def jobs_pure(tier, seed):
    # the harness restricts itself to the variants of --prop; thorough = exhaustive 2^32 loops on 16 threads
    if tier == 'quick':
        return [('pure', 'dbg', [], 4, 900), ('pure', 'asan', [], 4, 900)]
    return [('pure', 'dbg', [], 16, 3600), ('pure', 'asan', [], 16, 5400), ('pure', 'rel', [], 16, 3600)]


def sync_jobs(target, builds_quick, builds_thorough, nq=2, nt=4):
    def jobs(tier, seed):
        out = []
        for b in (builds_quick if tier == 'quick' else builds_thorough):
            out += shards(target, b, nq if tier == 'quick' else nt, 5, 900 if tier == 'quick' else 5400)
        return out
    return jobs


HP_MECH = ['hp.inplace.scan_count', 'hp.classic.scan_count', 'hp.inplace.help_scan_count', 'hp.classic.help_scan_count']
DHP_MECH = ['dhp.scan_count', 'dhp.help_scan_count', 'dhp.hp_extend_count', 'dhp.retired_block_count']

PROPS = {
    'C01': {'jobs': jobs_smr_hp, 'mechanisms_required': HP_MECH},
    'C02': {'jobs': jobs_smr_hp, 'mechanisms_required': DHP_MECH},
    'C03': {'thorough_scale': 0.7, 'jobs': jobs_smr_hp, 'mechanisms_required': HP_MECH + DHP_MECH},
    'C04': {'jobs': jobs_smr_rcu},
    'C05': {'jobs': jobs_smr_rcu},
    'C06': {'thorough_scale': 0.8, 
        'jobs': jobs_C06,
        'mechanisms_required': ['ms.onBadTail', 'ms.onEnqueueRace', 'ms.onDequeueRace', 'basket.onTryAddBasket', 'basket.onAddBasket',
                                'optimistic.onFixList', 'fc.onCombining', 'fc.onCollide', 'fc.onPassiveToCombiner'],
    },
    'C13': {'thorough_scale': 0.8, 'jobs': set_jobs(['set_list'], 5, 15),
            'mechanisms_required': ['michael_list.onHelpingSuccess', 'michael_list.onInsertRetry', 'lazy_list.onValidationFailed', 'iterable_list.onReuseNode', 'iterable_list.onNodeMarkFailed']},
    'C14': {'thorough_scale': 0.7, 'jobs': set_jobs(['set_hash'], 5, 19),
            'mechanisms_required': ['split_list.onNewBucket', 'split_list.onRecursiveInitBucket', 'split_list.onBucketInitContenton', 'feldman.onExpandNodeSuccess', 'feldman.onSlotConverting']},
    'C15': {'thorough_scale': 0.6, 'jobs': set_jobs(['set_tree'], 5, 16, special=SET_SPECIAL),
            'mechanisms_required': ['skip_list.onEraseWhileFind', 'skip_list.onExtractMinSuccess', 'skip_list.onExtractMaxSuccess', 'ellen.onInsertRetry', 'ellen.onEraseRetry', 'ellen.onSearchRetry',
                                    'bronson.onRotateRight', 'bronson.onRotateLeft']},
    'C16': {'thorough_scale': 0.9, 'jobs': set_jobs(['set_lock'], 4, 17),
            'mechanisms_required': ['cuckoo.onResizeCall', 'cuckoo.onRelocateRound', 'cuckoo.onInsertResize']},
    'C18': {'jobs': set_jobs(['set_list', 'set_hash', 'set_tree', 'set_lock'], 3, 8, quick_scale=0.4, special=SET_SPECIAL, builds_quick=('dbg',), run_special=False)},
    'C17': {'thorough_scale': 0.35, 'jobs': lambda tier, seed: (shards('rehash', 'dbg', 10, 1, 1500, scale=0.5) + shards('rehash', 'asan', 10, 1, 1500, scale=0.2)
                                                                    # concurrent growth with private keys (set_lock run with --prop C17)
                                                                    + shards('set_lock', 'dbg', 4, 4, 900) + shards('set_lock', 'asan', 4, 4, 900, scale=0.3)) if tier == 'quick'
                    else (shards('rehash', 'dbg', 10, 1, 7200, scale=1.0) + shards('rehash', 'rel', 10, 1, 7200, scale=1.0) + shards('rehash', 'asan', 10, 1, 7200, scale=0.3)
                          + shards('set_lock', 'dbg', 6, 4, 5400) + shards('set_lock', 'rel', 6, 4, 5400) + shards('set_lock', 'asan', 6, 4, 5400, scale=0.3))},
    'C19': {'thorough_scale': 0.35, 'jobs': set_jobs(['iter'], 6, 11, asan_scale=0.4),
            'mechanisms_required': ['feldman.onExpandNodeSuccess']},
    'C20': {'thorough_scale': 0.4, 'jobs': lambda tier, seed: jobs_C20(tier, seed),
            'rule': 'one evaluation = one single-threaded sequence of API calls (1-200 calls, random over the full alphabet of the adapter; 3 keys and 2000 keys for sets/maps; near-empty and near-full states for bounded containers) on one container variant, '
                    'followed by lookups of every key / a complete drain; every return value (incl. update\'s pair, observed item ids, functor call counts and is-new flags, pop order, extract_min/max order, capacity behaviour) must be exactly what the sequential '
                    'reference model allows, traversal/size()/empty()/check_consistency() compared after every sequence; non-trivial = >=3 calls incl. a mutation and its observation; distinct = fingerprint of the call/result sequence'},
    'C21': {'jobs': sync_jobs('freelist', ['dbg', 'asan', 'tsan'], ['dbg', 'rel', 'asan', 'tsan'])},
    'C22': {'jobs': sync_jobs('locks', ['dbg', 'asan', 'tsan'], ['dbg', 'rel', 'asan', 'tsan'], nq=3, nt=7)},
    'C23': {'thorough_scale': 0.7, 'jobs': set_jobs(['fc_kernel'], 3, 5, special={'fc_kernel': [('+wakeup_any', 2)]}, asan_scale=0.5),
            'mechanisms_required': ['fc.onCombining', 'fc.onCompactPublicationList', 'fc.onDeactivatePubRecord', 'fc.onDeletePubRecord', 'fc.onPassiveToCombiner']},
    'C24': {'jobs': sync_jobs('pools', ['dbg', 'asan'], ['dbg', 'rel', 'asan'], nq=2, nt=4)},
    'C25': {'jobs': jobs_pure, 'exhaustive': True},
    'C26': {'jobs': jobs_pure, 'exhaustive': True},
    'C27': {'jobs': jobs_pure},
    'C28': {'jobs': jobs_pure, 'exhaustive': True},
    'C12': {'jobs': seq_jobs('ringbuf', 4, 8, asan_scale=1.0, tsan_scale=1.0, threads=3),
            'mechanisms_required': ['ring.wraps', 'ring.failed_push_full', 'ring.failed_pop_empty', 'byte.tail_markers']},
    'C07': {'thorough_scale': 0.4, 'jobs': seq_jobs('bounded', 5, 9), 'mechanisms_required': ['vyukov.enqueue_full', 'vyukov.dequeue_empty']},
    'C08': {'jobs': seq_jobs('bounded', 5, 5), 'mechanisms_required': ['segq.onSegmentCreated', 'segq.onSegmentDeleted', 'segq.onPushContended', 'segq.onPopContended']},
    'C09': {'thorough_scale': 0.3, 'jobs': seq_jobs('stack', 7, 13, threads=7, quick_scale=0.5),
            'mechanisms_required': ['treiber.onPushRace', 'treiber.onPopRace', 'treiber.onActiveCollision', 'treiber.onPassiveCollision', 'fc.onCollide', 'fc.onCombining']},
    'C10': {'thorough_scale': 0.45, 'jobs': seq_jobs('deque_pq', 5, 9, quick_scale=0.5), 'mechanisms_required': ['fcdeque.onCollide', 'fcdeque.onCombining', 'fcdeque.onPassiveToCombiner']},
    'C11': {'jobs': seq_jobs('deque_pq', 5, 9), 'mechanisms_required': ['fcpq.onCombining', 'mspq.onPushFailed', 'mspq.onPushHeapifySwap', 'mspq.onPopHeapifySwap', 'mspq.onItemMovedTop']},
}
