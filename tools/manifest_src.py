"""Source of MANIFEST.json (tools/gen_manifest.py). One entry per claimed property."""

HOOKS = {
    'guard': 'KHIZMAX_LIBCDS_VERIF',
    'enable': 'every harness TU and /repo/src/*.cpp are compiled with -DKHIZMAX_LIBCDS_VERIF -I/verif/include -I/repo (tools/gen_ninja.py); '
              'the guard makes cds/algo/atomic.h alias `atomics` to cds_verif::atomics (instrumented std::atomic wrapper that calls the perturbation engine before every atomic operation and after every store / RMW / CAS)',
    'baseline_off_cmd': 'sh tools/baseline_off.sh',
    'source_commits': ['1de2e61'],   # fix: commits (not hooks): 6b2711f
    'add_only': True,
}

ENGINES = [
    {'name': 'cdsv', 'path': '/verif/include/cdsv, /verif/rt, /verif/harness, /verif/tools/check.py',
     'serves_properties': [],
     'kind_free_text': 'runtime monitoring: real libcds code (rebuilt from /repo working tree, atomics hook on) driven by seeded hostile workloads with injected delays at every atomic operation; '
                       'oracles = WGL linearizability checker against executable sequential models, interval oracles, dispose/ownership ledgers with poisoning, quiescent invariants; '
                       'builds: g++ -O1 -D_DEBUG (libcds asserts on), ASan+UBSan, TSan restricted to harness payload frames, -O2 -DNDEBUG'},
]

NOTES = ('All checks are `python3 tools/check.py <id> --tier quick|thorough`; VERIF_SEED selects the seed. Exit 0 = held on what was observed, '
         '1 = VIOLATION (witness under evidence/replay/<id>/), 2 = harness failure / nothing observed. known_findings.json lists genuine defects (open = KNOWN-FINDING line, fixed = documentation only).')

NOT_YET = 'no registered check yet in this revision (harness under construction; see DESIGN.md section 4 for the planned oracle)'
NOT_APPLICABLE = {}

LIN_NOTE = ('trusted base: the harness adapters, the WGL checker and sequential model (include/cdsv), x86-64 TSO, g++ 12 sanitizer runtimes; '
            'executions are sampled by seeded programs and injected delays, not enumerated')

SMR_NOTE = ('trusted base: the harness (object arena, side-table ledger, logical clock), x86-64 TSO, g++ 12 ASan/LSan runtime; schedules are sampled '
            '(delays injected before every libcds atomic operation, thread churn, tiny retired arrays), not enumerated; memory-order-only weakenings that x86 does not turn into a different execution are out of reach')

CHECKS = {
    'C01': {
        'technique': 'runtime monitoring: guarded-object poison monitor + deterministic scan cases on real cds::gc::HP (classic and in-place scan), ASan build with really freed objects',
        'level_text': 'Readers obtain objects from shared slots through every guard form (protect, protect(f), GuardArray, assign+re-check, copy, guarded_ptr) and keep reading the object\'s state mark while writers '
                      'exchange the slot, retire the old object (both retire overloads) and scans / help-scans / thread detach-reattach run; a DISPOSED mark (or ASan use-after-free) under a live guard is a violation. '
                      '16 configurations: scan type x hazard count {1,2,3,8} x even/odd addresses x thread limit x retired capacity; plus deterministic cases (n retired, protection pattern) checked after scan()',
        'level_note': SMR_NOTE,
    },
    'C02': {
        'technique': 'runtime monitoring: guarded-object poison monitor + deterministic scan cases on real cds::gc::DHP (extension guard blocks, retired-block growth, record reuse), ASan build',
        'level_text': 'Same monitor as C01 on cds::gc::DHP: readers allocate up to 60 guards so the protecting guard sits in an extension block, writers retire bursts up to 600 objects between scans so retired lists '
                      'grow past one block, threads detach with non-empty retired lists and short-lived threads re-use the records; 15 configurations (initial guard count 0/4/5/16/64)',
        'level_note': SMR_NOTE,
    },
    'C03': {
        'technique': 'runtime monitoring: exactly-once dispose ledger over every retired object of the HP and DHP workloads, checked after destruction of the singleton; eager-scan cases; LeakSanitizer',
        'level_text': 'Every object retired in the C01/C02 workloads (10^7 per quick run) is followed in a side-table ledger: the disposer may run at most once (checked inside the disposer), must have run exactly once after '
                      '~HP/~DHP, never for a non-retired object; deterministic eager clause: scan() with no guard on an object frees it, with a guard keeps it until released (n below/at/above array capacity and block size; for DHP also four fifths / all but one / all of a full 256-entry block guarded, which makes scan() compact and extend the array); DHP record re-use clause: a thread with a three-block retired array detaches while another thread guards 100 of its objects, re-attaches (same record) and fills the array again. Found and fixed: F1, F20, F21, F22',
        'level_note': SMR_NOTE,
    },
    'C04': {
        'technique': 'runtime monitoring: reader-side poison monitor inside (nested) read-side critical sections of all four URCU flavours while writers retire / batch_retire / synchronize-then-dispose; ASan build with really freed objects',
        'level_text': 'An object loaded inside a read-side critical section (nesting 1-3, inner sections closing in the middle) is re-read until the outermost access_unlock; the DISPOSED mark or an ASan use-after-free there is a violation. '
                      'Writers unlink and then use every retire form or call synchronize() and dispose the object themselves (checks that synchronize waits for pre-existing readers). 22 configurations: '
                      'general_instant, general_buffered, general_threaded, signal_buffered x buffer capacity {2,3,4,8,256} (overflow path on almost every retire) x lock/back-off, with thread attach/detach churn. '
                      'Capacity 1 is a library precondition violation (debug assert, release livelock) and is not driven',
        'level_note': SMR_NOTE,
    },
    'C05': {
        'technique': 'runtime monitoring: exactly-once dispose ledger over every object retired through the URCU flavours, checked in the disposer and after destruction of the gc<> singleton; LeakSanitizer',
        'level_text': 'Every object retired in the C04 workloads (retire_ptr overloads, batch_retire by iterator and by functor with empty/single/long ranges, bursts past the buffer capacity, force_dispose) '
                      'is followed in a side-table ledger: disposer at most once at any time, exactly once after ~gc (Destruct drains the buffer, the disposer thread makes its final pass), never for a non-retired object',
        'level_note': SMR_NOTE,
    },
    'C06': {
        'technique': 'runtime monitoring: recorded concurrent histories checked by a WGL linearizability checker against a sequential FIFO model; ASan/UBSan; TSan payload happens-before monitor',
        'level_text': 'Every recorded round/segment history (2-4 threads, seeded programs, delays injected before every libcds atomic operation, tiny HP/DHP thresholds so nodes are reclaimed and reused) '
                      'of MSQueue, MoirQueue, BasketQueue, OptimisticQueue (HP and DHP, item counter on/off, relaxed/seq_cst, back-offs), RWQueue and FCQueue (elimination on/off, all wait strategies) '
                      'is linearizable to a FIFO queue incl. at-most-once delivery, no invented item and justified empty results; held on the executions observed, not on all schedules',
        'level_note': LIN_NOTE,
    },
    'C07': {
        'technique': 'runtime monitoring: recorded concurrent histories checked by a WGL linearizability checker against a bounded FIFO model (capacity read from capacity()); ASan/UBSan; TSan payload monitor',
        'level_text': 'Round/segment histories (2-4 threads, prefilled to near-full/near-empty, positions wrap the ring hundreds of times) of container::VyukovMPMCCycleQueue (dynamic/static buffers, capacities 2,4,8, resetting opt::value_cleaner and values with a wiping destructor so that a cleaner run on a re-used cell corrupts the element, '
                      'every enqueue/dequeue overload), intrusive::VyukovMPMCCycleQueue and the single-consumer VyukovMPSCCycleQueue (front(), front()+pop_front() by the only consumer) are linearizable to a FIFO of the '
                      'reported capacity: enqueue fails only in a full state, dequeue only in the empty state; held on the executions observed',
        'level_note': LIN_NOTE,
    },
    'C08': {
        'technique': 'runtime monitoring: recorded concurrent histories checked by interval oracles (conservation ledger, quasi-FIFO bound, empty rule) that fire only when the recorded intervals force a violation',
        'level_text': 'Round/segment histories of SegmentedQueue (HP/DHP, quasi factors 2,3->4,4,5->8,8, spin and std::mutex segment locks) with a complete sequential drain: every enqueued uid is dequeued exactly once and none is invented; '
                      'for every dequeue fewer than quasi_factor() items whose enqueue had returned before its own enqueue began are surely still queued; an empty result is contradicted only by an item enqueued before the call and dequeued after it',
        'level_note': LIN_NOTE,
    },
    'C09': {
        'technique': 'runtime monitoring: recorded concurrent histories checked by a WGL linearizability checker against a LIFO model; elimination forced by 4-8 contending threads; ASan/UBSan; TSan payload monitor',
        'level_text': 'Round/segment histories of container::TreiberStack (HP/DHP, elimination off / static collision buffers 1,2,4 / dynamic buffer, short and default elimination back-off) and FCStack '
                      '(elimination on/off, std::deque/vector/list, all wait strategies) incl. empty()/clear() are linearizable to a LIFO stack with unique ids (an eliminated pair delivers the item to exactly one popper); '
                      'collision counters must be non-zero or elimination is reported as not reached',
        'level_note': LIN_NOTE,
    },
    'C10': {
        'technique': 'runtime monitoring: recorded concurrent histories checked by a WGL linearizability checker against a sequential deque model; ASan/UBSan',
        'level_text': 'Round/segment histories of FCDeque (elimination on/off, std::deque and boost::container::deque, compact factor 1-2, combine pass count 1-4, all wait strategies) over push/pop at both ends, '
                      'empty() and clear(), biased to near-empty deques where the cross-end collision rule matters, are linearizable to a sequential deque',
        'level_note': LIN_NOTE,
    },
    'C11': {
        'technique': 'runtime monitoring: WGL linearizability checker against a (bounded) max-priority multiset for FCPriorityQueue and phased MSPriorityQueue programs; conservation ledger + push-fail interval rule for mixed MSPriorityQueue histories',
        'level_text': 'FCPriorityQueue (vector/deque/stable_vector, several wait strategies): every history linearizable to a max-priority multiset (equal priorities frequent). MSPriorityQueue (capacity() 1..15, static/dynamic buffer, '
                      'spin/std::mutex): push-only phase / barrier / pop-only phase programs linearizable to the bounded max-priority queue; free mixed histories: no item lost, duplicated or invented, '
                      'and a push fails only if capacity items can have been present at some instant of the call',
        'level_note': LIN_NOTE,
    },
    'C12': {
        'technique': 'runtime monitoring: online exact-sequence oracle on a real producer/consumer thread pair with injected delays; push/pop fail rules from published counters; byte-exact record check; ASan; TSan payload happens-before monitor',
        'level_text': 'One producer and one consumer thread drive WeakRingBuffer<T> (every push/pop/front overload, capacities 2-128, pow2 and non-pow2, static/dynamic buffers, batches up to capacity) and WeakRingBuffer<void> '
                      '(capacities 64,104,128,1000,4096, record sizes 1..capacity-16 steering tails of 0/8/16 bytes): delivered values must be exactly 0,1,2,...; each byte record must have its exact size and keyed-PRNG content; '
                      'a failed push/pop is a violation only when the published counters prove enough space/elements; plus a forked sequential probe for the full-ring front() assert defect (fixed in 6b53ed0)',
        'level_note': 'trusted base: the harness oracle and counters, x86-64 TSO, sanitizer runtimes; WeakRingBuffer<void> capacity must be a multiple of 8 and records never wrap (a failed push on an empty ring is only a violation when 2x rounded size fits); '
                      'record sizes above capacity-16 and batches == capacity are only driven in NDEBUG builds (library asserts)',
    },
    'C13': {
        'technique': 'runtime monitoring: recorded concurrent histories split per key (P-compositionality) and checked by a WGL linearizability checker against the absent|present(id) register model; state pinned by sequential lookups at every barrier; ASan/UBSan; destroyed-item poison check',
        'level_text': 'Round/segment histories (2-4 threads, 2-8 keys so operations collide, delays injected before every libcds atomic operation, tiny SMR thresholds) of MichaelList, LazyList, IterableList as sets over HP, DHP and '
                      'RCU gpi/gpb/gpt/shb, less- and compare-based, item counter on/off, over the full alphabet: insert, insert(f), emplace, update (allow / no insert; replacing update and upsert for IterableList), erase, erase(f), erase_with, extract, '
                      'contains, find(f), find_with, get (guarded_ptr / raw_ptr under the RCU lock, exempt_ptr released outside). Every observed item id must be the one the model holds; every item handed out is checked for the destructor poison mark',
        'level_note': LIN_NOTE + '; value-copying container forms (built on the intrusive lists); the insert-only nogc lists and the intrusive-only unlink() are not driven',
    },
    'C14': {
        'technique': 'runtime monitoring: per-key WGL linearizability checking of recorded concurrent histories on hash sets with colliding / shared-prefix hashes while tables grow; ASan/UBSan; destroyed-item poison check',
        'level_text': 'Same oracle as C13 on MichaelHashSet over Michael/Lazy/Iterable lists (1,2,4 buckets, identity / mod-2 / constant hashes), SplitListSet over each list kind (expandable tables growing from 2 to 32-64 buckets during the run and static tables, '
                      'three bit-reversal algorithms, load factor 1-2) and FeldmanHashSet (1/2/4/8-byte hashes, head 2-4 bits, array 2-4 bits, keys in the lowest or highest chunk so slots expand to the deepest level) over HP, DHP and RCU; '
                      'containers are re-created every 25-400 rounds so that bucket initialisation (incl. recursive), table doubling and array-node expansion run while operations are in flight (counters reported)',
        'level_note': LIN_NOTE + '; set forms only (maps share the implementation); nogc variants not driven',
    },
    'C15': {
        'technique': 'runtime monitoring: per-key WGL linearizability checking plus interval oracles for extract_min/extract_max on skip lists, Ellen trees and Bronson AVL trees; quiescent check_consistency(); ASan/UBSan; round watchdog for non-terminating calls',
        'level_text': 'SkipListSet (HP/DHP/RCU; level generators forcing towers low, high, alternating, random; height 5-8), EllenBinTreeSet (HP/DHP/RCU), BronsonAVLTreeMap (RCU gpb/gpi/gpt; value and pointer forms; injecting_monitor<spin> and pool_monitor; relaxed_insert): '
                      'per-key WGL over the full alphabet; extract_min/max recorded as a removal of the returned key, and a violation if it returns key k or empty while a smaller/larger key is surely present throughout the call (two low keys kept present to arm the rule). '
                      'Found and fixed: F5, F9, F9b, F10, F15; known findings F12 (extract_min/max can spin forever on Bronson), F14 (relaxed_insert frees caller-owned values) - both isolated in separate processes',
        'level_note': LIN_NOTE + '; skip-list generators below height 5 are unusable (c_nMinHeight); Bronson is a map, driven as int -> item',
    },
    'C16': {
        'technique': 'runtime monitoring: per-key WGL linearizability checking of recorded concurrent histories on lock-based hash sets with tiny capacities so that resizes interleave with operations; ASan/UBSan; TSan payload monitor (locks are visible to TSan)',
        'level_text': 'CuckooSet (striping/refinable over std::recursive_mutex and reentrant spin; list and vector<2..4> probe sets; ordered/unordered; stored hashes; initial size 4-8, probe-set size 2-4) and StripedSet (striping/refinable; std list/vector/set/unordered_set and '
                      'boost list/slist/vector/stable_vector/set/flat_set/unordered_set buckets; load-factor and single-bucket-threshold policies incl. runtime forms; capacity 16 minimum) and intrusive::StripedSet over boost::intrusive list/set (a separate implementation; items owned and deleted by the harness) over 3-40 keys: per-key WGL incl. functor forms; resize/relocation counters reported. Found and fixed: F24 (relocate deadlock)',
        'level_note': LIN_NOTE + '; set forms only; single_bucket_size_threshold is combined with spreading hashes only (with colliding hashes the table doubles without bound: memory exhaustion, not a C16 event)',
    },
    'C18': {
        'technique': 'runtime monitoring: structural invariants checked at quiescent points (all workers parked at a barrier) after concurrent and sequential histories: exact traversal, size()/empty(), check_consistency()',
        'level_text': 'At every barrier of the C13-C16 workloads (after a linearizable round): iterator traversal of lists, skip lists, Michael/SplitList/Feldman sets yields exactly the keys that lookups report present, each once, strictly increasing for ordered containers and '
                      'with the same item as find(); size()/empty() equal the number of present keys where an item counter is configured; EllenBinTree and BronsonAVLTreeMap check_consistency() (search-tree order, AVL balance, witness of the imbalanced node)',
        'level_note': 'trusted base as C13; split-order of SplitList traversal and the per-level ordering of skip-list towers are not inspected (would need protected members); trees without iterators are checked through check_consistency() and lookups only',
    },
    'C17': {
        'technique': 'runtime monitoring by model-based differential execution (sequential insert/erase cases with degenerate hash tuples) plus a private-key conservation monitor under concurrent growth; sequential part: the whole content compared with std::set after EVERY operation; each case in a forked child under an address-space limit and an alarm (expiry = inconclusive); ASan/UBSan',
        'level_text': 'Seeded cases = family (CuckooSet list/vector probe sets ordered/unordered; StripedSet std::list/vector/set with load-factor and single-bucket-threshold policies; SplitListSet expandable and static tables; FeldmanHashSet) x parameters '
                      '(initial size 1-64, probe-set size 2-4 and threshold, load factor 1-4, head/array bits 2-8) x hash tuple (identity, constant, k mod m, (k/d) mod m, high bits only, spreading; identical functions for cuckoo; Feldman: keys shifted so they collide on all chunks but one) '
                      'x dense/sparse key set x 4-120 operations: contains() of every key, size() and the final traversal must equal the model after every step; evidence counts the cases in which the container really grew. Found and fixed: F18; known finding F7 (Cuckoo resize drops an element). Second part, concurrent: 2-4 threads fill one container that starts with the minimal table, each thread on keys of its own, so every key has a sequential history whatever the interleaving: an acknowledged insert must stay visible to its owner (contains/find/duplicate insert/update) until the owner erases it, and after the join the set holds exactly the keys the owners believe present (all CuckooSet / StripedSet / intrusive::StripedSet variants of the C16 harness; found and fixed: F24)',
        'level_note': 'trusted base: std::set as reference, the forked-case runner; cuckoo key sets are limited to one probe set per class of keys that collide in BOTH functions (beyond arity x probe-set size such keys can never be stored and insert() resizes forever); '
                      'cases ended by the 2 s alarm or the 1 GB limit are reported as inconclusive, never as violations',
    },
    'C19': {
        'technique': 'runtime monitoring: an iterating thread records every yielded element (touching the current element repeatedly) while updaters run; completeness / multiplicity / order oracle over keys surely present for the whole pass; per-key WGL incl. erase_at as "remove exactly this item"; destroyed-item poison check and ASan',
        'level_text': 'Passes over IterableList (HP/DHP), MichaelHashSet and SplitListSet over IterableList, FeldmanHashSet (HP/DHP/RCU, forward and reverse, keys sharing a 12-bit prefix so array nodes split under the iterator; Feldman sets re-created every 3 passes because they never shrink; hot-spot IterableList variants with 3-4 keys, 3 updaters and erase_at on every second element): the current element never carries the destructor poison '
                      '(never freed under ASan); every key present throughout and never removed/replaced is yielded exactly once (Iterable-based) / at least once (Feldman), in increasing order for IterableList; every yielded item was inserted for its key; '
                      'erase_at(iterator) histories are linearizable with erase_at meaning "remove exactly this item or return false if it is gone". Found and fixed: F16',
        'level_note': LIN_NOTE + '; the order of transient keys is not constrained (IterableList may yield e.g. 5,3 when 5 is erased and 3 inserted into a vacated later node during the pass); Feldman erase_at is not exposed by the container form and is not driven',
    },
    'C20': {
        'technique': 'runtime monitoring by model-based differential execution: single-threaded random call sequences on every container variant of the other harnesses, every result checked against the executable sequential reference model; ASan/UBSan/LSan',
        'level_text': 'All 270 container variants of the C06-C11 and C13-C16 harnesses (queues, bounded queues, stacks, deque, priority queues; lists, hash sets, skip lists, trees, cuckoo/striped sets) are driven by one thread with seeded sequences of 1-200 calls '
                      '(key spaces of 3 and 2000 keys, colliding hashes): return values incl. update\'s pair ((true,true) inserted / (true,false) updated / (false,false) absent and not allowed), observed item ids, functor call counts and the is-new flag, '
                      'pop / extract_min / extract_max order, capacity behaviour, size()/empty()/traversal/check_consistency() after every sequence must equal the model; destroyed items are poisoned and LSan/ASan watch the destruction of every container',
        'level_note': LIN_NOTE + '; sequences are sampled (3.7e5 per quick run), the exhaustive small-scope enumeration of the design is not implemented; disposer call counts are covered through item destructors (poison + LeakSanitizer), not through a counting disposer',
    },
    'C21': {
        'technique': 'runtime monitoring: ownership ledger (owner word CAS on get, payload token of the last putter) and quiescent drain on real FreeList/TaggedFreeList/CachedFreeList under injected delays; ASan; TSan payload happens-before monitor',
        'level_text': 'Seeded runs of 2-4 threads over pools of 1-8 nodes (each thread holds 0-3 nodes, so the refcount-at-zero re-add and head-CAS-failure paths run constantly; contention is measured from library atomic-op counts): '
                      'a node returned by get() must be free in the ledger, carry the payload of its last put(), and at every quiescent point a drain yields exactly the nodes not held (none lost, none foreign, none twice)',
        'level_note': 'trusted base: the harness ledger (relaxed atomics, adds no happens-before edge), x86-64 TSO, sanitizer runtimes; TaggedFreeList is compiled with -DNDEBUG (its constructor asserts atomic<16 bytes>::is_lock_free(), false with libstdc++); schedules sampled, not enumerated',
    },
    'C22': {
        'technique': 'runtime monitoring: critical-section occupancy counters, plain-variable touch (TSan), reentrancy depth tracking and an instrumented lock pool ledger on real spin_lock / reentrant_spin_lock / lock_array / injecting_monitor / pool_monitor',
        'level_text': '21 lock variants (6 back-offs, reentrant 32/64, lock_array with every selection policy and both constructors, injecting_monitor over spin/reentrant/std::mutex, pool_monitor over instrumented vyukov pools of capacity 2 so a third node '
                      'forces the heap fall-back): occupancy fetch_add must return 0 at entry, a plain counter must equal the number of increments, only the owner\'s last unlock admits another thread, a self try_lock on a held spin lock fails, '
                      'a pool lock is never handed to a second node before it is returned and is returned only with no holder and no waiter',
        'level_note': 'trusted base: the harness monitors, x86-64 TSO, TSan runtime (libcds annotates its spin locks for TSan, so TSan sees double entry but not a weakened order inside lock/unlock); blocking acquisitions are made in index order so the workload cannot deadlock; a lost unlock (hang) is left to the watchdog',
    },
    'C23': {
        'technique': 'runtime monitoring: harness container built directly on flat_combining::kernel with per-request execution counters, a single-combiner occupancy counter and response checks; thread churn so publication records are compacted and freed; ASan (freed-record access), TSan (plain variable in the combiner section)',
        'level_text': 'Episodes on fresh kernels (compact factor 1/2/1024, pass count 1/2/8; spin and std::mutex combiner locks; wait strategies empty, backoff, single-mutex-single-condvar and - isolated - the two multi-condvar ones): 1-3 long-lived requesters plus waves of '
                      'short-lived threads issue combine / batch_combine (fc_process serving half of the requests itself) / invoke_exclusive: every request executed exactly once, only one combiner inside, response written and record done when combine returns; '
                      'ASan reports any access to a publication record freed by compact_list. Found and fixed: F6; known finding F6b (wakeup_any walks the list unlocked)',
        'level_note': 'trusted base: the harness monitors, x86-64 TSO, sanitizer runtimes; a use-after-free of a publication record is only visible in the ASan build (in dbg it shows as a libcds assert on a garbage record state at best)',
    },
    'C24': {
        'technique': 'runtime monitoring: side-table ownership ledger keyed by object address plus in-object tokens on real vyukov_queue_pool / lazy_vyukov_queue_pool / bounded_vyukov_queue_pool / pool_allocator; ASan',
        'level_text': '11 pool variants (capacities 2-8, static and dynamic buffers, pool_allocator and its rebind): allocate() may not return an object that is held, a held object may not be overwritten, objects are deallocated by other threads than the allocator, the destructor of the pooled type wipes the token (a destructor run on an object that is held again is seen by the holder); '
                      'strict mode (permits = capacity): the bounded pool may not throw and the unbounded one may not fall back to the heap; overcommit mode past capacity: heap fall-backs are ledgered too, bad_alloc of the bounded pool accepted; '
                      'quiescent drain: exactly the missing objects come back (none lost)',
        'level_note': 'trusted base: the harness ledger, x86-64 TSO, ASan runtime; capacity 1 violates the buffer precondition and is not driven; pools hand out raw storage, so the ledger lives outside the objects',
    },
    'C25': {
        'technique': 'runtime monitoring by differential execution: every bit helper / splitter run against naive reference implementations, exhaustively over all 2^32 32-bit inputs (thorough) with ASan+UBSan as memory/UB oracle',
        'level_text': 'bit_reversal swar/lookup/muldiv (+ byte helpers, all 256 bytes and table entries), bitop MSB/LSB/SBC/ZBC/RBO/complement incl. the portable fall-backs, beans log2floor/log2ceil/floor2/ceil2/is_power2: '
                      'all 2^32 32-bit inputs in the thorough tier (2^24 stratified in quick) and 10^6-10^8 structured/random 64-bit inputs, involution checked; split_bitstring/byte_splitter/number_splitter: all cut-width sequences for 8/16-bit sources, '
                      'seeded sequences for 32-160-bit sources, safe_cut on sources placed at the end of an exact-size heap block (ASan over-read oracle). Found and fixed: F2, F13',
        'level_note': 'trusted base: the reference loops in include/cdsv/pure_*.h, g++ 12 ASan/UBSan; 64-bit inputs are sampled, 32-bit ones exhausted only in the thorough tier',
    },
    'C26': {
        'technique': 'runtime monitoring by differential execution against an independently computed bit-reversed heap enumeration and a stack model (every n up to 2^20 in the thorough tier)',
        'level_text': 'bit_reverse_counter<size_t> and <uint32_t>: for every n <= 2^16 (quick) / 2^20 (thorough) outputs are distinct, lie in the level range, complete levels are permutations of 1..n, the literal prefix clause is evaluated for every n '
                      '(false by design when n+1 is not a power of two: known finding F3, keyed on equality with the reference enumeration so that any other deviation is a new violation); dec() returns the last slot and restores value/reversed_value/high_bit; '
                      'all inc/dec words up to length 26 and random walks of 10^6-10^7 steps against a stack model',
        'level_note': 'trusted base: the reference enumeration in include/cdsv/pure_c26.h',
    },
    'C27': {
        'technique': 'runtime monitoring by differential execution of split_list::regular_hash/dummy_hash and (through a derived probe) bucket_no/parent_bucket against reference arithmetic for table sizes 2^0..2^63; real split lists traversed; UBSan',
        'level_text': 'For swar/lookup/muldiv and every k = 0..63: parity (regular odd, dummy even), own dummy < key < next bucket dummy in split order, parent dummy < child dummy, invariant kept when the table doubles (all 2^16 low patterns at two positions + random hashes); '
                      'bucket_no/parent_bucket for every table size (found and fixed: F4); 160 real split lists with identity hash checked for split order and bucket contiguity at every size reached',
        'level_note': 'trusted base: the reference arithmetic in include/cdsv/pure_c27.h; the probe pins the protected bucket-count field without allocating a 2^32-bucket table',
    },
    'C28': {
        'technique': 'runtime monitoring by exhaustive execution of feldman_hashset metrics::make over all head/array widths and of real FeldmanHashSet instances on adversarial shared-prefix hashes against a minimal-trie model; ASan+UBSan',
        'level_text': 'metrics::make for hash sizes 1,2,4,8 (and 3,6,16,20) x head_bits 0..hash_bits x array_bits 0..16: layout consumes the hash bits exactly, documented minima honoured; 266-284 real FeldmanHashSet<HP> sets (14 instantiations, all three splitters): '
                      'hashes equal except in the last chunk / one bit / all-ones / all-zeros: every distinct hash inserts, equal hashes rejected, all found, size() exact, get_level_statistics equals the model. Known finding F11 (UB for an unallocatable 64-bit head)',
        'level_note': 'trusted base: the trie model in include/cdsv/pure_c28.h; configurations rejected by the constructor\'s own is_correct() asserts and heads wider than 16 bits (not allocatable) are skipped for real sets',
    },
}
for e in ENGINES:
    e['serves_properties'] = sorted(CHECKS.keys())
