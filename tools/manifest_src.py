"""Source of MANIFEST.json (tools/gen_manifest.py). One entry per claimed property."""

HOOKS = {
    'guard': 'KHIZMAX_LIBCDS_VERIF',
    'enable': 'every harness TU and /repo/src/*.cpp are compiled with -DKHIZMAX_LIBCDS_VERIF -I/verif/include -I/repo (tools/gen_ninja.py); '
              'the guard makes cds/algo/atomic.h alias `atomics` to cds_verif::atomics (instrumented std::atomic wrapper calling the perturbation engine)',
    'baseline_off_cmd': 'sh tools/baseline_off.sh',
    'source_commits': ['1de2e61'],   # fix: commits (not hooks): 6b2711f
    'add_only': True,
}

ENGINES = [
    {'name': 'cdsv', 'path': '/verif/include/cdsv, /verif/rt, /verif/harness, /verif/tools/check.py',
     'serves_properties': [],
     'kind_free_text': 'runtime monitoring: real libcds code (rebuilt from /repo working tree, atomics hook on) driven by seeded hostile workloads with injected delays at every atomic operation; '
                       'oracles = WGL linearizability checker against executable sequential models, interval oracles, dispose/ownership ledgers with poisoning, quiescent invariants; '
                       'builds: g++ -O1 -D_DEBUG (libcds asserts on), ASan+UBSan, TSan restricted to harness payload frames, -O2 -DNDEBUG'},
]

NOTES = ('All checks are `python3 tools/check.py <id> --tier quick|thorough`; VERIF_SEED selects the seed. Exit 0 = held on what was observed, '
         '1 = VIOLATION (witness under evidence/replay/<id>/), 2 = harness failure / nothing observed. known_findings.json lists genuine defects (open = KNOWN-FINDING line, fixed = documentation only).')

NOT_YET = 'no registered check yet in this revision (harness under construction; see DESIGN.md section 4 for the planned oracle)'
NOT_APPLICABLE = {}

LIN_NOTE = ('trusted base: the harness adapters, the WGL checker and sequential model (include/cdsv), x86-64 TSO, g++ 12 sanitizer runtimes; '
            'executions are sampled by seeded programs and injected delays, not enumerated')

SMR_NOTE = ('trusted base: the harness (object arena, side-table ledger, logical clock), x86-64 TSO, g++ 12 ASan/LSan runtime; schedules are sampled '
            '(delays injected before every libcds atomic operation, thread churn, tiny retired arrays), not enumerated; memory-order-only weakenings that x86 does not turn into a different execution are out of reach')

CHECKS = {
    'C01': {
        'technique': 'runtime monitoring: guarded-object poison monitor + deterministic scan cases on real cds::gc::HP (classic and in-place scan), ASan build with really freed objects',
        'level_text': 'Readers obtain objects from shared slots through every guard form (protect, protect(f), GuardArray, assign+re-check, copy, guarded_ptr) and keep reading the object\'s state mark while writers '
                      'exchange the slot, retire the old object (both retire overloads) and scans / help-scans / thread detach-reattach run; a DISPOSED mark (or ASan use-after-free) under a live guard is a violation. '
                      '16 configurations: scan type x hazard count {1,2,3,8} x even/odd addresses x thread limit x retired capacity; plus deterministic cases (n retired, protection pattern) checked after scan()',
        'level_note': SMR_NOTE,
    },
    'C02': {
        'technique': 'runtime monitoring: guarded-object poison monitor + deterministic scan cases on real cds::gc::DHP (extension guard blocks, retired-block growth, record reuse), ASan build',
        'level_text': 'Same monitor as C01 on cds::gc::DHP: readers allocate up to 60 guards so the protecting guard sits in an extension block, writers retire bursts up to 600 objects between scans so retired lists '
                      'grow past one block, threads detach with non-empty retired lists and short-lived threads re-use the records; 15 configurations (initial guard count 0/4/5/16/64)',
        'level_note': SMR_NOTE,
    },
    'C03': {
        'technique': 'runtime monitoring: exactly-once dispose ledger over every retired object of the HP and DHP workloads, checked after destruction of the singleton; eager-scan cases; LeakSanitizer',
        'level_text': 'Every object retired in the C01/C02 workloads (10^7 per quick run) is followed in a side-table ledger: the disposer may run at most once (checked inside the disposer), must have run exactly once after '
                      '~HP/~DHP, never for a non-retired object; deterministic eager clause: scan() with no guard on an object frees it, with a guard keeps it until released (n below/at/above array capacity and block size)',
        'level_note': SMR_NOTE,
    },
    'C04': {
        'technique': 'runtime monitoring: reader-side poison monitor inside (nested) read-side critical sections of all four URCU flavours while writers retire / batch_retire / synchronize-then-dispose; ASan build with really freed objects',
        'level_text': 'An object loaded inside a read-side critical section (nesting 1-3, inner sections closing in the middle) is re-read until the outermost access_unlock; the DISPOSED mark or an ASan use-after-free there is a violation. '
                      'Writers unlink and then use every retire form or call synchronize() and dispose the object themselves (checks that synchronize waits for pre-existing readers). 22 configurations: '
                      'general_instant, general_buffered, general_threaded, signal_buffered x buffer capacity {2,3,4,8,256} (overflow path on almost every retire) x lock/back-off, with thread attach/detach churn. '
                      'Capacity 1 is a library precondition violation (debug assert, release livelock) and is not driven',
        'level_note': SMR_NOTE,
    },
    'C05': {
        'technique': 'runtime monitoring: exactly-once dispose ledger over every object retired through the URCU flavours, checked in the disposer and after destruction of the gc<> singleton; LeakSanitizer',
        'level_text': 'Every object retired in the C04 workloads (retire_ptr overloads, batch_retire by iterator and by functor with empty/single/long ranges, bursts past the buffer capacity, force_dispose) '
                      'is followed in a side-table ledger: disposer at most once at any time, exactly once after ~gc (Destruct drains the buffer, the disposer thread makes its final pass), never for a non-retired object',
        'level_note': SMR_NOTE,
    },
    'C06': {
        'technique': 'runtime monitoring: recorded concurrent histories checked by a WGL linearizability checker against a sequential FIFO model; ASan/UBSan; TSan payload happens-before monitor',
        'level_text': 'Every recorded round/segment history (2-4 threads, seeded programs, delays injected before every libcds atomic operation, tiny HP/DHP thresholds so nodes are reclaimed and reused) '
                      'of MSQueue, MoirQueue, BasketQueue, OptimisticQueue (HP and DHP, item counter on/off, relaxed/seq_cst, back-offs), RWQueue and FCQueue (elimination on/off, all wait strategies) '
                      'is linearizable to a FIFO queue incl. at-most-once delivery, no invented item and justified empty results; held on the executions observed, not on all schedules',
        'level_note': LIN_NOTE,
    },
    'C07': {
        'technique': 'runtime monitoring: recorded concurrent histories checked by a WGL linearizability checker against a bounded FIFO model (capacity read from capacity()); ASan/UBSan; TSan payload monitor',
        'level_text': 'Round/segment histories (2-4 threads, prefilled to near-full/near-empty, positions wrap the ring hundreds of times) of container::VyukovMPMCCycleQueue (dynamic/static buffers, capacities 2,4,8, '
                      'every enqueue/dequeue overload), intrusive::VyukovMPMCCycleQueue and the single-consumer VyukovMPSCCycleQueue (front(), front()+pop_front() by the only consumer) are linearizable to a FIFO of the '
                      'reported capacity: enqueue fails only in a full state, dequeue only in the empty state; held on the executions observed',
        'level_note': LIN_NOTE,
    },
    'C08': {
        'technique': 'runtime monitoring: recorded concurrent histories checked by interval oracles (conservation ledger, quasi-FIFO bound, empty rule) that fire only when the recorded intervals force a violation',
        'level_text': 'Round/segment histories of SegmentedQueue (HP/DHP, quasi factors 2,3->4,4,5->8,8, spin and std::mutex segment locks) with a complete sequential drain: every enqueued uid is dequeued exactly once and none is invented; '
                      'for every dequeue fewer than quasi_factor() items whose enqueue had returned before its own enqueue began are surely still queued; an empty result is contradicted only by an item enqueued before the call and dequeued after it',
        'level_note': LIN_NOTE,
    },
    'C09': {
        'technique': 'runtime monitoring: recorded concurrent histories checked by a WGL linearizability checker against a LIFO model; elimination forced by 4-8 contending threads; ASan/UBSan; TSan payload monitor',
        'level_text': 'Round/segment histories of container::TreiberStack (HP/DHP, elimination off / static collision buffers 1,2,4 / dynamic buffer, short and default elimination back-off) and FCStack '
                      '(elimination on/off, std::deque/vector/list, all wait strategies) incl. empty()/clear() are linearizable to a LIFO stack with unique ids (an eliminated pair delivers the item to exactly one popper); '
                      'collision counters must be non-zero or elimination is reported as not reached',
        'level_note': LIN_NOTE,
    },
    'C10': {
        'technique': 'runtime monitoring: recorded concurrent histories checked by a WGL linearizability checker against a sequential deque model; ASan/UBSan',
        'level_text': 'Round/segment histories of FCDeque (elimination on/off, std::deque and boost::container::deque, compact factor 1-2, combine pass count 1-4, all wait strategies) over push/pop at both ends, '
                      'empty() and clear(), biased to near-empty deques where the cross-end collision rule matters, are linearizable to a sequential deque',
        'level_note': LIN_NOTE,
    },
    'C11': {
        'technique': 'runtime monitoring: WGL linearizability checker against a (bounded) max-priority multiset for FCPriorityQueue and phased MSPriorityQueue programs; conservation ledger + push-fail interval rule for mixed MSPriorityQueue histories',
        'level_text': 'FCPriorityQueue (vector/deque/stable_vector, several wait strategies): every history linearizable to a max-priority multiset (equal priorities frequent). MSPriorityQueue (capacity() 1..15, static/dynamic buffer, '
                      'spin/std::mutex): push-only phase / barrier / pop-only phase programs linearizable to the bounded max-priority queue; free mixed histories: no item lost, duplicated or invented, '
                      'and a push fails only if capacity items can have been present at some instant of the call',
        'level_note': LIN_NOTE,
    },
    'C12': {
        'technique': 'runtime monitoring: online exact-sequence oracle on a real producer/consumer thread pair with injected delays; push/pop fail rules from published counters; byte-exact record check; ASan; TSan payload happens-before monitor',
        'level_text': 'One producer and one consumer thread drive WeakRingBuffer<T> (every push/pop/front overload, capacities 2-128, pow2 and non-pow2, static/dynamic buffers, batches up to capacity) and WeakRingBuffer<void> '
                      '(capacities 64,104,128,1000,4096, record sizes 1..capacity-16 steering tails of 0/8/16 bytes): delivered values must be exactly 0,1,2,...; each byte record must have its exact size and keyed-PRNG content; '
                      'a failed push/pop is a violation only when the published counters prove enough space/elements; plus a forked sequential probe for the full-ring front() assert defect (fixed in 6b53ed0)',
        'level_note': 'trusted base: the harness oracle and counters, x86-64 TSO, sanitizer runtimes; WeakRingBuffer<void> capacity must be a multiple of 8 and records never wrap (a failed push on an empty ring is only a violation when 2x rounded size fits); '
                      'record sizes above capacity-16 and batches == capacity are only driven in NDEBUG builds (library asserts)',
    },
}
for e in ENGINES:
    e['serves_properties'] = sorted(CHECKS.keys())
