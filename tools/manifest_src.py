"""Source of MANIFEST.json (tools/gen_manifest.py). One entry per claimed property."""

HOOKS = {
    'guard': 'KHIZMAX_LIBCDS_VERIF',
    'enable': 'every harness TU and /repo/src/*.cpp are compiled with -DKHIZMAX_LIBCDS_VERIF -I/verif/include -I/repo (tools/gen_ninja.py); '
              'the guard makes cds/algo/atomic.h alias `atomics` to cds_verif::atomics (instrumented std::atomic wrapper calling the perturbation engine)',
    'baseline_off_cmd': 'sh tools/baseline_off.sh',
    'source_commits': ['1de2e61'],
    'add_only': True,
}

ENGINES = [
    {'name': 'cdsv', 'path': '/verif/include/cdsv, /verif/rt, /verif/harness, /verif/tools/check.py',
     'serves_properties': [],
     'kind_free_text': 'runtime monitoring: real libcds code (rebuilt from /repo working tree, atomics hook on) driven by seeded hostile workloads with injected delays at every atomic operation; '
                       'oracles = WGL linearizability checker against executable sequential models, interval oracles, dispose/ownership ledgers with poisoning, quiescent invariants; '
                       'builds: g++ -O1 -D_DEBUG (libcds asserts on), ASan+UBSan, TSan restricted to harness payload frames, -O2 -DNDEBUG'},
]

NOTES = ('All checks are `python3 tools/check.py <id> --tier quick|thorough`; VERIF_SEED selects the seed. Exit 0 = held on what was observed, '
         '1 = VIOLATION (witness under evidence/replay/<id>/), 2 = harness failure / nothing observed. known_findings.json lists genuine defects (open = KNOWN-FINDING line, fixed = documentation only).')

NOT_YET = 'no registered check yet in this revision (harness under construction; see DESIGN.md section 4 for the planned oracle)'
NOT_APPLICABLE = {}

LIN_NOTE = ('trusted base: the harness adapters, the WGL checker and sequential model (include/cdsv), x86-64 TSO, g++ 12 sanitizer runtimes; '
            'executions are sampled by seeded programs and injected delays, not enumerated')

CHECKS = {
    'C06': {
        'technique': 'runtime monitoring: recorded concurrent histories checked by a WGL linearizability checker against a sequential FIFO model; ASan/UBSan; TSan payload happens-before monitor',
        'level_text': 'Every recorded round/segment history (2-4 threads, seeded programs, delays injected before every libcds atomic operation, tiny HP/DHP thresholds so nodes are reclaimed and reused) '
                      'of MSQueue, MoirQueue, BasketQueue, OptimisticQueue (HP and DHP, item counter on/off, relaxed/seq_cst, back-offs), RWQueue and FCQueue (elimination on/off, all wait strategies) '
                      'is linearizable to a FIFO queue incl. at-most-once delivery, no invented item and justified empty results; held on the executions observed, not on all schedules',
        'level_note': LIN_NOTE,
    },
}
for e in ENGINES:
    e['serves_properties'] = sorted(CHECKS.keys())
