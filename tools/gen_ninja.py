#!/usr/bin/env python3
"""Writes /verif/build/build.ninja. Depfiles make every target depend on the /repo headers and sources
it really includes, so any edit under /repo triggers exactly the necessary recompiles."""
import os, sys, json

VERIF = os.path.dirname(os.path.dirname(os.path.abspath(__file__)))
REPO = os.environ.get('CDSV_REPO', '/repo')
BUILD = os.path.join(VERIF, 'build')

COMMON = '-std=c++11 -g1 -mcx16 -pthread -DKHIZMAX_LIBCDS_VERIF -I%s/include -I%s -Wno-deprecated-declarations' % (VERIF, REPO)
BUILDS = {
    # name: (compiler, cxxflags, ldflags)
    # -fno-lifetime-dse: keep the poison marks that destructors of harness types write into dying objects
    'dbg':  ('g++', '-O1 -D_DEBUG -DCDS_ENABLE_HPSTAT -fno-lifetime-dse', ''),
    'rel':  ('g++', '-O2 -DNDEBUG -fno-lifetime-dse', ''),
    'asan': ('g++', '-O1 -D_DEBUG -fsanitize=address,undefined -fno-omit-frame-pointer -fno-sanitize-recover=all -fno-lifetime-dse', '-fsanitize=address,undefined'),
    'tsan': ('g++', '-O1 -fsanitize=thread -fno-omit-frame-pointer -Wno-tsan -fno-lifetime-dse', '-fsanitize=thread'),
}
LIBSRC = ['dhp.cpp', 'dllmain.cpp', 'hp.cpp', 'hp_thread_local.cpp', 'init.cpp', 'thread_data.cpp', 'topology_linux.cpp', 'urcu_gp.cpp', 'urcu_sh.cpp']

def load_targets():
    return json.load(open(os.path.join(VERIF, 'tools', 'targets.json')))

def main():
    targets = load_targets()
    os.makedirs(BUILD, exist_ok=True)
    out = []
    w = out.append
    w('ninja_required_version = 1.5')
    w('builddir = %s' % BUILD)
    w('rule cxx')
    w('  command = $cxx $flags -MMD -MF $out.d -c $in -o $out')
    w('  depfile = $out.d')
    w('  deps = gcc')
    w('  description = CXX $out')
    w('rule link')
    w('  command = $cxx $ldflags -o $out $in $libs')
    w('  description = LINK $out')
    # engine, no sanitizers
    eng = os.path.join(BUILD, 'rt', 'engine.o')
    w('build %s: cxx %s' % (eng, os.path.join(VERIF, 'rt', 'engine.cpp')))
    w('  cxx = g++')
    w('  flags = -std=c++11 -O2 -g1 -pthread -I%s/include' % VERIF)
    for b, (cxx, flags, ldflags) in BUILDS.items():
        libobjs = []
        for s in LIBSRC:
            o = os.path.join(BUILD, b, 'lib', s.replace('.cpp', '.o'))
            libobjs.append(o)
            w('build %s: cxx %s' % (o, os.path.join(REPO, 'src', s)))
            w('  cxx = %s' % cxx)
            w('  flags = %s %s' % (COMMON, flags))
        for t in targets:
            if b not in t['builds']:
                continue
            o = os.path.join(BUILD, b, t['name'] + '.o')
            exe = os.path.join(BUILD, b, t['name'])
            extra = t.get('cxxflags', '')
            w('build %s: cxx %s' % (o, os.path.join(VERIF, 'harness', t['src'])))
            w('  cxx = %s' % cxx)
            w('  flags = %s %s %s' % (COMMON, flags, extra))
            objs = [o, eng] + (libobjs if t.get('libcds', True) else [])
            w('build %s: link %s' % (exe, ' '.join(objs)))
            w('  cxx = %s' % cxx)
            w('  ldflags = -pthread %s' % ldflags)
            w('  libs = %s -latomic' % t.get('libs', ''))
    w('')
    p = os.path.join(BUILD, 'build.ninja')
    txt = '\n'.join(out)
    if not os.path.exists(p) or open(p).read() != txt:
        open(p, 'w').write(txt)

if __name__ == '__main__':
    main()
