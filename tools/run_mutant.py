#!/usr/bin/env python3
"""Self-validation helper (not part of any registered check): applies a seeded change to /repo, runs the checks of the
given properties against it, and restores /repo.

    python3 tools/run_mutant.py /verif/seeded/<id> [--props C13,C18] [--tier quick] [--seeds 1,2]

The seeded directory holds patch.diff and meta.json. Evidence of these runs goes to a scratch directory (never to /verif/evidence).
Result: <dir>/detection.json  {prop: {seed: {"exit": rc, "violation_lines": [...]}}}
"""
import os, sys, json, subprocess, tempfile, shutil, time

VERIF = os.path.dirname(os.path.dirname(os.path.abspath(__file__)))
REPO = '/repo'


def main():
    d = os.path.abspath(sys.argv[1])
    meta = json.load(open(os.path.join(d, 'meta.json')))
    props = [meta['property']]
    tier = 'quick'
    seeds = [1]
    a = sys.argv[2:]
    while a:
        if a[0] == '--props': props = a[1].split(','); a = a[2:]
        elif a[0] == '--tier': tier = a[1]; a = a[2:]
        elif a[0] == '--seeds': seeds = [int(x) for x in a[1].split(',')]; a = a[2:]
        else: a = a[1:]
    st = subprocess.run(['git', '-C', REPO, 'status', '--porcelain', '--untracked-files=no'], capture_output=True, text=True).stdout.strip()
    if st:
        print('run_mutant: /repo has uncommitted changes, refusing'); sys.exit(2)
    patch = os.path.join(d, 'patch.diff')
    r = subprocess.run(['git', '-C', REPO, 'apply', '--check', patch], capture_output=True, text=True)
    if r.returncode != 0:
        print('run_mutant: patch does not apply:', r.stderr[:500]); sys.exit(2)
    subprocess.check_call(['git', '-C', REPO, 'apply', patch])
    result = {}
    scratch = tempfile.mkdtemp(prefix='cdsv_mut_')
    try:
        for p in props:
            for s in seeds:
                env = dict(os.environ); env['VERIF_SEED'] = str(s); env['CDSV_EVID_DIR'] = scratch
                t0 = time.time()
                r = subprocess.run([sys.executable, os.path.join(VERIF, 'tools', 'check.py'), p, '--tier', tier], capture_output=True, text=True, env=env, cwd=VERIF)
                lines = [l for l in r.stdout.splitlines() if l.startswith('VIOLATION') or l.strip().startswith('violation key=') or l.startswith('KNOWN-FINDING') or 'HARNESS' in l or 'BUILD FAILED' in l]
                result.setdefault(p, {})[str(s)] = {'exit': r.returncode, 'wall_s': round(time.time() - t0, 1), 'lines': [l[:400] for l in lines[:12]]}
                print('%s seed %d: exit %d (%.0fs) %s' % (p, s, r.returncode, time.time() - t0, 'DETECTED' if r.returncode == 1 else ('build/harness failure' if r.returncode == 2 else 'missed')), flush=True)
                for l in lines[:4]:
                    print('    ' + l[:300])
    finally:
        subprocess.check_call(['git', '-C', REPO, 'checkout', '--', '.'])
        shutil.rmtree(scratch, ignore_errors=True)
    json.dump(result, open(os.path.join(d, 'detection.json'), 'w'), indent=1)
    # rebuild nothing here: the next check run rebuilds from the restored tree through the depfiles


if __name__ == '__main__':
    main()
