#!/usr/bin/env python3
"""Single entry point of every quick/thorough command.

    python3 tools/check.py <property id> --tier quick|thorough [--seed N]
    python3 tools/check.py --replay <witness.json>

Steps: (1) regenerate build.ninja and build exactly the harness binaries of the property from /repo's
current working tree (hooks on); (2) run the harness processes (several in parallel) with VERIF_SEED,
under a wall-clock watchdog; (3) match every violation key (model violations, ledger violations,
aborts/signals, sanitizer reports, hangs) against known_findings.json; (4) write evidence/<id>.json.
Exit 0: property held on everything explored (KNOWN-FINDING lines allowed); exit 1: unlisted violation
(VIOLATION line printed); exit 2: harness failure (nothing can be concluded).
"""
import os, sys, json, subprocess, time, re, shutil, signal, hashlib, threading

VERIF = os.path.dirname(os.path.dirname(os.path.abspath(__file__)))
sys.path.insert(0, os.path.join(VERIF, 'tools'))
import plan as PLAN   # noqa: E402

BUILD = os.path.join(VERIF, 'build')
EVID = os.environ.get('CDSV_EVID_DIR') or os.path.join(VERIF, 'evidence')   # the override is used by tools/run_mutant.py only
NCPU = os.cpu_count() or 4


def log(*a):
    print(*a, flush=True)


def build_targets(targets):
    """targets: set of (build, name). Returns (ok, output)."""
    r = subprocess.run([sys.executable, os.path.join(VERIF, 'tools', 'gen_ninja.py')], capture_output=True, text=True)
    if r.returncode != 0:
        return False, r.stdout + r.stderr
    paths = [os.path.join(BUILD, b, n) for (b, n) in sorted(targets)]
    r = subprocess.run(['ninja', '-f', os.path.join(BUILD, 'build.ninja'), '-j', str(NCPU)] + paths, capture_output=True, text=True)
    return r.returncode == 0, r.stdout[-6000:] + r.stderr[-3000:]


SAN_ENV = {
    'ASAN_OPTIONS': 'abort_on_error=0:exitcode=99:detect_leaks=1:detect_stack_use_after_return=0:allocator_may_return_null=1:hard_rss_limit_mb=12000:quarantine_size_mb=64',
    'UBSAN_OPTIONS': 'print_stacktrace=1:halt_on_error=1:exitcode=98',
    'LSAN_OPTIONS': 'exitcode=97:max_leaks=5',
    'TSAN_OPTIONS': 'halt_on_error=0:exitcode=0:report_signal_unsafe=0:history_size=4:second_deadlock_stack=0',
}


class Job:
    def __init__(self, prop, target, build, args, threads, timeout):
        self.prop, self.target, self.build, self.args, self.threads, self.timeout = prop, target, build, args, threads, timeout
        self.rc = None
        self.result = None
        self.stderr_tail = ''
        self.timed_out = False
        self.wall = 0.0
        self.attempt = 0

    def label(self):
        return '%s/%s %s' % (self.build, self.target, ' '.join(self.args))


def run_job(job, seed, tier, workdir, idx):
    out = os.path.join(workdir, 'res_%d_%d.json' % (idx, job.attempt))
    errp = os.path.join(workdir, 'err_%d_%d.txt' % (idx, job.attempt))
    exe = os.path.join(BUILD, job.build, job.target)
    cmd = [exe, '--seed', str(seed), '--tier', tier, '--build', job.build, '--prop', job.prop, '--out', out] + job.args
    env = dict(os.environ)
    env.update(SAN_ENV)
    if job.build == 'tsan':
        env['TSAN_OPTIONS'] += ':log_path=' + os.path.join(workdir, 'tsan_%d' % idx)
    t0 = time.time()
    with open(errp, 'wb') as ef:
        p = subprocess.Popen(cmd, stdout=ef, stderr=ef, env=env, cwd=workdir, start_new_session=True)
        try:
            p.wait(timeout=job.timeout)
        except subprocess.TimeoutExpired:
            job.timed_out = True
            try:
                os.killpg(p.pid, signal.SIGKILL)
            except Exception:
                pass
            p.wait()
    job.wall = time.time() - t0
    job.rc = p.returncode
    try:
        with open(errp, 'r', errors='replace') as f:
            txt = f.read()
    except Exception:
        txt = ''
    job.stderr_full = txt
    job.stderr_tail = txt[-8000:]
    job.result = None
    if os.path.exists(out):
        try:
            job.result = json.load(open(out))
        except Exception as e:
            job.result = None
            job.stderr_tail += '\n[check.py] result JSON unreadable: %s' % e
    if job.build == 'tsan':
        job.tsan_logs = [os.path.join(workdir, f) for f in os.listdir(workdir) if f.startswith('tsan_%d.' % idx)]
    return job


def last_variant(stderr_text):
    m = re.findall(r'^@@variant (.*)$', stderr_text, re.M)
    return m[-1].strip() if m else '?'


def still_progressing(stderr_text, window=120):
    """Heartbeat lines '@@beat <seconds> <logical clock> <evaluations+operations>' are written every 5 s by every harness. True if the
    logical clock or the evaluation counters still advanced within the last `window` seconds before the process was killed."""
    beats = re.findall(r'^@@beat (\d+) (\d+) (\d+)$', stderr_text, re.M)
    if len(beats) < 3:
        return False
    beats = [(int(a), int(b), int(c)) for a, b, c in beats]
    last_t = beats[-1][0]
    tail = [b for b in beats if b[0] >= last_t - window]
    if len(tail) < 3:
        return False
    return (tail[0][1], tail[0][2]) != (tail[-1][1], tail[-1][2])


def sanitizer_key(txt):
    """Derive a stable key from a sanitizer report: kind + first frame inside /repo."""
    m = re.search(r'ERROR: (AddressSanitizer|LeakSanitizer): ([^\n]*)', txt)
    kind = None
    if m:
        kind = (m.group(1) + ':' + m.group(2).split(' on ')[0].split(' in ')[0]).strip().replace(' ', '-')
    m2 = re.search(r'runtime error: ([^\n]*)', txt)
    if not kind and m2:
        kind = 'UBSan:' + re.sub(r'0x[0-9a-f]+', 'ADDR', m2.group(1))[:80].replace(' ', '-')
    if not kind:
        return None
    fr = re.search(r'#\d+ 0x[0-9a-f]+ in ([^\n]*?) (/repo/[^\s:]+):(\d+)', txt)
    where = ''
    if fr:
        fn = re.sub(r'\(.*$', '', fr.group(1))
        fn = re.sub(r'<.*$', '', fn)
        where = ':' + fn.split('::')[-1] + '@' + os.path.basename(fr.group(2))
    return kind + where


def tsan_payload_reports(job):
    """Count TSan reports whose racing access' innermost frame is a harness payload function."""
    total = 0
    payload = []
    for lp in getattr(job, 'tsan_logs', []):
        try:
            txt = open(lp, errors='replace').read()
        except Exception:
            continue
        for rep in txt.split('WARNING: ThreadSanitizer:')[1:]:
            total += 1
            if not rep.lstrip().startswith('data race'):
                continue
            # innermost frames of the two accesses are the '#0' lines of the first two stacks
            tops = re.findall(r'#0 [^\n]*', rep)[:2]
            # BOTH racing accesses must be harness payload accesses (a payload read racing with libcds' own free/reuse of a node is
            # TSan's blindness to the fence-based reclamation protocols, not a missing edge for user data)
            # A harness access = cdsv::payload_* / cdsv::cs_touch, or any innermost frame whose source file is harness code (the
            # intrusive variants read and write the user's item directly in the harness).
            # (only harness/*.cpp: the item destructor's poison write in include/cdsv is ordered by the reclamation protocol, which
            # TSan cannot follow where it uses fences)
            hdirs = (os.path.join(VERIF, 'harness') + os.sep,)
            if len(tops) == 2 and all(('cdsv::payload_' in t or 'cdsv::cs_touch' in t or any(h in t for h in hdirs)) for t in tops):
                payload.append('WARNING: ThreadSanitizer:' + rep[:3000])
    return total, payload


def load_known():
    p = os.path.join(VERIF, 'known_findings.json')
    if not os.path.exists(p):
        return []
    return json.load(open(p)).get('findings', [])


def match_known(known, prop, key, text):
    for k in known:
        if k.get('status') != 'open':
            continue   # 'fixed' entries are documentation only and suppress nothing
        if k.get('property') != prop:
            continue
        m = k.get('match', {})
        if 'key_regex' in m and not re.search(m['key_regex'], key):
            continue
        if 'text_regex' in m and not re.search(m['text_regex'], text or ''):
            continue
        return k
    return None


def write_evidence(prop, tier, seed, level, coverage, wall, violations, assumptions):
    os.makedirs(EVID, exist_ok=True)
    ev = {
        'property_id': prop, 'tier': tier, 'seed': seed, 'level': level,
        'coverage': coverage, 'assumptions': assumptions, 'wall_s': round(wall, 2), 'violations': violations,
    }
    tmp = os.path.join(EVID, prop + '.json.tmp')
    json.dump(ev, open(tmp, 'w'), indent=1)
    os.replace(tmp, os.path.join(EVID, prop + '.json'))


def merge_prop(dst, src):
    for k in ('evaluations', 'operations', 'overlap_pairs', 'nontrivial', 'distinct_nontrivial', 'checker_budget', 'fp_overflow'):
        dst[k] = dst.get(k, 0) + int(src.get(k, 0))
    for k in ('mechanisms', 'extra', 'variants'):
        d = dst.setdefault(k, {})
        for kk, vv in src.get(k, {}).items():
            d[kk] = d.get(kk, 0) + vv
    if src.get('rule'):
        dst['rule'] = src['rule']
    s = dst.setdefault('samples', [])
    for x in src.get('samples', []):
        if len(s) < 5:
            s.append(x)


def main():
    argv = sys.argv[1:]
    if argv and argv[0] == '--replay':
        import replay
        sys.exit(replay.main(argv[1:]))
    if not argv:
        print(__doc__)
        sys.exit(2)
    prop = argv[0]
    tier = os.environ.get('VERIF_TIER', 'quick')
    seed = int(os.environ.get('VERIF_SEED', '1') or 1)
    only_build = None
    scale = None
    i = 1
    while i < len(argv):
        if argv[i] == '--tier':
            tier = argv[i + 1]; i += 2
        elif argv[i] == '--seed':
            seed = int(argv[i + 1]); i += 2
        elif argv[i] == '--only-build':
            only_build = argv[i + 1]; i += 2
        elif argv[i] == '--scale':
            scale = argv[i + 1]; i += 2
        else:
            i += 1
    if prop not in PLAN.PROPS:
        log('check.py: unknown or unclaimed property', prop)
        sys.exit(2)
    spec = PLAN.PROPS[prop]
    t0 = time.time()
    jobs = []
    for (target, build, args, threads, timeout) in spec['jobs'](tier, seed):
        if only_build and build != only_build:
            continue
        if scale:
            args = list(args) + ['--scale', scale]
        elif tier == 'thorough' and spec.get('thorough_scale'):
            # keeps the thorough run of the expensive properties near one hour on a quiet 16-core machine
            args = list(args)
            if '--scale' in args:
                i = args.index('--scale')
                args[i + 1] = str(float(args[i + 1]) * spec['thorough_scale'])
            else:
                args += ['--scale', str(spec['thorough_scale'])]
        jobs.append(Job(prop, target, build, list(args), threads, timeout))
    if not jobs:
        log('check.py: no jobs for', prop)
        sys.exit(2)

    ok, out = build_targets({(j.build, j.target) for j in jobs})
    if not ok:
        log(out)
        log('check.py: BUILD FAILED for property %s (harness failure, exit 2)' % prop)
        sys.exit(2)
    log('[%s] build up to date (%.1fs); %d harness processes, tier=%s seed=%d' % (prop, time.time() - t0, len(jobs), tier, seed))

    workdir = os.path.join(BUILD, 'run', '%s_%s_%d' % (prop, tier, os.getpid()))
    shutil.rmtree(workdir, ignore_errors=True)
    os.makedirs(workdir)

    # scheduler: keep the sum of worker threads of running jobs <= NCPU
    lock = threading.Lock()
    pending = list(enumerate(jobs))
    running = {}
    done = []

    def worker_thread(idx, job):
        run_job(job, seed, tier, workdir, idx)
        # a watchdog expiry is inconclusive unless reproduced: re-run once with the same seed
        if job.timed_out and job.attempt == 0:
            first_tail = job.stderr_tail
            job.attempt = 1
            job.timed_out = False
            run_job(job, seed, tier, workdir, idx)
            job.first_timeout_tail = first_tail
            job.retried = True
        with lock:
            del running[idx]
            done.append(job)

    threads = []
    while True:
        with lock:
            load = sum(j.threads for j in running.values())
            started = False
            for k, (idx, job) in enumerate(pending):
                if load + job.threads <= NCPU or not running:
                    pending.pop(k)
                    running[idx] = job
                    th = threading.Thread(target=worker_thread, args=(idx, job))
                    th.start()
                    threads.append(th)
                    started = True
                    break
            finished = not pending and not running
        if finished:
            break
        if not started:
            time.sleep(0.05)
    for th in threads:
        th.join()

    # ---------------------------------------------------------------- collect
    known = load_known()
    found = []      # (prop, key, text, witness)
    harness_fail = []
    merged = {}
    builds_summary = {}
    rt = {}
    inconclusive = []
    tsan_total = 0
    for job in jobs:
        bs = builds_summary.setdefault(job.build, {'processes': 0, 'violations': 0, 'wall_s': 0.0})
        bs['processes'] += 1
        bs['wall_s'] = round(bs['wall_s'] + job.wall, 1)
        variant = last_variant(getattr(job, 'stderr_full', job.stderr_tail))
        res = job.result
        if getattr(job, 'retried', False) and not job.timed_out:
            inconclusive.append('watchdog fired once for %s (not reproduced on re-run)' % job.label())
        if job.timed_out and still_progressing(getattr(job, 'stderr_full', '')):
            # the wall-clock watchdog fired twice, but the heartbeat shows that executions were still being completed when the
            # process was killed: too slow for the budget on this (loaded) machine, which says nothing about the property
            inconclusive.append('process %s exceeded its wall-clock budget of %ds twice while still making progress (slow machine?): not evaluated' % (job.label(), job.timeout))
            continue
        if job.timed_out:
            found.append((prop, 'hang:%s:%s' % (job.target, variant), 'process %s did not finish within %ds in two consecutive runs (variant in flight: %s)' % (job.label(), job.timeout, variant),
                          {'stderr_tail': job.stderr_tail[-3000:]}))
            bs['violations'] += 1
            continue
        if job.rc == 2 or (job.rc == 0 and res is None):
            harness_fail.append('%s rc=%s: %s' % (job.label(), job.rc, job.stderr_tail[-1500:]))
            continue
        if job.rc not in (0, 1) or res is None:
            # crash: signal, abort (libcds assert), sanitizer report
            skey = sanitizer_key(job.stderr_full)
            if skey is None:
                am = re.search(r'Assertion `([^\']*)\' failed', job.stderr_full)
                if am:
                    skey = 'assert:' + re.sub(r'\s+', ' ', am.group(1))[:100]
                else:
                    skey = 'crash:rc=%s' % job.rc
            if job.build == 'asan' and skey.startswith('LeakSanitizer') and '/repo/' not in job.stderr_full and 'cds::' not in job.stderr_full:
                harness_fail.append('%s: leak outside libcds: %s' % (job.label(), job.stderr_tail[-1500:]))
                continue
            # monitor reports printed before the process died
            pre = re.findall(r'^@@violation prop=(\S+) key=(\S+) (.*)$', job.stderr_full, re.M)   # variant names never contain spaces
            seen_pre = set()
            for (vp, vkey, vtext) in pre:
                if (vp, vkey) in seen_pre:
                    continue
                seen_pre.add((vp, vkey))
                found.append((vp, vkey, vtext + ' [reported before the process died: %s]' % job.label(), None))
            found.append((prop, '%s:%s' % (skey, variant), 'process %s died (rc=%s) while running variant %s' % (job.label(), job.rc, variant),
                          {'stderr_tail': job.stderr_tail[-6000:]}))
            bs['violations'] += 1
            # partial results of a crashed process are not merged
            continue
        for v in res.get('violations', []):
            cnt = res.get('violation_counts', {}).get(v['prop'] + '|' + v['key'], 1)
            found.append((v['prop'], v['key'], v['text'] + ' [%d occurrence(s) in %s]' % (cnt, job.label()), v.get('witness')))
            bs['violations'] += 1
        for pid, ps in res.get('props', {}).items():
            per_build = merged.setdefault(pid, {}).setdefault(job.build, {})
            merge_prop(per_build, ps)
        for k, v in res.get('rt', {}).items():
            rt[k] = rt.get(k, 0) + v
        inconclusive.extend(res.get('inconclusive', []))
        if job.build == 'tsan':
            tot, pay = tsan_payload_reports(job)
            tsan_total += tot
            bs['tsan_reports_total'] = bs.get('tsan_reports_total', 0) + tot
            bs['tsan_reports_in_payload'] = bs.get('tsan_reports_in_payload', 0) + len(pay)
            for rep in pay[:3]:
                found.append((prop, 'tsan-payload:%s' % job.target, 'ThreadSanitizer: data race on harness payload handed through the container (missing happens-before)', {'report': rep}))
                bs['violations'] += 1

    if harness_fail and not found:
        for h in harness_fail:
            log('HARNESS-FAILURE:', h)
        log('check.py: harness failure for %s (exit 2)' % prop)
        sys.exit(2)

    # ---------------------------------------------------------------- evidence
    mine = merged.get(prop, {})
    cov = {'evaluations': 0, 'operations': 0, 'overlap_pairs': 0, 'nontrivial_executions': 0, 'checker_budget_exceeded': 0}
    distinct_by_build = {}
    mech = {}
    extra = {}
    variants = {}
    samples = []
    rule = ''
    for b, ps in mine.items():
        cov['evaluations'] += ps.get('evaluations', 0)
        cov['operations'] += ps.get('operations', 0)
        cov['overlap_pairs'] += ps.get('overlap_pairs', 0)
        cov['nontrivial_executions'] += ps.get('nontrivial', 0)
        cov['checker_budget_exceeded'] += ps.get('checker_budget', 0)
        distinct_by_build[b] = ps.get('distinct_nontrivial', 0)
        for k, v in ps.get('mechanisms', {}).items():
            mech[k] = mech.get(k, 0) + v
        for k, v in ps.get('extra', {}).items():
            extra[k] = extra.get(k, 0) + v
        for k, v in ps.get('variants', {}).items():
            variants[k] = variants.get(k, 0) + v
        for s in ps.get('samples', []):
            if len(samples) < 4:
                if isinstance(s, dict):
                    s = dict(s); s['build'] = b
                samples.append(s)
        rule = ps.get('rule') or rule
    # distinct cases are counted per build (fingerprints are salted with the variant, shards are disjoint);
    # across builds the maximum is reported so that the same case seen in two builds is not counted twice
    cov['distinct_nontrivial'] = max(distinct_by_build.values()) if distinct_by_build else 0
    cov['distinct_nontrivial_by_build'] = distinct_by_build
    cov['rule'] = spec.get('rule') or rule
    if not samples and variants:
        # no harness-provided sample (should not happen): at least show what was run
        samples = [{'variant': k, 'executions': v} for k, v in list(variants.items())[:3]]
    cov['samples'] = samples
    cov['mechanisms'] = mech
    not_reached = [m for m in spec.get('mechanisms_required', []) if not mech.get(m)]
    cov['inconclusive'] = {'checker_budget': cov['checker_budget_exceeded'], 'mechanisms_not_reached': not_reached, 'notes': inconclusive[:50]}
    cov['observations'] = extra
    cov['variants'] = variants
    cov['variant_count'] = len(variants)
    cov['builds'] = builds_summary
    cov['perturbation'] = rt
    cov['exhaustive'] = bool(spec.get('exhaustive', False)) and tier == 'thorough'
    if 'post' in spec:
        spec['post'](cov, tier)

    # ---------------------------------------------------------------- verdict
    unlisted = []
    listed = {}
    for (vp, key, text, wit) in found:
        k = match_known(known, vp, key, text)
        if k:
            listed.setdefault(k['id'], (k, []))[1].append((vp, key, text))
        else:
            unlisted.append((vp, key, text, wit))
    cov['known_findings_seen'] = {kid: len(v[1]) for kid, v in listed.items()}
    nviol = len(unlisted)
    write_evidence(prop, tier, seed, 'exploration', cov, time.time() - t0, nviol, spec.get('assumptions', PLAN.DEFAULT_ASSUMPTIONS))

    for kid, (k, occ) in listed.items():
        log(k['line'] + '  [seen %d time(s) in this run, e.g. %s]' % (len(occ), occ[0][1]))
    if cov['evaluations'] == 0 and not found:
        log('check.py: the run observed nothing for %s (harness failure, exit 2)' % prop)
        sys.exit(2)
    if unlisted:
        rdir = os.path.join(EVID, 'replay', prop)
        os.makedirs(rdir, exist_ok=True)
        seen = set()
        for n, (vp, key, text, wit) in enumerate(unlisted):
            h = hashlib.sha1((vp + key).encode()).hexdigest()[:10]
            path = os.path.join(rdir, '%s_%s_%d.json' % (tier, h, n))
            json.dump({'property': vp, 'key': key, 'text': text, 'seed': seed, 'tier': tier, 'witness': wit}, open(path, 'w'), indent=1)
            if (vp, key) in seen:
                continue
            seen.add((vp, key))
            log('  violation key=%s: %s%s' % (key, text, '' if vp == prop else '  [oracle of %s, which shares this harness; the execution was produced by the check of %s]' % (vp, prop)))
            log('VIOLATION property=%s replay=%s' % (prop, path))
        shutil.rmtree(workdir, ignore_errors=True)
        sys.exit(1)
    log('[%s] held on what was observed: %d executions (%d distinct non-trivial), %d operations, %d overlapping pairs; %d variants; inconclusive checker calls: %d; wall %.1fs'
        % (prop, cov['evaluations'], cov['distinct_nontrivial'], cov['operations'], cov['overlap_pairs'], cov['variant_count'], cov['checker_budget_exceeded'], time.time() - t0))
    if not_reached:
        log('[%s] mechanisms not reached in this run (inconclusive for them): %s' % (prop, ', '.join(not_reached)))
    shutil.rmtree(workdir, ignore_errors=True)
    sys.exit(0)


if __name__ == '__main__':
    main()
