#!/usr/bin/env python3
"""MANIFEST.setup_cmd: builds every harness binary of every claimed property (offline, from files on disk)."""
import os, sys, subprocess
VERIF = os.path.dirname(os.path.dirname(os.path.abspath(__file__)))
sys.path.insert(0, os.path.join(VERIF, 'tools'))
import plan as PLAN
targets = set()
for pid, spec in PLAN.PROPS.items():
    for tier in ('quick', 'thorough'):
        for (target, build, args, threads, timeout) in spec['jobs'](tier, 1):
            targets.add((build, target))
subprocess.check_call([sys.executable, os.path.join(VERIF, 'tools', 'gen_ninja.py')])
paths = [os.path.join(VERIF, 'build', b, n) for (b, n) in sorted(targets)]
r = subprocess.call(['ninja', '-f', os.path.join(VERIF, 'build', 'build.ninja'), '-j', str(os.cpu_count() or 4), '-k', '0'] + paths)
os.makedirs(os.path.join(VERIF, 'evidence'), exist_ok=True)
sys.exit(0 if r == 0 else 1)
