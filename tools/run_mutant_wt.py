#!/usr/bin/env python3
"""Self-validation helper (not part of any registered check): like run_mutant.py, but leaves /repo alone so that it can run beside
other checks. It creates a scratch git worktree of /repo's HEAD with the seeded change applied and a scratch copy of /verif's sources
(own build directory), runs the checks of the given properties there with CDSV_REPO pointing at the worktree, and removes both.

    python3 tools/run_mutant_wt.py /verif/seeded/<id> [--props C13,C18] [--tier quick] [--seeds 1,2]

Result: <dir>/detection.json  {prop: {seed: {"exit": rc, "lines": [...]}}}
"""
import os, sys, json, subprocess, shutil, time

VERIF = os.path.dirname(os.path.dirname(os.path.abspath(__file__)))
REPO = '/repo'


def main():
    d = os.path.abspath(sys.argv[1])
    name = os.path.basename(d)
    meta = json.load(open(os.path.join(d, 'meta.json')))
    props = [meta['property']]
    tier = 'quick'
    seeds = [1]
    a = sys.argv[2:]
    while a:
        if a[0] == '--props': props = a[1].split(','); a = a[2:]
        elif a[0] == '--tier': tier = a[1]; a = a[2:]
        elif a[0] == '--seeds': seeds = [int(x) for x in a[1].split(',')]; a = a[2:]
        else: a = a[1:]
    wt = '/tmp/cdsv_mrepo_' + name
    vc = '/tmp/cdsv_mverif_' + name
    subprocess.run(['git', '-C', REPO, 'worktree', 'remove', '--force', wt], capture_output=True)
    shutil.rmtree(vc, ignore_errors=True)
    subprocess.check_call(['git', '-C', REPO, 'worktree', 'add', '--detach', wt, 'HEAD'], stdout=subprocess.DEVNULL, stderr=subprocess.DEVNULL)
    result = {}
    try:
        r = subprocess.run(['git', '-C', wt, 'apply', os.path.join(d, 'patch.diff')], capture_output=True, text=True)
        if r.returncode != 0:
            print('run_mutant_wt: patch does not apply:', r.stderr[:500]); sys.exit(2)
        os.makedirs(vc)
        files = subprocess.run(['git', '-C', VERIF, 'ls-files', '-z', '-c', '-m'], capture_output=True).stdout
        files = b'\0'.join(f for f in sorted(set(files.split(b'\0'))) if f and not f.startswith(b'seeded/') and not f.startswith(b'evidence/'))
        subprocess.run(['rsync', '-a', '--from0', '--files-from=-', VERIF + '/', vc + '/'], input=files, check=True)
        for p in props:
            for s in seeds:
                env = dict(os.environ); env['VERIF_SEED'] = str(s); env['CDSV_EVID_DIR'] = os.path.join(vc, 'evid'); env['CDSV_REPO'] = wt
                t0 = time.time()
                r = subprocess.run([sys.executable, os.path.join(vc, 'tools', 'check.py'), p, '--tier', tier], capture_output=True, text=True, env=env, cwd=vc)
                lines = [l for l in r.stdout.splitlines() if l.startswith('VIOLATION') or l.strip().startswith('violation key=') or l.startswith('KNOWN-FINDING') or 'HARNESS' in l or 'BUILD FAILED' in l]
                result.setdefault(p, {})[str(s)] = {'exit': r.returncode, 'wall_s': round(time.time() - t0, 1), 'lines': [l[:400].replace(wt, '/repo') for l in lines[:12]]}
                print('%s %s seed %d: exit %d (%.0fs) %s' % (name, p, s, r.returncode, time.time() - t0, 'DETECTED' if r.returncode == 1 else ('build/harness failure' if r.returncode == 2 else 'missed')), flush=True)
                for l in lines[:4]:
                    print('    ' + l[:300])
                if r.returncode == 2:
                    print(r.stdout[-1500:])
    finally:
        subprocess.run(['git', '-C', REPO, 'worktree', 'remove', '--force', wt], capture_output=True)
        shutil.rmtree(vc, ignore_errors=True)
    old = {}
    dp = os.path.join(d, 'detection.json')
    if os.path.exists(dp):
        try: old = json.load(open(dp))
        except Exception: old = {}
    for p in result:
        old.setdefault(p, {}).update(result[p])
    json.dump(old, open(dp, 'w'), indent=1)


if __name__ == '__main__':
    main()
