#!/usr/bin/env python3
"""`python3 tools/check.py --replay <witness.json>`: re-checks a stored witness with an independent (Python) implementation of the
sequential models. History witnesses (queues, stacks, deques, priority queues, per-key set/map histories) are searched for a
linearization; exit 1 if none exists (the violation is confirmed), 0 if one is found (the witness does not stand), 2 if the witness
is of a kind that carries no history (ledger / sanitizer / crash witnesses are printed only)."""
import json, sys

sys.setrecursionlimit(100000)


def linearizable(ops, init, step):
    """ops: list of dicts with inv/ret; step(state, op) -> new state or None. DFS with memo on (done-set, state)."""
    n = len(ops)
    order = sorted(range(n), key=lambda i: ops[i]['inv'])
    seen = set()

    def rec(done, state):
        if len(done) == n:
            return []
        key = (done, state)
        if key in seen:
            return None
        seen.add(key)
        # minimal return time among pending ops bounds which ops may go first
        pending = [i for i in order if i not in done]
        min_ret = min(ops[i]['ret'] for i in pending)
        for i in pending:
            if ops[i]['inv'] > min_ret:
                break
            s2 = step(state, ops[i])
            if s2 is not None:
                r = rec(done | frozenset([i]), s2)
                if r is not None:
                    return [i] + r
        return None
    return rec(frozenset(), init)


def seq_step(cap):
    def step(st, o):
        op, a, r = o['op'], o['a'], o['r']
        st = list(st)
        if op in ('push_back', 'push_front'):
            if r == 0:
                return tuple(st) if cap >= 0 and len(st) >= cap else None
            if cap >= 0 and len(st) >= cap:
                return None
            if op == 'push_back': st.append(a)
            else: st.insert(0, a)
            return tuple(st)
        if op == 'pop_front':
            if r < 0: return tuple(st) if not st else None
            if not st or st[0] != r: return None
            return tuple(st[1:])
        if op == 'pop_back':
            if r < 0: return tuple(st) if not st else None
            if not st or st[-1] != r: return None
            return tuple(st[:-1])
        if op == 'front':
            if r < 0: return tuple(st) if not st else None
            return tuple(st) if st and st[0] == r else None
        if op == 'clear': return ()
        if op == 'empty': return tuple(st) if (r != 0) == (not st) else None
        if op == 'size': return tuple(st) if r == len(st) else None
        # priority queue vocabulary
        if op == 'push':
            if r == 0:
                return tuple(st) if cap >= 0 and len(st) >= cap else None
            if cap >= 0 and len(st) >= cap: return None
            return tuple(sorted(st + [(o['b'], a)]))
        if op == 'pop':
            if r < 0: return tuple(st) if not st else None
            if not st: return None
            if o['r2'] != max(p for p, _ in st) or (o['r2'], r) not in st: return None
            st.remove((o['r2'], r)); return tuple(st)
        return None
    return step


def key_step(st, o):
    op, a, r, seen, flags = o['model_op'], o['id'], o['r'], o['seen_id'], o['flags']
    def idm(obs, s): return obs in (-2, 0) or s == 0 or obs == s
    if op == 'insert':
        if r: return a if st == -1 else None
        return st if st != -1 else None
    if op == 'update':
        if r == 2: return a if (st == -1 and flags & 1) else None
        if r == 1:
            if st == -1 or not idm(seen, st): return None
            return a if flags & 2 else st
        return st if (st == -1 and not flags & 1) else None
    if op == 'erase':
        if r: return -1 if (st != -1 and idm(seen, st)) else None
        return st if st == -1 else None
    if op == 'find':
        if r: return st if (st != -1 and idm(seen, st)) else None
        return st if st == -1 else None
    if op == 'unlink_item':
        if r: return -1 if st == a else None
        return st if st != a else None
    return None


def main(argv):
    d = json.load(open(argv[0]))
    w = d.get('witness') or {}
    print('property %s, key %s' % (d.get('property'), d.get('key')))
    print(d.get('text', '')[:600])
    if isinstance(w, dict) and 'case' in w and 'history' in w['case']:
        ops = w['case']['history']
        lin = linearizable(ops, (), seq_step(w.get('capacity', -1)))
    elif isinstance(w, dict) and 'history' in w and 'initial' in w:
        ops = [o for o in w['history'] if o.get('key') == w.get('key')]
        lin = linearizable(ops, w['initial'], key_step)
    else:
        print(json.dumps(w, indent=1)[:3000])
        print('replay: this witness carries no history (ledger / sanitizer / crash evidence); nothing to re-check')
        return 2
    for o in sorted(ops, key=lambda o: o['inv']):
        print('  ', {k: v for k, v in o.items()})
    if lin is None:
        print('replay: CONFIRMED - no linearization of this history exists under the sequential model')
        return 1
    print('replay: a linearization exists: order %s - the witness does not stand' % lin)
    return 0


if __name__ == '__main__':
    sys.exit(main(sys.argv[1:]))
