#!/usr/bin/env python3
"""Regenerates MANIFEST.json from tools/manifest_src.py (keeps the file valid and consistent with plan.py)."""
import json, os, sys
VERIF = os.path.dirname(os.path.dirname(os.path.abspath(__file__)))
sys.path.insert(0, os.path.join(VERIF, 'tools'))
import manifest_src as M
import plan as PLAN
props = [json.loads(l) for l in open(os.path.join(VERIF, 'properties.jsonl'))]
ids = [p['id'] for p in props]
checks = []
for pid in ids:
    if pid not in M.CHECKS:
        continue
    assert pid in PLAN.PROPS, pid
    c = M.CHECKS[pid]
    checks.append({
        'property_id': pid,
        'quick_cmd': 'python3 tools/check.py %s --tier quick' % pid,
        'thorough_cmd': 'python3 tools/check.py %s --tier thorough' % pid,
        'evidence_file': '/verif/evidence/%s.json' % pid,
        'replay_cmd_template': 'python3 tools/check.py --replay {path}',
        'engine': c.get('engine', 'cdsv'),
        'level_claimed': {'category': 'exploration', 'text': c['level_text'], 'design_ref': c.get('design_ref', 'DESIGN.md section 4, ' + pid)},
        'level_note': c['level_note'],
        'technique': c['technique'],
    })
na = [{'property_id': pid, 'reason': M.NOT_APPLICABLE.get(pid, M.NOT_YET)} for pid in ids if pid not in M.CHECKS]
man = {
    'version': 1,
    'setup_cmd': 'python3 tools/setup.py',
    'hooks': M.HOOKS,
    'engines': M.ENGINES,
    'checks': checks,
    'notes': M.NOTES,
    'not_applicable': na,
}
json.dump(man, open(os.path.join(VERIF, 'MANIFEST.json'), 'w'), indent=1)
print('MANIFEST.json: %d checks, %d not claimed' % (len(checks), len(na)))
