#!/usr/bin/env python3
"""Self-validation helper: confirms a seeded change in its scratch worktree before it is kept.

    python3 tools/confirm_mutant.py <worktree> <mutdir>

Steps (everything inside the worktree): patch applies; the unit-test binaries named in meta.json["unit_tests_run"] are rebuilt WITH the
change and pass; demo.cpp built with the change fails (>= 2 of 3 runs); the tree is restored; demo.cpp built without the change passes
(3 of 3). Writes <mutdir>/confirm.json.
"""
import os, sys, json, subprocess, re, time


def sh(cmd, cwd=None, timeout=3600):
    try:
        r = subprocess.run(cmd, shell=True, cwd=cwd, capture_output=True, text=True, timeout=timeout)
        return r.returncode, (r.stdout + r.stderr)[-3000:]
    except subprocess.TimeoutExpired:
        return 124, 'timeout'


def main():
    wt, md = os.path.abspath(sys.argv[1]), os.path.abspath(sys.argv[2])
    meta = json.load(open(os.path.join(md, 'meta.json')))
    out = {'worktree': wt, 'steps': {}}
    sh('git checkout -- cds src', cwd=wt)
    rc, o = sh('git apply --check %s' % os.path.join(md, 'patch.diff'), cwd=wt)
    out['steps']['patch_applies'] = rc == 0
    if rc != 0:
        json.dump(out, open(os.path.join(md, 'confirm.json'), 'w'), indent=1); print('patch does not apply'); return 1
    src = ' '.join(os.path.join(wt, 'src', f) for f in ['dhp.cpp', 'dllmain.cpp', 'hp.cpp', 'hp_thread_local.cpp', 'init.cpp', 'thread_data.cpp', 'topology_linux.cpp', 'urcu_gp.cpp', 'urcu_sh.cpp'])
    demo_cmd = 'g++ -std=c++11 -O1 -g -mcx16 -pthread -I%s %s %s -latomic -lboost_thread -lboost_system -o %s' % (wt, os.path.join(md, 'demo.cpp'), src, '%s')
    # with the change
    sh('git apply %s' % os.path.join(md, 'patch.diff'), cwd=wt)
    tests = []
    for t in meta.get('unit_tests_run', []):
        m = re.match(r'\s*([A-Za-z0-9_-]+)', t)
        if m and m.group(1).startswith('unit-') and m.group(1) not in tests:
            tests.append(m.group(1))
    ut = {}
    skip_unit = os.environ.get('CDSV_CONFIRM_SKIP_UNIT') == '1'   # demo-only confirmation (the unit-test results are then the author's, see meta.json)
    if os.path.isdir(os.path.join(wt, '_build')) and not skip_unit:
        for t in tests:
            rc, o = sh('nice -n 5 ninja -C %s/_build -j8 %s' % (wt, t), timeout=7200)
            if rc != 0:
                ut[t] = 'build failed: ' + o[-300:]; continue
            rc, o = sh('%s/_build/bin/%s' % (wt, t), cwd=os.path.join(wt, '_build', 'bin'), timeout=3600)
            m = re.search(r'\[  PASSED  \] (\d+) tests', o)
            ut[t] = ('passed %s tests' % m.group(1)) if rc == 0 and m else ('FAILED rc=%d %s' % (rc, o[-300:]))
    out['steps']['unit_tests_with_change'] = ut
    exe = os.path.join(md, 'demo_mut')
    rc, o = sh(demo_cmd % exe, timeout=1800)
    out['steps']['demo_builds_with_change'] = rc == 0
    runs = []
    if rc == 0:
        for i in range(3):
            t0 = time.time(); rc, o = sh(exe, cwd=md, timeout=300); runs.append({'rc': rc, 's': round(time.time() - t0, 1)})
    out['steps']['demo_with_change'] = runs
    sh('git checkout -- cds src', cwd=wt)
    exe2 = os.path.join(md, 'demo_clean')
    rc, o = sh(demo_cmd % exe2, timeout=1800)
    runs2 = []
    if rc == 0:
        for i in range(3):
            t0 = time.time(); rc, o = sh(exe2, cwd=md, timeout=300); runs2.append({'rc': rc, 's': round(time.time() - t0, 1)})
    out['steps']['demo_without_change'] = runs2
    for f in (exe, exe2):
        try: os.remove(f)
        except OSError: pass
    ok_tests = all(v.startswith('passed') for v in ut.values())
    out['unit_tests_rerun_here'] = not skip_unit
    if skip_unit:
        out['steps']['unit_tests_with_change'] = {'not re-run here; reported by the author of the change': meta.get('unit_tests_run', [])}
    out['confirmed'] = (bool(ut) or skip_unit) and ok_tests and sum(1 for r in runs if r['rc'] != 0) >= 2 and len(runs2) == 3 and all(r['rc'] == 0 for r in runs2)
    json.dump(out, open(os.path.join(md, 'confirm.json'), 'w'), indent=1)
    print(json.dumps(out, indent=1)[:1500])
    return 0


if __name__ == '__main__':
    sys.exit(main())
