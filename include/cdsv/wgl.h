// History records and the Wing-Gong-Lowe linearizability checker (memoised on (linearized set, model state)).
#ifndef CDSV_WGL_H
#define CDSV_WGL_H

#include <algorithm>
#include <array>
#include <cstdint>
#include <sstream>
#include <string>
#include <unordered_set>
#include <vector>

namespace cdsv {

    struct Op {
        int      tid;
        int      op;        // model-specific operation code
        int64_t  a, b;      // arguments
        int64_t  r, r2;     // results
        uint64_t inv, ret;  // logical invocation / response times (inv < ret)
    };

    inline bool overlaps( Op const& x, Op const& y ) { return x.inv < y.ret && y.inv < x.ret; }

    // number of overlapping pairs of operations of different threads
    inline uint64_t count_overlaps( std::vector<Op> const& h )
    {
        uint64_t n = 0;
        for ( size_t i = 0; i < h.size(); ++i )
            for ( size_t j = i + 1; j < h.size(); ++j )
                if ( h[i].tid != h[j].tid && overlaps( h[i], h[j] )) ++n;
        return n;
    }

    // Structural fingerprint: operations, arguments, results and the interleaving order of all
    // invocation/response events. Ids are passed through `norm` (e.g. order of first appearance)
    // so that unique value ids do not make every history distinct.
    template <class Norm>
    inline uint64_t fingerprint( std::vector<Op> const& h, Norm norm, uint64_t salt = 0 )
    {
        struct Ev { uint64_t t; int idx; int kind; };
        std::vector<Ev> ev;
        ev.reserve( h.size() * 2 );
        for ( size_t i = 0; i < h.size(); ++i ) {
            ev.push_back( Ev{ h[i].inv, int( i ), 0 } );
            ev.push_back( Ev{ h[i].ret, int( i ), 1 } );
        }
        std::sort( ev.begin(), ev.end(), []( Ev const& x, Ev const& y ) { return x.t < y.t; } );
        uint64_t f = 1469598103934665603ull ^ salt;
        auto add = [&f]( uint64_t v ) { f ^= v; f *= 1099511628211ull; f ^= f >> 29; };
        for ( Ev const& e : ev ) {
            Op const& o = h[e.idx];
            add( uint64_t( e.kind ));
            add( uint64_t( o.tid ));
            add( uint64_t( o.op ));
            if ( e.kind == 0 ) { add( uint64_t( norm( o.a ))); add( uint64_t( o.b )); }
            else { add( uint64_t( norm( o.r ))); add( uint64_t( norm( o.r2 ))); }
        }
        return f;
    }

    struct IdNorm {
        std::vector<int64_t> seen;
        int64_t lo;     // values below lo are passed through unchanged (small codes / keys)
        explicit IdNorm( int64_t lo_ = 1000 ) : lo( lo_ ) {}
        int64_t operator()( int64_t v )
        {
            if ( v < lo ) return v;
            for ( size_t i = 0; i < seen.size(); ++i ) if ( seen[i] == v ) return lo + int64_t( i );
            seen.push_back( v );
            return lo + int64_t( seen.size() - 1 );
        }
    };

    enum class Verdict { ok, violation, budget };

    // Model concept:
    //   typedef ... State;  (copyable, ==)
    //   static bool step( State&, Op const& );     apply op if its recorded result is admissible in State
    //   static uint64_t hash( State const& );
    template <class Model, size_t NW>
    class WglImpl {
        typedef typename Model::State State;
        struct Key {
            std::array<uint64_t, NW> bits;
            State st;
            bool operator==( Key const& o ) const { return bits == o.bits && st == o.st; }
        };
        struct KeyHash {
            size_t operator()( Key const& k ) const
            {
                uint64_t h = Model::hash( k.st );
                for ( size_t i = 0; i < NW; ++i ) { h ^= k.bits[i] + 0x9e3779b97f4a7c15ull + ( h << 6 ) + ( h >> 2 ); }
                return size_t( h );
            }
        };
        struct Entry { int op; bool is_call; int match; int prev, next; };
    public:
        static Verdict check( std::vector<Op> const& h, State const& init, size_t budget, std::vector<int>* lin, State* final_state )
        {
            size_t const n = h.size();
            if ( n == 0 ) { if ( final_state ) *final_state = init; return Verdict::ok; }
            // entries sorted by time; index 0 is a sentinel head
            struct Ev { uint64_t t; int op; bool call; };
            std::vector<Ev> ev; ev.reserve( 2 * n );
            for ( size_t i = 0; i < n; ++i ) { ev.push_back( Ev{ h[i].inv, int( i ), true } ); ev.push_back( Ev{ h[i].ret, int( i ), false } ); }
            std::stable_sort( ev.begin(), ev.end(), []( Ev const& x, Ev const& y ) { return x.t < y.t; } );
            std::vector<Entry> e( 2 * n + 1 );
            std::vector<int> call_pos( n ), ret_pos( n );
            e[0] = Entry{ -1, false, -1, -1, 1 };
            for ( size_t i = 0; i < 2 * n; ++i ) {
                e[i + 1] = Entry{ ev[i].op, ev[i].call, -1, int( i ), ( i + 1 < 2 * n ) ? int( i + 2 ) : -1 };
                if ( ev[i].call ) call_pos[ev[i].op] = int( i + 1 ); else ret_pos[ev[i].op] = int( i + 1 );
            }
            for ( size_t i = 0; i < n; ++i ) { e[call_pos[i]].match = ret_pos[i]; e[ret_pos[i]].match = call_pos[i]; }

            auto lift = [&e]( int c ) {
                int r = e[c].match;
                e[e[c].prev].next = e[c].next; if ( e[c].next >= 0 ) e[e[c].next].prev = e[c].prev;
                e[e[r].prev].next = e[r].next; if ( e[r].next >= 0 ) e[e[r].next].prev = e[r].prev;
            };
            auto unlift = [&e]( int c ) {
                int r = e[c].match;
                e[e[r].prev].next = r; if ( e[r].next >= 0 ) e[e[r].next].prev = r;
                e[e[c].prev].next = c; if ( e[c].next >= 0 ) e[e[c].next].prev = c;
            };

            std::unordered_set<Key, KeyHash> cache;
            struct Frame { int entry; State st; };
            std::vector<Frame> stack;
            Key cur; cur.bits.fill( 0 ); cur.st = init;
            int pos = e[0].next;
            size_t nodes = 0;
            while ( e[0].next >= 0 ) {
                if ( pos < 0 ) {
                    // ran past the end without linearizing everything: cannot happen (a return entry is always met first)
                    return Verdict::violation;
                }
                Entry& en = e[pos];
                if ( en.is_call ) {
                    State st2 = cur.st;
                    bool ok = Model::step( st2, h[en.op] );
                    if ( ok ) {
                        Key k2; k2.bits = cur.bits; k2.bits[en.op / 64] |= uint64_t( 1 ) << ( en.op % 64 ); k2.st = st2;
                        if ( cache.insert( k2 ).second ) {
                            if ( ++nodes > budget ) return Verdict::budget;
                            stack.push_back( Frame{ pos, cur.st } );
                            cur = k2;
                            lift( pos );
                            pos = e[0].next;
                            continue;
                        }
                    }
                    pos = en.next;
                }
                else {
                    if ( stack.empty()) return Verdict::violation;
                    Frame f = stack.back(); stack.pop_back();
                    int opi = e[f.entry].op;
                    cur.bits[opi / 64] &= ~( uint64_t( 1 ) << ( opi % 64 ));
                    cur.st = f.st;
                    unlift( f.entry );
                    pos = e[f.entry].next;
                }
            }
            if ( lin ) { lin->clear(); for ( auto& f : stack ) lin->push_back( e[f.entry].op ); }
            if ( final_state ) *final_state = cur.st;
            return Verdict::ok;
        }
    };

    template <class Model>
    inline Verdict wgl_check( std::vector<Op> const& h, typename Model::State const& init, size_t budget = 2000000,
                              std::vector<int>* lin = nullptr, typename Model::State* final_state = nullptr )
    {
        size_t n = h.size();
        if ( n <= 64 ) return WglImpl<Model, 1>::check( h, init, budget, lin, final_state );
        if ( n <= 256 ) return WglImpl<Model, 4>::check( h, init, budget, lin, final_state );
        if ( n <= 1024 ) return WglImpl<Model, 16>::check( h, init, budget, lin, final_state );
        if ( n <= 4096 ) return WglImpl<Model, 64>::check( h, init, budget, lin, final_state );
        return Verdict::budget;
    }

    // JSON rendering of a history (for witnesses and samples); opname maps op codes to names
    inline std::string history_json( std::vector<Op> const& h, const char* const* opnames, std::vector<int> const* lin = nullptr )
    {
        std::ostringstream o;
        o << "{\"history\":[";
        for ( size_t i = 0; i < h.size(); ++i ) {
            Op const& x = h[i];
            if ( i ) o << ",";
            o << "{\"t\":" << x.tid << ",\"op\":\"" << opnames[x.op] << "\",\"a\":" << x.a << ",\"b\":" << x.b
              << ",\"r\":" << x.r << ",\"r2\":" << x.r2 << ",\"inv\":" << x.inv << ",\"ret\":" << x.ret << "}";
        }
        o << "]";
        if ( lin ) {
            o << ",\"linearization\":[";
            for ( size_t i = 0; i < lin->size(); ++i ) { if ( i ) o << ","; o << ( *lin )[i]; }
            o << "]";
        }
        o << "}";
        return o.str();
    }

} // namespace cdsv
#endif
