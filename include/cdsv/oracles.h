// Interval oracles for the deliberately weaker statements (fire only when the recorded intervals force a violation
// under every possible linearization).
#ifndef CDSV_ORACLES_H
#define CDSV_ORACLES_H

#include <cdsv/models.h>
#include <map>

namespace cdsv {

    // Conservation for any push/pop container whose history ends with a sequential drain to "empty":
    // every successfully pushed uid is popped exactly once, nothing else is popped.
    // push ops: is_push(op), a = uid, r = 1 on success; pop ops: r = uid or < 0.
    template <class IsPush, class IsPop>
    inline std::string conservation( std::vector<Op> const& h, IsPush is_push, IsPop is_pop )
    {
        std::map<int64_t, int> cnt;   // uid -> pushed(1) - popped
        for ( Op const& o : h ) if ( is_push( o.op ) && o.r == 1 ) cnt[o.a] += 1;
        std::map<int64_t, int> popped;
        for ( Op const& o : h ) if ( is_pop( o.op ) && o.r >= 0 ) popped[o.r] += 1;
        for ( auto& p : popped ) {
            auto it = cnt.find( p.first );
            if ( it == cnt.end()) return "item " + std::to_string( p.first ) + " was popped but never pushed (invented)";
            if ( p.second > 1 ) return "item " + std::to_string( p.first ) + " was popped " + std::to_string( p.second ) + " times (duplicated)";
        }
        for ( auto& p : cnt ) {
            if ( p.second > 1 ) return "harness error: uid pushed twice";
            if ( !popped.count( p.first )) return "item " + std::to_string( p.first ) + " was pushed successfully but never popped, although the final sequential drain ended with 'empty' (lost)";
        }
        return "";
    }

    // MSPriorityQueue in free mixed histories: conservation + the push-fail rule.
    // A failed push is a violation iff at every instant t of its interval the number of items that can possibly be present
    // (#successful pushes with inv <= t  -  #successful pops with ret <= t) is below the capacity.
    inline std::string pq_mixed_oracle( std::vector<Op> const& h, int64_t cap )
    {
        std::string c = conservation( h, []( int op ) { return op == P_PUSH; }, []( int op ) { return op == P_POP; } );
        if ( !c.empty()) return c;
        if ( cap < 0 ) return "";
        for ( Op const& f : h ) {
            if ( f.op != P_PUSH || f.r != 0 ) continue;
            bool possible_full = false;
            for ( uint64_t t = f.inv; t <= f.ret && !possible_full; ++t ) {
                int64_t ub = 0;
                for ( Op const& o : h ) {
                    if ( o.op == P_PUSH && o.r == 1 && o.inv <= t ) ++ub;
                    else if ( o.op == P_POP && o.r >= 0 && o.ret <= t ) --ub;
                }
                if ( ub >= cap ) possible_full = true;
            }
            if ( !possible_full )
                return "push failed although fewer than capacity items can have been present at every instant of the call";
        }
        return "";
    }

    // SegmentedQueue (C08): conservation + quasi-FIFO bound + empty rule.
    //  bound: for a dequeue D returning y, S = { x : enq(x).ret < enq(y).inv and x is surely still in the queue when D returns },
    //         "surely still in" = x is dequeued by a dequeue whose inv > D.ret (the history ends with a complete drain, so every x is dequeued).
    //         Violation iff |S| >= quasi factor.
    //  empty: a dequeue E returning empty is a violation iff some x has enq(x).ret < E.inv and the dequeue returning x has inv > E.ret.
    inline std::string segmented_oracle( std::vector<Op> const& h, int64_t quasi )
    {
        std::string c = conservation( h, []( int op ) { return op == S_PUSH_BACK; }, []( int op ) { return op == S_POP_FRONT; } );
        if ( !c.empty()) return c;
        struct V { Op const* enq = nullptr; Op const* deq = nullptr; };
        std::map<int64_t, V> vals;
        for ( Op const& o : h ) {
            if ( o.op == S_PUSH_BACK && o.r == 1 ) vals[o.a].enq = &o;
            else if ( o.op == S_POP_FRONT && o.r >= 0 ) vals[o.r].deq = &o;
        }
        for ( Op const& d : h ) {
            if ( d.op != S_POP_FRONT ) continue;
            if ( d.r >= 0 ) {
                V const& y = vals[d.r];
                int64_t s = 0;
                for ( auto& p : vals ) {
                    V const& x = p.second;
                    if ( p.first == d.r ) continue;
                    if ( x.enq->ret < y.enq->inv && x.deq->inv > d.ret ) ++s;
                }
                if ( s >= quasi )
                    return "dequeue of item " + std::to_string( d.r ) + ": " + std::to_string( s ) + " items whose enqueue completed before its enqueue began were surely still in the queue (quasi factor " + std::to_string( quasi ) + ")";
            }
            else {
                for ( auto& p : vals ) {
                    V const& x = p.second;
                    if ( x.enq->ret < d.inv && x.deq->inv > d.ret )
                        return "dequeue reported empty although item " + std::to_string( p.first ) + " was enqueued before the call began and dequeued only after it returned";
                }
            }
        }
        return "";
    }

} // namespace cdsv
#endif
