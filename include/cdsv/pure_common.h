// Shared helpers of harness/pure.cpp (C25-C28): naive references, report gate, forked UB probe.
#ifndef CDSV_PURE_COMMON_H
#define CDSV_PURE_COMMON_H

#include <cdsv/core.h>
#include <algorithm>
#include <type_traits>
#include <sys/types.h>
#include <sys/wait.h>
#include <signal.h>

#if defined(__SANITIZE_ADDRESS__)
#   define PURE_SANITIZED 1
#endif

namespace pure {
    using namespace cdsv;
    typedef unsigned long long ull;

    inline std::string hx( uint64_t v ) { char b[32]; snprintf( b, sizeof b, "\"0x%llx\"", (ull) v ); return b; }   // JSON string token
    inline std::string hxs( uint64_t v ) { char b[32]; snprintf( b, sizeof b, "0x%llx", (ull) v ); return b; }      // plain text
    inline std::string num( uint64_t v ) { return std::to_string((ull) v ); }
    inline std::string snum( int64_t v ) { return std::to_string((long long) v ); }

    // ---------------------------------------------------------------- variants
    inline bool begin_variant( std::string const& name )
    {
        Args& a = args();
        if ( !a.prop.empty() && name.compare( 0, a.prop.size(), a.prop ) != 0 )
            return false;
        if ( !a.want( name ))
            return false;
        set_variant( name );
        return true;
    }
    inline unsigned worker_count() { return args().thorough ? 16u : 4u; }
    // budget of the sampled (non-exhaustive) parts; the sanitizer build is 3-5 times slower per case, so its quick tier samples 40 %
    inline uint64_t budget( uint64_t quick, uint64_t thorough )
    {
#ifdef PURE_SANITIZED
        return args().n( std::max<uint64_t>( 1, quick * 2 / 5 ), thorough );
#else
        return args().n( quick, thorough );
#endif
    }

    template <class F>
    inline void parallel( unsigned n, F fn )
    {
        std::vector<std::thread> th;
        for ( unsigned i = 0; i < n; ++i ) th.emplace_back( [i, &fn]() { fn( i ); } );
        for ( auto& t : th ) t.join();
    }

    // ---------------------------------------------------------------- report gate (a broken function would otherwise report 2^32 times)
    struct Gate {
        std::mutex m;
        std::map<std::string, uint64_t> c;
        bool pass( std::string const& k ) { std::lock_guard<std::mutex> g( m ); return c[k]++ < 12; }
    };
    inline Gate& gate() { static Gate* g = new Gate; return *g; }
    inline std::atomic<uint64_t>& suppressed() { static std::atomic<uint64_t> s{ 0 }; return s; }

    // cheap pre-check for hot failure paths: counts the occurrence and tells whether the texts are still worth building
    inline bool report_wanted( const char* prop_id, std::string const& key )
    {
        if ( gate().pass( std::string( prop_id ) + "|" + key )) return true;
        suppressed().fetch_add( 1, std::memory_order_relaxed );
        return false;
    }
    __attribute__((noinline)) inline void report( const char* prop_id, std::string const& key, std::string const& text, std::string const& witness )
    {
        if ( gate().pass( std::string( prop_id ) + "|" + key ))
            violation( prop_id, key, text, witness );
        else
            suppressed().fetch_add( 1, std::memory_order_relaxed );
    }

    // ---------------------------------------------------------------- naive references (definitions, bit by bit)
    inline uint64_t naive_rev( uint64_t x, unsigned bits )
    {
        uint64_t r = 0;
        for ( unsigned i = 0; i < bits; ++i )
            if (( x >> i ) & 1 ) r |= uint64_t( 1 ) << ( bits - 1 - i );
        return r;
    }
    inline int naive_msb( uint64_t x ) { int n = 0; while ( x ) { ++n; x >>= 1; } return n; }                       // 1-based, 0 for 0
    inline int naive_lsb( uint64_t x ) { if ( !x ) return 0; int n = 1; while ( !( x & 1 )) { x >>= 1; ++n; } return n; }   // 1-based, 0 for 0
    inline int naive_pop( uint64_t x ) { int n = 0; while ( x ) { n += int( x & 1 ); x >>= 1; } return n; }

    // 16-bit tables filled by the naive loops; 32/64-bit references are composed from them (cross-checked against the naive loops on samples)
    struct Tables {
        uint16_t rev16[65536];
        uint8_t msb16[65536], lsb16[65536], pop16[65536];
        Tables()
        {
            for ( unsigned i = 0; i < 65536; ++i ) {
                rev16[i] = uint16_t( naive_rev( i, 16 ));
                msb16[i] = uint8_t( naive_msb( i ));
                lsb16[i] = uint8_t( naive_lsb( i ));
                pop16[i] = uint8_t( naive_pop( i ));
            }
        }
    };
    inline Tables const& tab() { static Tables* t = new Tables; return *t; }

    inline uint32_t ref_rev32( uint32_t x ) { Tables const& t = tab(); return ( uint32_t( t.rev16[x & 0xffff] ) << 16 ) | t.rev16[x >> 16]; }
    inline uint64_t ref_rev64( uint64_t x ) { return ( uint64_t( ref_rev32( uint32_t( x ))) << 32 ) | ref_rev32( uint32_t( x >> 32 )); }
    inline int ref_msb32( uint32_t x ) { Tables const& t = tab(); return ( x >> 16 ) ? 16 + t.msb16[x >> 16] : t.msb16[x]; }
    inline int ref_msb64( uint64_t x ) { return ( x >> 32 ) ? 32 + ref_msb32( uint32_t( x >> 32 )) : ref_msb32( uint32_t( x )); }
    inline int ref_lsb32( uint32_t x ) { Tables const& t = tab(); return ( x & 0xffff ) ? t.lsb16[x & 0xffff] : (( x >> 16 ) ? 16 + t.lsb16[x >> 16] : 0 ); }
    inline int ref_lsb64( uint64_t x ) { return uint32_t( x ) ? ref_lsb32( uint32_t( x )) : (( x >> 32 ) ? 32 + ref_lsb32( uint32_t( x >> 32 )) : 0 ); }
    inline int ref_pop32( uint32_t x ) { Tables const& t = tab(); return t.pop16[x & 0xffff] + t.pop16[x >> 16]; }
    inline int ref_pop64( uint64_t x ) { return ref_pop32( uint32_t( x )) + ref_pop32( uint32_t( x >> 32 )); }
    inline uint64_t low_mask( unsigned k ) { return k >= 64 ? ~uint64_t( 0 ) : (( uint64_t( 1 ) << k ) - 1 ); }

    // the composed references must agree with the definitions; a disagreement is a harness bug
    inline void selfcheck_refs( uint64_t x )
    {
        uint32_t y = uint32_t( x );
        if ( ref_rev32( y ) != uint32_t( naive_rev( y, 32 )) || ref_rev64( x ) != naive_rev( x, 64 )
          || ref_msb32( y ) != naive_msb( y ) || ref_msb64( x ) != naive_msb( x )
          || ref_lsb32( y ) != naive_lsb( y ) || ref_lsb64( x ) != naive_lsb( x )
          || ref_pop32( y ) != naive_pop( y ) || ref_pop64( x ) != naive_pop( x ))
            harness_failure( "composed reference disagrees with the naive definition for " + hxs( x ));
    }

    // ---------------------------------------------------------------- forked UB probe
    // Sanitized build only: fn runs in a forked child whose stderr is captured; a child that dies (UBSan with
    // -fno-sanitize-recover) is turned into a clean report by the caller and the offending argument class is then
    // kept out of the in-process run. Other builds: the probe is a no-op and the in-process value comparison decides.
    struct ProbeResult {
        bool ok = true;
        std::string msg, where, raw;
        bool is( const char* what ) const { return msg.find( what ) != std::string::npos; }
        std::string json() const { return "{\"sanitizer_message\":" + jstr( msg ) + ",\"at\":" + jstr( where ) + "}"; }
    };
    inline std::atomic<uint64_t>& probe_forks() { static std::atomic<uint64_t> s{ 0 }; return s; }

    // Arguments >= 30 that get a probe (and, if the probe survives, an in-process evaluation) in the sanitized build. A dying child
    // costs ~0.1 s, so the quick tier probes the interesting boundaries and a spread of larger values, the thorough tier every value.
    inline bool probe_selected( unsigned v )
    {
        if ( args().thorough ) return true;
        static const unsigned sel[] = { 30, 31, 32, 33, 40, 47, 48, 56, 62, 63 };
        for ( unsigned x : sel ) if ( x == v ) return true;
        return false;
    }

    template <class F>
    inline ProbeResult ub_probe( F fn )
    {
        ProbeResult r;
#ifdef PURE_SANITIZED
        fflush( stdout ); fflush( stderr );
        int fd[2];
        if ( pipe( fd ) != 0 ) harness_failure( "pipe() failed" );
        pid_t pid = fork();
        if ( pid < 0 ) harness_failure( "fork() failed" );
        if ( pid == 0 ) {
            close( fd[0] );
            dup2( fd[1], 2 );
            close( fd[1] );
            fn();
            _exit( 0 );
        }
        probe_forks().fetch_add( 1 );
        close( fd[1] );
        std::string out;
        char buf[4096];
        ssize_t n;
        while (( n = read( fd[0], buf, sizeof buf )) > 0 ) {
            out.append( buf, size_t( n ));
            // the first report line is all that is needed; symbolising the stack trace of a dying child costs seconds
            size_t p = out.find( "runtime error: " );
            if ( p == std::string::npos ) p = out.find( "ERROR: AddressSanitizer" );
            if ( p != std::string::npos && out.find( '\n', p ) != std::string::npos ) { kill( pid, SIGKILL ); break; }
        }
        close( fd[0] );
        int st = 0;
        waitpid( pid, &st, 0 );
        if ( WIFEXITED( st ) && WEXITSTATUS( st ) == 0 && out.find( "runtime error: " ) == std::string::npos )
            return r;
        r.ok = false;
        r.raw = out.substr( 0, 1200 );
        size_t p = out.find( "runtime error: " );
        if ( p != std::string::npos ) {
            size_t e = out.find( '\n', p );
            if ( e == std::string::npos ) e = out.size();
            r.msg = out.substr( p + 15, e - p - 15 );
            size_t b = out.rfind( '\n', p );
            b = ( b == std::string::npos ) ? 0 : b + 1;
            r.where = out.substr( b, p - b );
            while ( !r.where.empty() && ( r.where.back() == ' ' || r.where.back() == ':' )) r.where.pop_back();
        }
        else {
            p = out.find( "ERROR: " );
            if ( p == std::string::npos ) p = out.find( "Assertion" );
            if ( p != std::string::npos ) {
                size_t e = out.find( '\n', p );
                r.msg = out.substr( p, ( e == std::string::npos ? out.size() : e ) - p );
            }
            else
                r.msg = "probe child terminated abnormally, wait status " + std::to_string( st );
        }
        fprintf( stderr, "[probe] child died: %s (%s)\n", r.msg.c_str(), r.where.c_str());
#else
        (void) fn;
#endif
        return r;
    }

    // stable key fragment for a sanitizer message class
    inline std::string ub_class( ProbeResult const& r )
    {
        if ( r.is( "shift exponent" )) return "shift-exponent-UB";
        if ( r.is( "signed integer overflow" )) return "int-overflow-UB";
        if ( r.is( "left shift of" )) return "shift-base-UB";
        if ( r.is( "AddressSanitizer" )) return "asan";
        if ( r.is( "Assertion" )) return "assert";
        return "abnormal-termination";
    }

    // memory whose size the compiler cannot see (so that only the run-time ASan red zone decides about over-reads)
    __attribute__((noinline)) inline void* tail_alloc( size_t n ) { void* p = malloc( n ? n : 1 ); if ( !p ) harness_failure( "malloc" ); return p; }

} // namespace pure
#endif
