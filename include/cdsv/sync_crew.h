// A small crew of persistent worker threads: one run = one job executed by the first T members.
// Creating threads for every short run dominates the run time (above all in the TSan build), so the crew is kept
// for a batch of runs and re-created now and then (fresh OS thread ids: CachedFreeList hashes them,
// reentrant_spin_lock stores them).
#ifndef CDSV_SYNC_CREW_H
#define CDSV_SYNC_CREW_H

#include <cdsv/core.h>
#include <condition_variable>

namespace cdsv {

    class Crew {
        std::mutex m_mtx;
        std::condition_variable m_cvJob, m_cvDone;
        std::vector<std::thread> m_threads;
        std::function<void( unsigned )> m_job;
        uint64_t m_gen = 0;
        unsigned m_active = 0;
        unsigned m_pending = 0;
        bool m_stop = false;

        void member( unsigned idx )
        {
            uint64_t seen = 0;
            for ( ;; ) {
                std::function<void( unsigned )> job;
                {
                    std::unique_lock<std::mutex> l( m_mtx );
                    m_cvJob.wait( l, [&]() { return m_stop || m_gen != seen; } );
                    if ( m_stop ) return;
                    seen = m_gen;
                    if ( idx >= m_active ) continue;
                    job = m_job;
                }
                job( idx );
                {
                    std::unique_lock<std::mutex> l( m_mtx );
                    if ( --m_pending == 0 ) m_cvDone.notify_all();
                }
            }
        }
    public:
        explicit Crew( unsigned n )
        {
            for ( unsigned i = 0; i < n; ++i ) m_threads.emplace_back( [this, i]() { member( i ); } );
        }
        ~Crew()
        {
            {
                std::unique_lock<std::mutex> l( m_mtx );
                m_stop = true;
            }
            m_cvJob.notify_all();
            for ( auto& t : m_threads ) t.join();
        }
        unsigned size() const { return unsigned( m_threads.size()); }

        // runs f(0) .. f(T-1) on T members in parallel; returns when all have returned
        void run( unsigned T, std::function<void( unsigned )> f )
        {
            if ( T > m_threads.size()) harness_failure( "Crew: too many threads requested" );
            std::unique_lock<std::mutex> l( m_mtx );
            m_job = std::move( f );
            m_active = m_pending = T;
            ++m_gen;
            m_cvJob.notify_all();
            m_cvDone.wait( l, [&]() { return m_pending == 0; } );
        }
    };

    // A mutated / broken container can corrupt itself so that a later call never returns (e.g. a cycle in a free list).
    // If violations have already been recorded and no run has completed for `secs` seconds, the guard writes the result
    // JSON (witnesses included) and ends the process with exit code 1. A hang WITHOUT a recorded violation is left to the
    // watchdog of check.py (kill, re-run, "hang:<variant>").
    class HangGuard {
        std::atomic<uint64_t> m_progress{ 0 };
        std::atomic<bool> m_stop{ false };
        std::thread m_thread;
    public:
        HangGuard( const char* harness, double secs )
        {
            std::string h = harness;
            m_thread = std::thread( [this, h, secs]() {
                uint64_t last = m_progress.load();
                double since = wall_now();
                while ( !m_stop.load()) {
                    timespec t = { 0, 200000000 };
                    nanosleep( &t, nullptr );
                    uint64_t cur = m_progress.load();
                    if ( cur != last ) { last = cur; since = wall_now(); continue; }
                    if ( wall_now() - since > secs && violation_total() > 0 ) {
                        fprintf( stderr, "@@hang-after-violation no run completed for %.0f s; writing results\n", secs );
                        finish( h.c_str());
                        _exit( 1 );
                    }
                }
            } );
        }
        ~HangGuard() { m_stop.store( true ); m_thread.join(); }
        void tick() { m_progress.fetch_add( 1, std::memory_order_relaxed ); }
    };

} // namespace cdsv
#endif
