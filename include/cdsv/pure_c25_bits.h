// C25, first half: bit reversal, bitop, beans against naive references (included by harness/pure.cpp only,
// after the cds headers and after the namespace-wrapped copy of cds/details/bitop_generic.h).
#ifndef CDSV_PURE_C25_BITS_H
#define CDSV_PURE_C25_BITS_H

#include <cdsv/pure_common.h>

namespace pure {
    namespace br = cds::algo::bit_reversal;
    namespace gen = cdsv_generic::cds::bitop::platform;      // portable fall-backs of bitop_generic.h (shadowed by the amd64 asm otherwise)
    namespace plat = cds::bitop::platform;

    struct Acc {
        uint64_t compared = 0;     // function results compared with the reference
        uint64_t inputs = 0;
        uint64_t mismatches = 0;
    };

    __attribute__((noinline, cold)) inline void bit_mismatch( Acc& A, const char* fn, uint64_t in, uint64_t got, uint64_t exp, const char* extra = "" )
    {
        ++A.mismatches;
        if ( !report_wanted( "C25", std::string( "value:" ) + fn )) return;
        violation( "C25", std::string( "value:" ) + fn,
                std::string( fn ) + "(" + hxs( in ) + extra + ") returned " + hxs( got ) + ", the definition gives " + hxs( exp ),
                "{\"function\":" + jstr( fn ) + ",\"input\":" + hx( in ) + ",\"expected\":" + hx( exp ) + ",\"actual\":" + hx( got ) + ",\"note\":" + jstr( extra ) + "}" );
    }

#define PURE_EQ( fn, in, actual, expected ) do { ++A.compared; uint64_t a_ = uint64_t( actual ); uint64_t e_ = uint64_t( expected ); \
        if ( a_ != e_ ) bit_mismatch( A, fn, uint64_t( in ), a_, e_ ); } while ( 0 )

    // integer helpers of cds::beans (size_t is 64-bit here)
    inline void check_beans( uint64_t n, Acc& A )
    {
        namespace b = cds::beans;
        int msb = ref_msb64( n );
        bool p2 = ref_pop64( n ) == 1;
        if ( n ) {
            PURE_EQ( "beans::log2floor", n, b::log2floor( size_t( n )), msb - 1 );
            PURE_EQ( "beans::floor2", n, b::floor2( size_t( n )), uint64_t( 1 ) << ( msb - 1 ));
            unsigned lc = n == 1 ? 0u : unsigned( ref_msb64( n - 1 ));      // ceil( log2 n )
            PURE_EQ( "beans::log2ceil", n, b::log2ceil( size_t( n )), lc );
            if ( lc < 64 )                                                  // otherwise 2^64 is not representable
                PURE_EQ( "beans::ceil2", n, b::ceil2( size_t( n )), uint64_t( 1 ) << lc );
        }
        else {
            PURE_EQ( "beans::floor2", n, b::floor2( 0 ), 1 );               // documented: floor2(0) == 1, ceil2(0) == 1
            PURE_EQ( "beans::ceil2", n, b::ceil2( 0 ), 1 );
        }
        PURE_EQ( "beans::is_power2", n, b::is_power2( size_t( n )), p2 );
        PURE_EQ( "beans::log2", n, b::log2( size_t( n )), p2 ? msb - 1 : 0 );
    }

    inline void check32( uint32_t x, Acc& A )
    {
        ++A.inputs;
        uint32_t const r = ref_rev32( x );
        br::swar sw; br::lookup lk; br::muldiv md;
        uint32_t v;
        v = sw( x );  PURE_EQ( "bit_reversal::swar(u32)", x, v, r );   PURE_EQ( "bit_reversal::swar(u32):involution", x, sw( v ), x );
        v = lk( x );  PURE_EQ( "bit_reversal::lookup(u32)", x, v, r ); PURE_EQ( "bit_reversal::lookup(u32):involution", x, lk( v ), x );
        v = md( x );  PURE_EQ( "bit_reversal::muldiv(u32)", x, v, r ); PURE_EQ( "bit_reversal::muldiv(u32):involution", x, md( v ), x );
        PURE_EQ( "bit_reversal::muldiv::muldiv32(u32)", x, br::muldiv::muldiv32( x ), r );
        PURE_EQ( "bit_reversal::muldiv::muldiv64(u32)", x, br::muldiv::muldiv64( x ), r );
        v = cds::bitop::RBO( x ); PURE_EQ( "bitop::RBO(u32)", x, v, r ); PURE_EQ( "bitop::RBO(u32):involution", x, cds::bitop::RBO( v ), x );
        PURE_EQ( "generic::rbo32", x, gen::rbo32( x ), r );

        int const msb = ref_msb32( x ), lsb = ref_lsb32( x ), pop = ref_pop32( x );
        PURE_EQ( "bitop::MSB(u32)", x, cds::bitop::MSB( x ), msb );
        PURE_EQ( "bitop::LSB(u32)", x, cds::bitop::LSB( x ), lsb );
        PURE_EQ( "generic::msb32", x, gen::msb32( x ), msb );
        PURE_EQ( "generic::lsb32", x, gen::lsb32( x ), lsb );
        if ( x ) {
            PURE_EQ( "bitop::MSBnz(u32)", x, cds::bitop::MSBnz( x ), msb - 1 );
            PURE_EQ( "bitop::LSBnz(u32)", x, cds::bitop::LSBnz( x ), lsb - 1 );
            PURE_EQ( "generic::msb32nz", x, gen::msb32nz( x ), msb - 1 );
            PURE_EQ( "generic::lsb32nz", x, gen::lsb32nz( x ), lsb - 1 );
        }
        PURE_EQ( "bitop::SBC(u32)", x, cds::bitop::SBC( x ), pop );
        PURE_EQ( "bitop::ZBC(u32)", x, cds::bitop::ZBC( x ), 32 - pop );
        PURE_EQ( "platform::isPow2_32", x, plat::isPow2_32( x ), pop == 1 );
        {
            int nBit = int(( x * 0x9E3779B1u ) >> 27 );
            uint32_t y = x;
            bool was = cds::bitop::complement( y, nBit );
            ++A.compared;
            if ( y != ( x ^ ( uint32_t( 1 ) << nBit )) || was != ((( x >> nBit ) & 1 ) != 0 ))
                bit_mismatch( A, "bitop::complement(u32)", x, ( uint64_t( was ) << 32 ) | y, ( uint64_t(( x >> nBit ) & 1 ) << 32 ) | ( x ^ ( uint32_t( 1 ) << nBit )),
                              ( ",bit=" + num( unsigned( nBit )) + " [result packed as old_bit<<32|new_value]" ).c_str());
        }
        check_beans( x, A );
    }

    inline void check64( uint64_t x, Acc& A )
    {
        ++A.inputs;
        uint64_t const r = ref_rev64( x );
        br::swar sw; br::lookup lk; br::muldiv md;
        uint64_t v;
        v = sw( x );  PURE_EQ( "bit_reversal::swar(u64)", x, v, r );   PURE_EQ( "bit_reversal::swar(u64):involution", x, sw( v ), x );
        v = lk( x );  PURE_EQ( "bit_reversal::lookup(u64)", x, v, r ); PURE_EQ( "bit_reversal::lookup(u64):involution", x, lk( v ), x );
        v = md( x );  PURE_EQ( "bit_reversal::muldiv(u64)", x, v, r ); PURE_EQ( "bit_reversal::muldiv(u64):involution", x, md( v ), x );
        PURE_EQ( "bit_reversal::muldiv::muldiv32(u64)", x, br::muldiv::muldiv32( x ), r );
        PURE_EQ( "bit_reversal::muldiv::muldiv64(u64)", x, br::muldiv::muldiv64( x ), r );
        v = cds::bitop::RBO( x ); PURE_EQ( "bitop::RBO(u64)", x, v, r ); PURE_EQ( "bitop::RBO(u64):involution", x, cds::bitop::RBO( v ), x );
        PURE_EQ( "generic::rbo64", x, gen::rbo64( x ), r );

        int const msb = ref_msb64( x ), lsb = ref_lsb64( x ), pop = ref_pop64( x );
        PURE_EQ( "bitop::MSB(u64)", x, cds::bitop::MSB( x ), msb );
        PURE_EQ( "bitop::LSB(u64)", x, cds::bitop::LSB( x ), lsb );
        PURE_EQ( "generic::msb64", x, gen::msb64( x ), msb );
        PURE_EQ( "generic::lsb64", x, gen::lsb64( x ), lsb );
        if ( x ) {
            PURE_EQ( "bitop::MSBnz(u64)", x, cds::bitop::MSBnz( x ), msb - 1 );
            PURE_EQ( "bitop::LSBnz(u64)", x, cds::bitop::LSBnz( x ), lsb - 1 );
            PURE_EQ( "generic::msb64nz", x, gen::msb64nz( x ), msb - 1 );
            PURE_EQ( "generic::lsb64nz", x, gen::lsb64nz( x ), lsb - 1 );
        }
        PURE_EQ( "bitop::SBC(u64)", x, cds::bitop::SBC( x ), pop );
        PURE_EQ( "bitop::ZBC(u64)", x, cds::bitop::ZBC( x ), 64 - pop );
        PURE_EQ( "platform::isPow2_64", x, plat::isPow2_64( x ), pop == 1 );
        {
            int nBit = int(( x * 0x9E3779B97F4A7C15ull ) >> 58 );
            uint64_t y = x;
            bool was = cds::bitop::complement( y, nBit );
            ++A.compared;
            if ( y != ( x ^ ( uint64_t( 1 ) << nBit )) || was != ((( x >> nBit ) & 1 ) != 0 ))
                bit_mismatch( A, "bitop::complement(u64)", x, y, x ^ ( uint64_t( 1 ) << nBit ), ( ",bit=" + num( unsigned( nBit )) + ",returned_old_bit=" + num( was )).c_str());
        }
        check_beans( x, A );
    }

    inline std::vector<uint32_t> boundaries32()
    {
        std::vector<uint32_t> v = { 0u, 1u, 2u, 3u, 0xffffffffu, 0xfffffffeu, 0x7fffffffu, 0x80000000u, 0x80000001u, 0xaaaaaaaau, 0x55555555u,
                                    0x0000ffffu, 0xffff0000u, 0x00ff00ffu, 0xff00ff00u, 0x0f0f0f0fu, 0xf0f0f0f0u, 0x12345678u, 0x87654321u, 0xdeadbeefu };
        for ( unsigned k = 0; k < 32; ++k ) {
            uint32_t p = uint32_t( 1 ) << k;
            v.push_back( p ); v.push_back( p - 1 ); v.push_back( p + 1 ); v.push_back( ~p ); v.push_back( ~( p - 1 ));
            for ( unsigned len = 1; k + len <= 32; ++len )      // runs of ones
                v.push_back( uint32_t( low_mask( len ) << k ));
        }
        for ( unsigned b = 0; b < 256; ++b )
            for ( unsigned pos = 0; pos < 4; ++pos ) { v.push_back( uint32_t( b ) << ( 8 * pos )); v.push_back( ~( uint32_t( b ) << ( 8 * pos ))); }
        return v;
    }

    inline std::vector<uint64_t> structured64()
    {
        std::vector<uint64_t> v = { 0ull, 1ull, ~0ull, 0x8000000000000000ull, 0x7fffffffffffffffull, 0xaaaaaaaaaaaaaaaaull, 0x5555555555555555ull,
                                    0x00000000ffffffffull, 0xffffffff00000000ull, 0x0000000100000000ull, 0x00000000fffffffeull, 0x0000000100000001ull,
                                    0x0123456789abcdefull, 0xfedcba9876543210ull, 0x00ff00ff00ff00ffull, 0xff00ff00ff00ff00ull, 0x0f0f0f0f0f0f0f0full };
        for ( unsigned k = 0; k < 64; ++k ) {
            uint64_t p = uint64_t( 1 ) << k;
            v.push_back( p ); v.push_back( p - 1 ); v.push_back( p + 1 ); v.push_back( ~p ); v.push_back( ~( p - 1 )); v.push_back( p | 1 ); v.push_back( p | ( uint64_t( 1 ) << 63 ));
            for ( unsigned j = k + 1; j < 64; ++j ) { v.push_back( p | ( uint64_t( 1 ) << j )); v.push_back( ~( p | ( uint64_t( 1 ) << j ))); }
            for ( unsigned len = 1; k + len <= 64; ++len ) { uint64_t run = low_mask( len ) << k; v.push_back( run ); v.push_back( ~run ); }
        }
        for ( unsigned b = 0; b < 256; ++b ) {
            uint64_t rep = 0;
            for ( unsigned pos = 0; pos < 8; ++pos ) {
                v.push_back( uint64_t( b ) << ( 8 * pos )); v.push_back( ~( uint64_t( b ) << ( 8 * pos )));
                rep |= uint64_t( b ) << ( 8 * pos );
            }
            v.push_back( rep );
        }
        for ( uint64_t n = 0; n < 4100; ++n ) { v.push_back( n ); v.push_back( ~n ); v.push_back(( uint64_t( 1 ) << 32 ) + n - 2048 ); v.push_back(( uint64_t( 1 ) << 63 ) + n - 2048 ); }
        return v;
    }

    // one random 64-bit input of a randomly chosen density/extent class
    inline uint64_t random64( Rng& g )
    {
        uint64_t x = g.next();
        switch ( g.below( 8 )) {
        case 0: x &= g.next() & g.next(); break;            // sparse
        case 1: x |= g.next() | g.next(); break;            // dense
        case 2: x >>= g.below( 64 ); break;                 // any MSB position
        case 3: x <<= g.below( 64 ); break;                 // any LSB position
        case 4: x = ( x >> g.below( 64 )) << g.below( 64 ); break;
        case 5: x = uint64_t( 1 ) << g.below( 64 ); x += ( g.next() & 3 ) - 1; break;   // around powers of two
        default: break;
        }
        return x;
    }

    inline void c25_bytes()
    {
        if ( !begin_variant( "C25.bytes" )) return;
        PropStats& ps = prop( "C25" );
        Acc A;
        br::lookup lk;
        for ( unsigned b = 0; b < 256; ++b ) {
            uint8_t r = uint8_t( naive_rev( b, 8 ));
            ++A.inputs;
            PURE_EQ( "bit_reversal::muldiv::muldiv32_byte", b, br::muldiv::muldiv32_byte( uint8_t( b )), r );
            PURE_EQ( "bit_reversal::muldiv::muldiv64_byte", b, br::muldiv::muldiv64_byte( uint8_t( b )), r );
            // every entry of the lookup table at every byte position of both overloads
            for ( unsigned pos = 0; pos < 4; ++pos )
                PURE_EQ( "bit_reversal::lookup(u32):table", uint32_t( b ) << ( 8 * pos ), lk( uint32_t( b ) << ( 8 * pos )), uint32_t( r ) << ( 8 * ( 3 - pos )));
            for ( unsigned pos = 0; pos < 8; ++pos )
                PURE_EQ( "bit_reversal::lookup(u64):table", uint64_t( b ) << ( 8 * pos ), lk( uint64_t( b ) << ( 8 * pos )), uint64_t( r ) << ( 8 * ( 7 - pos )));
            ps.add_fp( mix64( 0xB17E00 + b ));
        }
        ps.evaluations.fetch_add( A.compared );
        ps.nontrivial.fetch_add( A.compared );
        ps.add_extra( "byte_inputs_exhaustive", 256 );
        ps.add_extra( "function_results_compared", A.compared );
        ps.add_variant( "C25.bytes", A.compared );
        ps.add_sample( "{\"case\":\"byte helper\",\"function\":\"muldiv64_byte\",\"input\":\"0x1d\",\"expected\":" + hx( naive_rev( 0x1d, 8 )) + ",\"actual\":" + hx( br::muldiv::muldiv64_byte( 0x1d )) + "}", 8 );
    }

    inline void c25_bits32()
    {
        if ( !begin_variant( "C25.bits32" )) return;
        PropStats& ps = prop( "C25" );
        Args& a = args();
        unsigned const T = worker_count();
        bool const exhaustive = a.thorough && a.scale >= 1.0;
        uint64_t const hi_blocks = a.thorough ? ( exhaustive ? 65536 : std::max<uint64_t>( 1, uint64_t( 65536 * a.scale ))) : 0;
        uint64_t const nquick = a.thorough ? 0 : a.n( uint64_t( 1 ) << 24, 0 );
        std::vector<Acc> acc( T );
        std::vector<std::vector<uint8_t>> seen( T, std::vector<uint8_t>( 65536, 0 ));
        double t0 = wall_now();
        parallel( T, [&]( unsigned t ) {
            Acc& A = acc[t];
            std::vector<uint8_t>& sn = seen[t];
            if ( t == 0 ) {
                for ( uint32_t x : boundaries32()) { selfcheck_refs( x ); check32( x, A ); sn[x >> 16] = 1; }
            }
            if ( a.thorough ) {
                // hi16 blocks; with scale < 1 an evenly strided subset of them
                for ( uint64_t bi = t; bi < hi_blocks; bi += T ) {
                    uint32_t hi = exhaustive ? uint32_t( bi ) : uint32_t(( bi * 65536 ) / hi_blocks );
                    sn[hi] = 1;
                    for ( uint32_t lo = 0; lo < 65536; ++lo ) {
                        uint32_t x = ( hi << 16 ) | lo;
                        if (( lo & 0xfff ) == ( hi & 0xfff )) selfcheck_refs( x );
                        check32( x, A );
                    }
                }
            }
            else {
                uint64_t const half = nquick / 2;
                for ( uint64_t i = t; i < nquick; i += T ) {
                    uint32_t x;
                    if ( i < half ) {       // every 23-bit prefix with pseudo-random low 9 bits
                        uint32_t j = uint32_t( i & 0x7fffff );
                        x = ( j << 9 ) | uint32_t( mix64( j ^ ( a.seed << 32 )) & 0x1ff );
                    }
                    else {                  // every low 23-bit pattern with pseudo-random high 9 bits
                        uint32_t j = uint32_t(( i - half ) & 0x7fffff );
                        x = uint32_t(( mix64( j ^ ( a.seed << 32 ) ^ 0xabcdef ) & 0x1ff ) << 23 ) | j;
                    }
                    if (( i & 0xfff ) == 0 ) selfcheck_refs( x );
                    check32( x, A );
                    sn[x >> 16] = 1;
                }
            }
        } );
        Acc S;
        for ( Acc& x : acc ) { S.compared += x.compared; S.inputs += x.inputs; S.mismatches += x.mismatches; }
        uint64_t buckets = 0;
        for ( unsigned b = 0; b < 65536; ++b ) {
            bool any = false;
            for ( unsigned t = 0; t < T; ++t ) any = any || seen[t][b];
            if ( !any ) continue;
            ++buckets;
            for ( unsigned fam = 0; fam < 3; ++fam )   // families: bit reversal, bitop, beans
                ps.add_fp( mix64(( uint64_t( 0x3200 + fam ) << 32 ) | b ));
        }
        ps.evaluations.fetch_add( S.compared );
        ps.nontrivial.fetch_add( S.compared );
        ps.add_extra( exhaustive ? "inputs32_exhaustive" : "inputs32_sampled", S.inputs );
        ps.add_extra( "inputs32_high16_buckets_covered", buckets );
        ps.add_extra( "function_results_compared", S.compared );
        ps.add_extra( "bits32_wall_ms", uint64_t(( wall_now() - t0 ) * 1000 ));
        ps.add_variant( "C25.bits32", S.compared );
        {
            uint32_t x = uint32_t( mix64( a.seed ));
            ps.add_sample( "{\"case\":\"32-bit input\",\"input\":" + hx( x ) + ",\"reference_reversal\":" + hx( naive_rev( x, 32 )) + ",\"swar\":" + hx( br::swar()( x )) + ",\"lookup\":" + hx( br::lookup()( x ))
                           + ",\"muldiv\":" + hx( br::muldiv()( x )) + ",\"RBO\":" + hx( cds::bitop::RBO( x )) + ",\"MSB\":" + num( cds::bitop::MSB( x )) + ",\"MSB_expected\":" + num( naive_msb( x ))
                           + ",\"LSB\":" + num( cds::bitop::LSB( x )) + ",\"LSB_expected\":" + num( naive_lsb( x )) + ",\"SBC\":" + num( cds::bitop::SBC( x )) + ",\"SBC_expected\":" + num( naive_pop( x )) + "}", 8 );
        }
    }

    inline void c25_bits64()
    {
        if ( !begin_variant( "C25.bits64" )) return;
        PropStats& ps = prop( "C25" );
        Args& a = args();
        unsigned const T = worker_count();
        uint64_t const total = budget( 1000000, 100000000 );
        std::vector<uint64_t> st = structured64();
        std::vector<Acc> acc( T );
        std::vector<std::vector<uint8_t>> classes( T, std::vector<uint8_t>( 65 * 65 * 65, 0 ));   // (msb, lsb, popcount) classes seen
        double t0 = wall_now();
        parallel( T, [&]( unsigned t ) {
            Acc& A = acc[t];
            for ( size_t i = t; i < st.size(); i += T ) { selfcheck_refs( st[i] ); check64( st[i], A ); }
            Rng g( mix64( a.seed ) ^ ( 0x6400 + t ));
            uint64_t n = total > st.size() ? ( total - st.size()) / T : 0;
            for ( uint64_t i = 0; i < n; ++i ) {
                uint64_t x = random64( g );
                if (( i & 0xfff ) == 0 ) selfcheck_refs( x );
                check64( x, A );
                classes[t][( unsigned( ref_msb64( x )) * 65 + unsigned( ref_lsb64( x ))) * 65 + unsigned( ref_pop64( x ))] = 1;
            }
        } );
        Acc S;
        for ( Acc& x : acc ) { S.compared += x.compared; S.inputs += x.inputs; S.mismatches += x.mismatches; }
        std::set<uint32_t> all;
        for ( uint32_t c = 0; c < 65 * 65 * 65; ++c ) for ( auto& v : classes ) if ( v[c] ) { all.insert( c ); break; }
        for ( uint32_t c : all ) ps.add_fp( mix64(( uint64_t( 0x6401 ) << 32 ) | c ));
        { std::set<uint64_t> ds( st.begin(), st.end()); for ( uint64_t x : ds ) ps.add_fp( mix64( x ) ^ 0x6402 ); ps.add_extra( "inputs64_structured_distinct", ds.size()); }
        ps.evaluations.fetch_add( S.compared );
        ps.nontrivial.fetch_add( S.compared );
        ps.add_extra( "inputs64", S.inputs );
        ps.add_extra( "inputs64_random_classes(msb,lsb,popcount)", all.size());
        ps.add_extra( "function_results_compared", S.compared );
        ps.add_extra( "bits64_wall_ms", uint64_t(( wall_now() - t0 ) * 1000 ));
        ps.add_variant( "C25.bits64", S.compared );
        {
            uint64_t x = mix64( a.seed ^ 0x64 );
            ps.add_sample( "{\"case\":\"64-bit input\",\"input\":" + hx( x ) + ",\"reference_reversal\":" + hx( naive_rev( x, 64 )) + ",\"swar\":" + hx( br::swar()( x )) + ",\"lookup\":" + hx( br::lookup()( x ))
                           + ",\"muldiv\":" + hx( br::muldiv()( x )) + ",\"log2ceil\":" + num( cds::beans::log2ceil( size_t( x ))) + ",\"log2ceil_expected\":" + num( x <= 1 ? 0 : naive_msb( x - 1 ))
                           + ",\"floor2\":" + hx( cds::beans::floor2( size_t( x ))) + "}", 8 );
        }
    }
} // namespace pure
#endif
