// Harness runtime: arguments, PRNG, logical clock, barrier, violation registry, evidence JSON.
#ifndef CDSV_CORE_H
#define CDSV_CORE_H

#include <atomic>
#include <cstdint>
#include <cstdio>
#include <cstdlib>
#include <cstring>
#include <functional>
#include <map>
#include <mutex>
#include <set>
#include <sstream>
#include <string>
#include <thread>
#include <unordered_set>
#include <vector>
#include <sched.h>
#include <time.h>
#include <unistd.h>
#include <sys/resource.h>

#include <cdsv/rt.h>

namespace cdsv {

    // A store into a dying object made by its destructor is a dead store for the compiler (GCC -flifetime-dse, on by default) and is
    // removed unless something may still read it. The poison marks of the harness types are followed by this barrier; the builds also use
    // -fno-lifetime-dse.
    inline void poison_barrier() { __asm__ __volatile__( "" ::: "memory" ); }

    // ---------------------------------------------------------------- PRNG
    inline uint64_t mix64( uint64_t x )
    {
        x += 0x9e3779b97f4a7c15ull;
        x = ( x ^ ( x >> 30 )) * 0xbf58476d1ce4e5b9ull;
        x = ( x ^ ( x >> 27 )) * 0x94d049bb133111ebull;
        return x ^ ( x >> 31 );
    }
    struct Rng {
        uint64_t s;
        explicit Rng( uint64_t seed = 1 ) : s( mix64( seed )) { if ( !s ) s = 0x2545F4914F6CDD1Dull; }
        uint64_t next() { s ^= s << 13; s ^= s >> 7; s ^= s << 17; return s * 0x2545F4914F6CDD1Dull; }
        uint32_t below( uint32_t n ) { return n ? uint32_t(( next() >> 32 ) % n ) : 0; }
        uint32_t range( uint32_t lo, uint32_t hi ) { return lo + below( hi - lo + 1 ); }   // inclusive
        bool chance( uint32_t num, uint32_t den ) { return below( den ) < num; }
    };

    // ---------------------------------------------------------------- logical clock
    // One process-wide counter; the RMW is a full barrier on x86, so a.ret < b.inv implies that
    // a returned before b was invoked.
    inline std::atomic<uint64_t>& clock_ref() { static std::atomic<uint64_t> c{ 1 }; return c; }
#if defined(__SANITIZE_THREAD__)
    // Under TSan the clock must not create happens-before edges between the operations it time-stamps (a seq_cst RMW on one shared
    // variable would order every call after every earlier return and hide the data races the payload monitor looks for). A relaxed
    // RMW is the same `lock xadd` on x86 and TSan's runtime call is opaque to the compiler, so the time stamps stay real-time ordered.
    inline uint64_t tick() { return clock_ref().fetch_add( 1, std::memory_order_relaxed ); }
#else
    inline uint64_t tick() { return clock_ref().fetch_add( 1, std::memory_order_seq_cst ); }
#endif

    inline double wall_now()
    {
        timespec t; clock_gettime( CLOCK_MONOTONIC, &t );
        return double( t.tv_sec ) + double( t.tv_nsec ) * 1e-9;
    }

    // ---------------------------------------------------------------- spinning barrier
    class Barrier {
        std::atomic<unsigned> m_count{ 0 };
        std::atomic<unsigned> m_gen{ 0 };
        unsigned m_n;
    public:
        explicit Barrier( unsigned n ) : m_n( n ) {}
        void reset( unsigned n ) { m_n = n; m_count.store( 0 ); }
        void wait()
        {
            unsigned g = m_gen.load( std::memory_order_acquire );
            if ( m_count.fetch_add( 1, std::memory_order_acq_rel ) + 1 == m_n ) {
                m_count.store( 0, std::memory_order_relaxed );
                m_gen.fetch_add( 1, std::memory_order_release );
            }
            else {
                unsigned spins = 0;
                while ( m_gen.load( std::memory_order_acquire ) == g ) {
                    if ( ++spins > 200 ) { sched_yield(); spins = 0; }
                    else __asm__ __volatile__( "pause" ::: "memory" );
                }
            }
        }
        // same, but gives up after `seconds` of wall clock (returns false; the barrier is then unusable)
        bool wait_for( double seconds )
        {
            unsigned g = m_gen.load( std::memory_order_acquire );
            if ( m_count.fetch_add( 1, std::memory_order_acq_rel ) + 1 == m_n ) {
                m_count.store( 0, std::memory_order_relaxed );
                m_gen.fetch_add( 1, std::memory_order_release );
                return true;
            }
            double t0 = wall_now();
            unsigned spins = 0, polls = 0;
            while ( m_gen.load( std::memory_order_acquire ) == g ) {
                if ( ++spins > 200 ) {
                    sched_yield(); spins = 0;
                    if ( ++polls > 1000 ) { polls = 0; if ( wall_now() - t0 > seconds ) return false; }
                }
                else __asm__ __volatile__( "pause" ::: "memory" );
            }
            return true;
        }
    };

    // ---------------------------------------------------------------- JSON helpers
    inline std::string jstr( std::string const& s )
    {
        std::string o = "\"";
        for ( char ch : s ) {
            unsigned char c = (unsigned char) ch;
            if ( c == '"' || c == '\\' ) { o += '\\'; o += ch; }
            else if ( c == '\n' ) o += "\\n";
            else if ( c < 0x20 ) { char b[8]; snprintf( b, sizeof b, "\\u%04x", c ); o += b; }
            else o += ch;
        }
        return o + "\"";
    }

    // ---------------------------------------------------------------- arguments
    struct Args {
        uint64_t seed = 1;
        bool thorough = false;
        double scale = 1.0;        // multiplies iteration budgets
        std::string filter;        // substring filter on variant names (comma separated alternatives)
        std::string out;           // result JSON path
        std::string prop;          // property the run is made for (budgets may depend on it)
        std::string build = "dbg";
        std::vector<std::string> extra;
        unsigned shard_i = 0, shard_n = 1;
        mutable unsigned want_counter = 0;
        // true if the variant passes the substring filter (alternatives separated by ';') and belongs to this shard
        bool want( std::string const& name ) const
        {
            // tokens separated by ';': "abc" = include names containing abc, "!abc" = exclude names containing abc
            bool any_include = false, included = false;
            size_t p = 0;
            while ( p <= filter.size()) {
                size_t q = filter.find( ';', p );
                if ( q == std::string::npos ) q = filter.size();
                std::string f = filter.substr( p, q - p );
                if ( !f.empty()) {
                    if ( f[0] == '!' ) { if ( name.find( f.substr( 1 )) != std::string::npos ) return false; }
                    else { any_include = true; if ( name.find( f ) != std::string::npos ) included = true; }
                }
                p = q + 1;
            }
            if ( any_include && !included ) return false;
            return ( want_counter++ % shard_n ) == shard_i;
        }
        uint64_t n( uint64_t quick, uint64_t thor ) const
        {
            double v = double( thorough ? thor : quick ) * scale;
            return v < 1 ? 1 : uint64_t( v );
        }
    };
    inline Args& args() { static Args a; return a; }

    inline void start_heartbeat();
    inline void parse_args( int argc, char** argv )
    {
        start_heartbeat();
        Args& a = args();
        if ( const char* e = getenv( "VERIF_SEED" )) a.seed = strtoull( e, nullptr, 10 );
        for ( int i = 1; i < argc; ++i ) {
            std::string s = argv[i];
            auto val = [&]() -> std::string { return ( i + 1 < argc ) ? argv[++i] : ""; };
            if ( s == "--seed" ) a.seed = strtoull( val().c_str(), nullptr, 10 );
            else if ( s == "--tier" ) a.thorough = ( val() == "thorough" );
            else if ( s == "--scale" ) a.scale = atof( val().c_str());
            else if ( s == "--filter" ) a.filter = val();
            else if ( s == "--out" ) a.out = val();
            else if ( s == "--prop" ) a.prop = val();
            else if ( s == "--build" ) a.build = val();
            else if ( s == "--shard" ) { std::string v = val(); a.shard_i = unsigned( atoi( v.c_str())); size_t q = v.find( '/' ); a.shard_n = q == std::string::npos ? 1 : unsigned( atoi( v.c_str() + q + 1 )); if ( !a.shard_n ) a.shard_n = 1; }
            else a.extra.push_back( s );
        }
    }

    // ---------------------------------------------------------------- per-property observation record
    struct PropStats {
        std::atomic<uint64_t> evaluations{ 0 };      // executions (rounds, segments, cases)
        std::atomic<uint64_t> operations{ 0 };
        std::atomic<uint64_t> overlap_pairs{ 0 };
        std::atomic<uint64_t> nontrivial{ 0 };       // non-trivial executions (not necessarily distinct)
        std::atomic<uint64_t> checker_budget{ 0 };   // inconclusive checker calls
        std::mutex mtx;
        std::unordered_set<uint64_t> fingerprints;   // distinct non-trivial cases (capped)
        uint64_t fp_overflow = 0;
        std::vector<std::string> samples;            // JSON texts
        std::map<std::string, uint64_t> mech;        // mechanism counters
        std::map<std::string, uint64_t> extra;       // further numeric observations
        std::map<std::string, uint64_t> per_variant; // evaluations per variant
        std::string rule;

        void add_fp( uint64_t fp )
        {
            std::lock_guard<std::mutex> g( mtx );
            if ( fingerprints.size() < 4000000 ) fingerprints.insert( fp );
            else if ( !fingerprints.count( fp )) ++fp_overflow;
        }
        void add_sample( std::string const& js, size_t cap = 4 )
        {
            std::lock_guard<std::mutex> g( mtx );
            if ( samples.size() < cap ) samples.push_back( js );
        }
        bool need_sample( size_t cap = 4 )
        {
            std::lock_guard<std::mutex> g( mtx );
            return samples.size() < cap;
        }
        void add_mech( std::string const& k, uint64_t v )
        {
            std::lock_guard<std::mutex> g( mtx );
            mech[k] += v;
        }
        void add_extra( std::string const& k, uint64_t v )
        {
            std::lock_guard<std::mutex> g( mtx );
            extra[k] += v;
        }
        void add_variant( std::string const& k, uint64_t v )
        {
            std::lock_guard<std::mutex> g( mtx );
            per_variant[k] += v;
        }
    };

    struct Violation {
        std::string prop, key, text, witness;   // witness: JSON text
    };

    struct Registry {
        std::mutex mtx;
        std::map<std::string, PropStats*> props;
        std::vector<Violation> violations;
        std::map<std::string, uint64_t> vcount;   // "prop|key" -> count
        std::string current_variant;
        std::vector<std::string> inconclusive;
        double t0 = wall_now();
    };
    inline Registry& reg() { static Registry* r = new Registry; return *r; }   // never destroyed: stays reachable for LSan

    inline PropStats& prop( std::string const& id )
    {
        Registry& r = reg();
        std::lock_guard<std::mutex> g( r.mtx );
        auto it = r.props.find( id );
        if ( it == r.props.end())
            it = r.props.emplace( id, new PropStats ).first;
        return *it->second;
    }

    // Heartbeat for check.py's process-level wall-clock watchdog: every 5 s one line "@@beat <seconds> <logical clock> <evaluations>".
    // A process that is killed by that watchdog while the last beats still show progress was slow (inconclusive), not hung.
    inline void start_heartbeat()
    {
        static std::atomic<bool> started{ false };
        if ( started.exchange( true )) return;
        std::thread( []() {
            for (;;) {
                timespec ts; ts.tv_sec = 5; ts.tv_nsec = 0; nanosleep( &ts, nullptr );
                uint64_t ev = 0;
                Registry& r = reg();
                {
                    std::unique_lock<std::mutex> g( r.mtx, std::try_to_lock );
                    if ( !g.owns_lock()) continue;
                    for ( auto& p : r.props ) ev += p.second->evaluations.load( std::memory_order_relaxed ) + p.second->operations.load( std::memory_order_relaxed );
                }
                fprintf( stderr, "@@beat %.0f %llu %llu\n", wall_now() - r.t0, ( unsigned long long ) clock_ref().load( std::memory_order_relaxed ), ( unsigned long long ) ev );
            }
        } ).detach();
    }

    // Report a violation. key: stable identifier of the failure class (used for known-findings matching);
    // witness: JSON text (history, object id, ...). Thread-safe; stores at most 3 witnesses per key.
    inline void violation( std::string const& prop_id, std::string const& key, std::string const& text, std::string const& witness = "null" )
    {
        Registry& r = reg();
        std::lock_guard<std::mutex> g( r.mtx );
        uint64_t& c = r.vcount[prop_id + "|" + key];
        if ( c++ < 3 )
            r.violations.push_back( Violation{ prop_id, key, text, witness } );
        if ( c <= 3 )
            fprintf( stderr, "@@violation prop=%s key=%s %s\n", prop_id.c_str(), key.c_str(), text.c_str());
    }
    inline uint64_t violation_total()
    {
        Registry& r = reg();
        std::lock_guard<std::mutex> g( r.mtx );
        uint64_t n = 0;
        for ( auto& kv : r.vcount ) n += kv.second;
        return n;
    }
    inline void inconclusive( std::string const& what )
    {
        Registry& r = reg();
        std::lock_guard<std::mutex> g( r.mtx );
        if ( r.inconclusive.size() < 200 ) r.inconclusive.push_back( what );
    }

    // progress marker: names the variant in flight so that a crash can be attributed
    inline void set_variant( std::string const& v )
    {
        {
            Registry& r = reg();
            std::lock_guard<std::mutex> g( r.mtx );
            r.current_variant = v;
        }
        fprintf( stderr, "@@time %.1f\n@@variant %s\n", wall_now() - reg().t0, v.c_str());
        fflush( stderr );
    }

    [[noreturn]] inline void harness_failure( std::string const& why )
    {
        fprintf( stderr, "@@harness-failure %s\n", why.c_str());
        fflush( stderr );
        _exit( 2 );
    }

    inline void limit_memory_gb( unsigned gb )
    {
#if !defined(__SANITIZE_ADDRESS__) && !defined(__SANITIZE_THREAD__)
        rlimit rl; rl.rlim_cur = rl.rlim_max = rlim_t( gb ) << 30;
        setrlimit( RLIMIT_AS, &rl );
#else
        (void) gb;
#endif
    }

    // Write the result JSON and return the process exit code (0 no violation, 1 violations).
    inline int finish( const char* harness )
    {
        Registry& r = reg();
        Args& a = args();
        std::ostringstream o;
        o << "{\"harness\":" << jstr( harness ) << ",\"build\":" << jstr( a.build ) << ",\"seed\":" << a.seed
          << ",\"tier\":" << jstr( a.thorough ? "thorough" : "quick" ) << ",\"wall_s\":" << ( wall_now() - r.t0 ) << ",\n\"props\":{";
        bool first = true;
        for ( auto& kv : r.props ) {
            PropStats& p = *kv.second;
            if ( !first ) o << ",\n";
            first = false;
            o << jstr( kv.first ) << ":{\"evaluations\":" << p.evaluations.load() << ",\"operations\":" << p.operations.load()
              << ",\"overlap_pairs\":" << p.overlap_pairs.load() << ",\"nontrivial\":" << p.nontrivial.load()
              << ",\"distinct_nontrivial\":" << p.fingerprints.size() << ",\"fp_overflow\":" << p.fp_overflow
              << ",\"checker_budget\":" << p.checker_budget.load() << ",\"rule\":" << jstr( p.rule );
            o << ",\"samples\":[";
            for ( size_t i = 0; i < p.samples.size(); ++i ) { if ( i ) o << ","; o << p.samples[i]; }
            o << "],\"mechanisms\":{";
            { bool f = true; for ( auto& m : p.mech ) { if ( !f ) o << ","; f = false; o << jstr( m.first ) << ":" << m.second; } }
            o << "},\"extra\":{";
            { bool f = true; for ( auto& m : p.extra ) { if ( !f ) o << ","; f = false; o << jstr( m.first ) << ":" << m.second; } }
            o << "},\"variants\":{";
            { bool f = true; for ( auto& m : p.per_variant ) { if ( !f ) o << ","; f = false; o << jstr( m.first ) << ":" << m.second; } }
            o << "}}";
        }
        o << "},\n\"violations\":[";
        for ( size_t i = 0; i < r.violations.size(); ++i ) {
            Violation& v = r.violations[i];
            if ( i ) o << ",\n";
            o << "{\"prop\":" << jstr( v.prop ) << ",\"key\":" << jstr( v.key ) << ",\"text\":" << jstr( v.text ) << ",\"witness\":" << v.witness << "}";
        }
        o << "],\n\"violation_counts\":{";
        { bool f = true; for ( auto& m : r.vcount ) { if ( !f ) o << ","; f = false; o << jstr( m.first ) << ":" << m.second; } }
        o << "},\"inconclusive\":[";
        for ( size_t i = 0; i < r.inconclusive.size(); ++i ) { if ( i ) o << ","; o << jstr( r.inconclusive[i] ); }
        o << "],\"rt\":{\"hook_calls\":" << cdsv_rt_counter( 0 ) << ",\"yield\":" << cdsv_rt_counter( 1 ) << ",\"spin\":" << cdsv_rt_counter( 2 )
          << ",\"sleep\":" << cdsv_rt_counter( 3 ) << ",\"targeted\":" << cdsv_rt_counter( 4 ) << "}}\n";
        std::string s = o.str();
        if ( !a.out.empty()) {
            FILE* f = fopen( a.out.c_str(), "w" );
            if ( !f ) harness_failure( "cannot write " + a.out );
            fwrite( s.data(), 1, s.size(), f );
            fclose( f );
        }
        else
            fwrite( s.data(), 1, s.size(), stdout );
        fprintf( stderr, "@@done violations=%llu\n", (unsigned long long) violation_total());
        fflush( stderr );
        return r.vcount.empty() ? 0 : 1;
    }

    // ---------------------------------------------------------------- worker threads for one run
    // Runs fn(tid) on n threads registered with the perturbation engine.
    template <class F>
    inline void run_threads( unsigned n, F fn )
    {
        std::vector<std::thread> th;
        th.reserve( n );
        for ( unsigned i = 0; i < n; ++i )
            th.emplace_back( [i, &fn]() { fn( i ); } );
        for ( auto& t : th ) t.join();
    }

    // payload accessors used by the TSan payload monitor (reports are counted only in these frames)
    struct Payload { uint64_t v; };
    __attribute__((noinline)) inline void payload_write( Payload* p, uint64_t v ) { p->v = v; }
    __attribute__((noinline)) inline uint64_t payload_read( Payload const* p ) { return p->v; }
    // Plain copy of the words of a value carried through a container, performed in a harness frame. libcds copies user values with the
    // value's own copy operations, so a missing happens-before edge between the producer's copy into a node and the consumer's copy out
    // of it shows up as a TSan data race whose two innermost frames are both cdsv::payload_copy.
    __attribute__((noinline)) inline uint64_t payload_load( uint64_t const* p ) { return *p; }
    __attribute__((noinline)) inline void payload_copy( uint64_t* dst, uint64_t const* src, unsigned n ) { for ( unsigned i = 0; i < n; ++i ) dst[i] = src[i]; }

} // namespace cdsv

#endif
