// SMR set-up helpers: tiny HP/DHP singletons, thread attach/detach.
#ifndef CDSV_SMR_H
#define CDSV_SMR_H
#include <cds/init.h>
#include <cds/gc/hp.h>
#include <cds/gc/dhp.h>
#include <cds/threading/model.h>
#include <memory>

namespace cdsv {
    struct LibInit {
        LibInit() { cds::Initialize(); }
        ~LibInit() { cds::Terminate(); }
    };
    struct Attach {
        static void thread_attach() { cds::threading::Manager::attachThread(); }
        static void thread_detach() { cds::threading::Manager::detachThread(); }
    };
    struct NoAttach {
        static void thread_attach() {}
        static void thread_detach() {}
    };
    // HP with few hazard pointers and the minimal retired array so that scans run every few retires.
    struct SmrSetup {
        std::unique_ptr<cds::gc::HP> hp;
        std::unique_ptr<cds::gc::DHP> dhp;
        SmrSetup( size_t hazards, size_t max_threads, size_t retired = 0, cds::gc::HP::scan_type st = cds::gc::HP::scan_type::inplace, size_t dhp_initial = 16 )
        {
            hp.reset( new cds::gc::HP( hazards, max_threads, retired ? retired : hazards * max_threads, st ));
            dhp.reset( new cds::gc::DHP( dhp_initial ));
            cds::threading::Manager::attachThread();
        }
        ~SmrSetup()
        {
            cds::threading::Manager::detachThread();
            dhp.reset();
            hp.reset();
        }
    };
}
#endif
