// C27: split-order key encoding. regular_hash/dummy_hash for each bit-reversal algorithm, SplitListSet::bucket_no/parent_bucket
// through a derived probe, and small real split lists whose iteration order is compared with the model.
#ifndef CDSV_PURE_C27_H
#define CDSV_PURE_C27_H

#include <cdsv/pure_common.h>

namespace pure {
    namespace ci = cds::intrusive;

    struct C27Acc { uint64_t cases = 0, nontrivial = 0; std::vector<uint8_t> cls = std::vector<uint8_t>( 64 * 1024, 0 ); };   // cls: (k, bucket mod 1024) classes seen
    inline uint64_t rev_k( uint64_t x, unsigned k ) { return k ? ref_rev64( x ) >> ( 64 - k ) : 0; }      // k-bit reversal (composed reference, cross-checked)

    template <class BR>
    __attribute__((noinline, cold)) void c27_fail( const char* algo, std::string const& what, unsigned k, uint64_t h, std::string const& detail, std::string const& wit )
    {
        if ( !report_wanted( "C27", std::string( what ) + ":" + algo )) return;
        violation( "C27", std::string( what ) + ":" + algo, std::string( algo ) + ", table size 2^" + num( k ) + ", hash " + hxs( h ) + ": " + detail,
                "{\"bit_reversal\":" + jstr( algo ) + ",\"log2_table_size\":" + num( k ) + ",\"hash\":" + hx( h ) + "," + wit + "}" );
    }

    // one (algorithm, k, h) case of the ordering lemma
    template <class BR>
    inline void c27_case( const char* algo, unsigned algo_id, unsigned k, uint64_t h, C27Acc& A )
    {
        namespace sl = ci::split_list;
        ++A.cases;
        uint64_t const mask = low_mask( k );
        uint64_t const b = h & mask;                               // bucket of h in a table of 2^k buckets
        uint64_t const r = sl::regular_hash<BR>( size_t( h ));
        uint64_t const d = sl::dummy_hash<BR>( size_t( b ));
        uint64_t const r_ref = ref_rev64( h ) | 1, d_ref = ref_rev64( b ) & ~uint64_t( 1 );
        if ( r != r_ref ) c27_fail<BR>( algo, "regular_hash-value", k, h, "regular_hash = " + hxs( r ) + ", reference reversal|1 = " + hxs( r_ref ), "\"regular_hash\":" + hx( r ) + ",\"expected\":" + hx( r_ref ));
        if ( d != d_ref ) c27_fail<BR>( algo, "dummy_hash-value", k, h, "dummy_hash(" + hxs( b ) + ") = " + hxs( d ) + ", reference reversal&~1 = " + hxs( d_ref ), "\"bucket\":" + hx( b ) + ",\"dummy_hash\":" + hx( d ) + ",\"expected\":" + hx( d_ref ));
        if (( r & 1 ) != 1 ) c27_fail<BR>( algo, "regular-key-not-odd", k, h, "regular_hash = " + hxs( r ) + " is even", "\"regular_hash\":" + hx( r ));
        if (( d & 1 ) != 0 ) c27_fail<BR>( algo, "dummy-key-not-even", k, h, "dummy_hash(" + hxs( b ) + ") = " + hxs( d ) + " is odd", "\"bucket\":" + hx( b ) + ",\"dummy_hash\":" + hx( d ));
        if ( !( d < r ))
            c27_fail<BR>( algo, "key-before-own-dummy", k, h, "regular key " + hxs( r ) + " does not sort after the dummy " + hxs( d ) + " of its bucket " + hxs( b ), "\"bucket\":" + hx( b ) + ",\"dummy_hash\":" + hx( d ) + ",\"regular_hash\":" + hx( r ));
        if ( k > 0 ) {
            ++A.nontrivial;
            // successor of b in split order among the 2^k buckets: increment the k-bit reversal of b
            uint64_t rb = rev_k( b, k );
            if ( rb + 1 <= mask ) {
                uint64_t bn = rev_k( rb + 1, k );
                uint64_t dn = sl::dummy_hash<BR>( size_t( bn ));
                if ( !( r < dn ) || !( d < dn ))
                    c27_fail<BR>( algo, "key-not-before-next-bucket-dummy", k, h, "bucket " + hxs( b ) + " (dummy " + hxs( d ) + ") is followed in split order by bucket " + hxs( bn ) + " (dummy " + hxs( dn ) + ") but regular key " + hxs( r ) + " does not sort before it",
                                  "\"bucket\":" + hx( b ) + ",\"dummy_hash\":" + hx( d ) + ",\"regular_hash\":" + hx( r ) + ",\"next_bucket\":" + hx( bn ) + ",\"next_dummy_hash\":" + hx( dn ));
            }
            // parent: b without its most significant set bit
            if ( b ) {
                uint64_t p = b & ~( uint64_t( 1 ) << ( ref_msb64( b ) - 1 ));
                uint64_t dp = sl::dummy_hash<BR>( size_t( p ));
                if ( !( dp < d ))
                    c27_fail<BR>( algo, "parent-dummy-not-before-child", k, h, "parent bucket " + hxs( p ) + " has dummy " + hxs( dp ) + ", child bucket " + hxs( b ) + " has dummy " + hxs( d ), "\"bucket\":" + hx( b ) + ",\"parent\":" + hx( p ) + ",\"dummy_hash\":" + hx( d ) + ",\"parent_dummy_hash\":" + hx( dp ));
            }
        }
        if ( k < 63 ) {
            // after the table doubles h lives in bucket b or b + 2^k; that bucket's dummy lies between d and r, so the keys of the new
            // bucket are a suffix of the old bucket's range
            uint64_t b2 = h & low_mask( k + 1 );
            uint64_t d2 = sl::dummy_hash<BR>( size_t( b2 ));
            if ( !( d <= d2 && d2 < r ) || ( b2 != b && !( d < d2 )))
                c27_fail<BR>( algo, "split-bucket-dummy-outside-parent-range", k, h, "after doubling, bucket " + hxs( b2 ) + " has dummy " + hxs( d2 ) + " which is not inside [" + hxs( d ) + ", " + hxs( r ) + ")",
                              "\"bucket\":" + hx( b ) + ",\"bucket_after_doubling\":" + hx( b2 ) + ",\"dummy_hash\":" + hx( d ) + ",\"dummy_after_doubling\":" + hx( d2 ) + ",\"regular_hash\":" + hx( r ));
        }
        (void) algo_id;
        A.cls[( k << 10 ) | unsigned( b & 1023 )] = 1;
    }

    template <class BR>
    void c27_encoding( const char* algo, unsigned algo_id )
    {
        std::string v = std::string( "C27.encoding<" ) + algo + ">";
        if ( !begin_variant( v )) return;
        Args& a = args();
        unsigned const T = worker_count();
        std::vector<C27Acc> acc( T );
        uint64_t const nrandom = budget( 1000000, 100000000 );
        static const uint64_t high_parts[] = { 0, ~uint64_t( 0 ), 0x8000000000000000ull, 0x5555555555555555ull, 0xaaaaaaaaaaaaaaaaull, 0x0123456789abcdefull, 0x00000000ffffffffull, 0xffffffff00000000ull };
        double t0 = wall_now();
        parallel( T, [&]( unsigned t ) {
            C27Acc& A = acc[t];
            Rng g( mix64( a.seed ) ^ ( 0x2700 + t * 16 + algo_id ));
            // all 2^16 low patterns for every k, with structured and random high parts
            for ( unsigned k = t; k < 64; k += T ) {
                for ( uint32_t lo = 0; lo < 65536; ++lo ) {
                    uint64_t hp = (( lo + k ) & 1 ) ? g.next() : high_parts[( lo >> 1 ) & 7];
                    uint64_t h = ( hp & ~uint64_t( 0xffff )) | lo;
                    c27_case<BR>( algo, algo_id, k, h, A );
                    if (( lo & 0xff ) == 0 ) { selfcheck_refs( h ); if ( rev_k( h & low_mask( k ), k ) != naive_rev( h & low_mask( k ), k )) harness_failure( "rev_k" ); }
                    // the same pattern placed just below the table-size boundary (bits k-16..k-1)
                    if ( k > 16 ) c27_case<BR>( algo, algo_id, k, ( hp & ~( uint64_t( 0xffff ) << ( k - 16 ))) | ( uint64_t( lo ) << ( k - 16 )), A );
                }
            }
            for ( uint64_t i = t; i < nrandom; i += T )
                c27_case<BR>( algo, algo_id, unsigned( g.below( 64 )), random64( g ), A );
        } );
        PropStats& ps = prop( "C27" );
        uint64_t cases = 0, nt = 0;
        for ( C27Acc& A : acc ) { cases += A.cases; nt += A.nontrivial; }
        for ( unsigned c = 0; c < 64 * 1024; ++c ) { bool any = false; for ( C27Acc& A : acc ) any = any || A.cls[c]; if ( any ) ps.add_fp( mix64(( uint64_t( algo_id ) << 32 ) | c )); }
        ps.evaluations.fetch_add( cases );
        ps.nontrivial.fetch_add( nt );
        ps.add_extra( "encoding_cases", cases );
        ps.add_extra( "encoding_wall_ms", uint64_t(( wall_now() - t0 ) * 1000 ));
        ps.add_variant( v, cases );
        if ( ps.need_sample( 5 )) {
            namespace sl = ci::split_list;
            uint64_t h = mix64( a.seed ^ algo_id ); unsigned k = 5;
            uint64_t b = h & low_mask( k ), bn = naive_rev( naive_rev( b, k ) + 1, k );
            ps.add_sample( "{\"bit_reversal\":" + jstr( algo ) + ",\"log2_table_size\":5,\"hash\":" + hx( h ) + ",\"bucket\":" + num( b ) + ",\"dummy_hash\":" + hx( sl::dummy_hash<BR>( size_t( b ))) + ",\"regular_hash\":" + hx( sl::regular_hash<BR>( size_t( h )))
                           + ",\"regular_hash_expected\":" + hx( naive_rev( h, 64 ) | 1 ) + ",\"next_bucket_in_split_order\":" + num( bn ) + ",\"next_dummy_hash\":" + hx( naive_rev( b, k ) + 1 <= low_mask( k ) ? sl::dummy_hash<BR>( size_t( bn )) : 0 ) + "}", 5 );
        }
    }

    // ---------------------------------------------------------------- real split lists
    struct SItem : public ci::split_list::node< ci::michael_list::node<cds::gc::HP> > {
        size_t key;
    };
    struct SHash {
        size_t operator()( SItem const& v ) const { return v.key; }
        size_t operator()( size_t k ) const { return k; }
    };
    struct SCmp {
        static int c( size_t a, size_t b ) { return a < b ? -1 : ( a > b ? 1 : 0 ); }
        int operator()( SItem const& a, SItem const& b ) const { return c( a.key, b.key ); }
        int operator()( SItem const& a, size_t b ) const { return c( a.key, b ); }
        int operator()( size_t a, SItem const& b ) const { return c( a, b.key ); }
    };
    struct SListTraits : public ci::michael_list::traits {
        typedef ci::michael_list::base_hook< ci::opt::gc<cds::gc::HP> > hook;
        typedef SCmp compare;
    };
    typedef ci::MichaelList<cds::gc::HP, SItem, SListTraits> SList;
    template <class BR, bool Dyn>
    struct SSetTraits : public ci::split_list::traits {
        typedef SHash hash;
        typedef BR bit_reversal;
        static const bool dynamic_bucket_table = Dyn;
        typedef ci::FreeList free_list;          // TaggedFreeList asserts a lock-free 16-byte atomic, which libstdc++ does not report
        typedef ci::split_list::stat<> stat;
    };

    // derived probe: the protected helpers are pure functions of (argument, m_nBucketCountLog2)
    template <class Set>
    struct SplitProbe : public Set {
        SplitProbe() : Set( 8, 1 ) {}
        __attribute__((noinline)) size_t probe_bucket_no( size_t h, size_t k )
        {
            size_t old = this->m_nBucketCountLog2.load();
            this->m_nBucketCountLog2.store( k );
            size_t r = this->bucket_no( h );
            this->m_nBucketCountLog2.store( old );
            return r;
        }
        __attribute__((noinline)) static size_t probe_parent( size_t b ) { return Set::parent_bucket( b ); }
        size_t log2_buckets() const { return this->m_nBucketCountLog2.load(); }
    };

    inline void c27_probe()
    {
        if ( !begin_variant( "C27.probe<bucket_no,parent_bucket>" )) return;
        typedef ci::SplitListSet<cds::gc::HP, SList, SSetTraits<cds::algo::bit_reversal::lookup, true>> set_type;
        typedef SplitProbe<set_type> probe_type;
        PropStats& ps = prop( "C27" );
        Args& a = args();
        probe_type pr;
        Rng g( mix64( a.seed ) ^ 0x27b0 );
        uint64_t cases = 0, bad_bno = 0, bad_par = 0;
        std::vector<char> k_ok( 64, 1 ), m_ok( 64, 1 );
#ifdef PURE_SANITIZED
        for ( unsigned k = 30; k < 64; ++k ) {
            if ( !probe_selected( k )) { k_ok[k] = 0; continue; }
            ProbeResult r = ub_probe( [&pr, k]() { volatile size_t x = pr.probe_bucket_no( size_t( 0x123456789abcdef5ull ), k ); (void) x; } );
            if ( r.ok ) continue;
            k_ok[k] = 0;
            std::string key = r.is( "shift exponent" ) ? std::string( "bucket_no:int-shift:buckets>=2^32" ) : "bucket_no:" + ub_class( r ) + ( k == 31 ? ":buckets=2^31" : "" );
            report( "C27", key, "SplitListSet::bucket_no() with 2^" + num( k ) + " buckets executes undefined behaviour: " + r.msg + " at " + r.where, "{\"log2_bucket_count\":" + num( k ) + ",\"probe\":" + r.json() + "}" );
        }
        for ( unsigned m = 30; m < 64; ++m ) {
            if ( !probe_selected( m )) { m_ok[m] = 0; continue; }
            ProbeResult r = ub_probe( [m]() { volatile size_t x = probe_type::probe_parent(( size_t( 1 ) << m ) + 5 ); (void) x; } );
            if ( r.ok ) continue;
            m_ok[m] = 0;
            std::string key = r.is( "shift exponent" ) ? std::string( "parent_bucket:int-shift:bucket>=2^32" ) : "parent_bucket:" + ub_class( r );
            report( "C27", key, "SplitListSet::parent_bucket(2^" + num( m ) + "+5) executes undefined behaviour: " + r.msg + " at " + r.where, "{\"bucket\":" + hx(( uint64_t( 1 ) << m ) + 5 ) + ",\"probe\":" + r.json() + "}" );
        }
#endif
        uint64_t const per_k = budget( 4000, 200000 );
        for ( unsigned k = 0; k < 64; ++k ) {
            ps.add_fp( mix64( 0x27b000 + k ));
            if ( !k_ok[k] ) continue;
            for ( uint64_t i = 0; i < per_k; ++i ) {
                uint64_t h = i < 16 ? ( i & 1 ? ~uint64_t( 0 ) >> ( i / 2 ) : uint64_t( 1 ) << (( k + i / 2 ) % 64 )) : random64( g );
                uint64_t got = pr.probe_bucket_no( size_t( h ), k ), exp = h & low_mask( k );
                ++cases;
                if ( got != exp ) {
                    ++bad_bno;
                    if ( report_wanted( "C27", k >= 32 ? "bucket_no:int-shift:buckets>=2^32" : "bucket_no:value" ))
                    violation( "C27", k >= 32 ? std::string( "bucket_no:int-shift:buckets>=2^32" ) : std::string( "bucket_no:value" ),
                            "SplitListSet::bucket_no(" + hxs( h ) + ") with 2^" + num( k ) + " buckets returned " + hxs( got ) + ", hash mod bucket count is " + hxs( exp ),
                            "{\"hash\":" + hx( h ) + ",\"log2_bucket_count\":" + num( k ) + ",\"expected\":" + hx( exp ) + ",\"actual\":" + hx( got ) + "}" );
                }
            }
        }
        for ( unsigned m = 0; m < 64; ++m ) {
            if ( !m_ok[m] ) continue;
            for ( uint64_t i = 0; i < per_k; ++i ) {
                uint64_t low = m ? (( i < 8 ? ( i & 1 ? low_mask( m ) >> ( i / 2 ) : i / 2 ) : g.next()) & low_mask( m )) : 0;
                uint64_t b = ( uint64_t( 1 ) << m ) | low;
                uint64_t got = probe_type::probe_parent( size_t( b )), exp = low;      // most significant set bit cleared
                ++cases;
                if ( got != exp ) {
                    ++bad_par;
                    if ( report_wanted( "C27", m >= 32 ? "parent_bucket:int-shift:bucket>=2^32" : "parent_bucket:value" ))
                    violation( "C27", m >= 32 ? std::string( "parent_bucket:int-shift:bucket>=2^32" ) : std::string( "parent_bucket:value" ),
                            "SplitListSet::parent_bucket(" + hxs( b ) + ") returned " + hxs( got ) + ", the bucket without its most significant bit is " + hxs( exp )
                            + ( got == b ? " (the bucket is its own parent: init_bucket would recurse forever)" : "" ),
                            "{\"bucket\":" + hx( b ) + ",\"expected\":" + hx( exp ) + ",\"actual\":" + hx( got ) + "}" );
                }
            }
        }
        ps.evaluations.fetch_add( cases );
        ps.nontrivial.fetch_add( cases );
        ps.add_extra( "probe_cases", cases );
        { uint64_t ke = 0, me = 0; for ( unsigned i = 0; i < 64; ++i ) { ke += k_ok[i]; me += m_ok[i]; }
          ps.add_extra( "probe_bucket_no_table_sizes_evaluated_in_process", ke ); ps.add_extra( "probe_parent_bucket_msb_positions_evaluated_in_process", me ); }
        ps.add_extra( "probe_forks", probe_forks().load());
        ps.add_extra( "probe_bucket_no_mismatches", bad_bno );
        ps.add_extra( "probe_parent_bucket_mismatches", bad_par );
        ps.add_variant( "C27.probe<bucket_no,parent_bucket>", cases );
        ps.add_sample( "{\"case\":\"derived probe\",\"bucket_no\":{\"hash\":\"0x12345\",\"log2_bucket_count\":12,\"actual\":" + hx( pr.probe_bucket_no( 0x12345, 12 )) + ",\"expected\":\"0x345\"},\"parent_bucket\":{\"bucket\":\"0x345\",\"actual\":"
                       + hx( probe_type::probe_parent( 0x345 )) + ",\"expected\":\"0x145\"}}", 5 );
    }

    template <class BR, bool Dyn>
    void c27_real( const char* algo )
    {
        std::string v = std::string( "C27.real<" ) + algo + ( Dyn ? ",dynamic>" : ",static>" );
        if ( !begin_variant( v )) return;
        typedef ci::SplitListSet<cds::gc::HP, SList, SSetTraits<BR, Dyn>> set_type;
        struct Probe : public set_type {
            Probe( size_t n, size_t lf ) : set_type( n, lf ) {}
            size_t log2_buckets() const { return this->m_nBucketCountLog2.load(); }
        };
        PropStats& ps = prop( "C27" );
        Args& a = args();
        Rng g( mix64( a.seed ) ^ std::hash<std::string>()( v ));
        uint64_t const rounds = budget( 40, 600 );
        uint64_t lists = 0, ops = 0;
        bool sampled = false;
        for ( uint64_t round = 0; round < rounds; ++round ) {
            size_t cap = size_t( 1 ) << g.range( 1, 9 );            // bucket table capacity 2..512
            size_t lf = g.chance( 1, 4 ) ? 2 : 1;
            size_t n = g.range( 1, unsigned( cap * lf * 2 ));
            unsigned keyclass = g.below( 4 );
            std::vector<SItem> items( n );
            std::set<size_t> model;
            {
                Probe s( cap * lf, lf );
                for ( size_t i = 0; i < n; ++i ) {
                    uint64_t k;
                    switch ( keyclass ) {
                    case 0: k = g.below( unsigned( 4 * n )); break;                                     // dense small keys
                    case 1: k = g.next(); break;                                                        // all 64 bits
                    case 2: k = ( g.next() << 56 ) | g.below( unsigned( 2 * cap )); break;              // equal low bits, differing top byte
                    default: k = ( uint64_t( g.below( 64 )) << 10 ) | ( uint64_t( g.below( 4 )) << 62 ) | g.below( 8 ); break;
                    }
                    items[i].key = size_t( k );
                    bool ins = s.insert( items[i] );
                    bool fresh = model.insert( size_t( k )).second;
                    ++ops;
                    if ( ins != fresh ) {
                        report( "C27", "real-list:insert-result:" + std::string( algo ), v + ": insert(" + hxs( k ) + ") returned " + num( ins ) + ", the model says " + num( fresh ), "{\"key\":" + hx( k ) + "}" );
                        break;
                    }
                }
                // iteration order = split order: regular_hash ascending; each bucket of every table size up to the current one is contiguous
                unsigned kk = unsigned( s.log2_buckets());
                std::vector<size_t> order;
                for ( auto it = s.begin(); it != s.end(); ++it ) order.push_back( it->key );
                ++lists;
                bool ok = order.size() == model.size() && s.size() == model.size();
                if ( !ok )
                    report( "C27", "real-list:size:" + std::string( algo ), v + ": iteration yields " + num( order.size()) + " items, size() = " + num( s.size()) + ", model has " + num( model.size()), "{\"capacity\":" + num( cap ) + "}" );
                for ( size_t i = 0; ok && i + 1 < order.size(); ++i ) {
                    uint64_t r0 = naive_rev( order[i], 64 ) | 1, r1 = naive_rev( order[i + 1], 64 ) | 1;
                    if ( r0 > r1 || ( r0 == r1 && order[i] >= order[i + 1] )) {
                        ok = false;
                        report( "C27", "real-list:iteration-not-in-split-order:" + std::string( algo ), v + ": key " + hxs( order[i] ) + " precedes " + hxs( order[i + 1] ) + " but its reference split-order key " + hxs( r0 ) + " is not smaller than " + hxs( r1 ),
                                "{\"capacity\":" + num( cap ) + ",\"load_factor\":" + num( lf ) + ",\"first\":" + hx( order[i] ) + ",\"second\":" + hx( order[i + 1] ) + "}" );
                    }
                }
                for ( unsigned j = 0; ok && j <= kk; ++j ) {
                    std::set<size_t> closed;
                    size_t cur = ~size_t( 0 ); bool have = false;
                    uint64_t prev_rev = 0;
                    for ( size_t key : order ) {
                        size_t b = key & low_mask( j );
                        if ( have && b == cur ) continue;
                        if ( have ) closed.insert( cur );
                        uint64_t br_ = naive_rev( b, j );
                        if ( closed.count( b ) || ( have && br_ < prev_rev )) {
                            ok = false;
                            report( "C27", "real-list:bucket-not-contiguous:" + std::string( algo ), v + ": with 2^" + num( j ) + " buckets, bucket " + num( b ) + " re-appears or appears out of split order at key " + hxs( key ),
                                    "{\"capacity\":" + num( cap ) + ",\"log2_buckets\":" + num( j ) + ",\"bucket\":" + num( b ) + ",\"key\":" + hx( key ) + "}" );
                            break;
                        }
                        cur = b; have = true; prev_rev = br_;
                    }
                }
                for ( size_t key : model ) { ++ops; if ( !s.contains( key )) { report( "C27", "real-list:inserted-key-not-found:" + std::string( algo ), v + ": contains(" + hxs( key ) + ") is false after a successful insert (2^" + num( kk ) + " buckets)", "{\"key\":" + hx( key ) + ",\"capacity\":" + num( cap ) + "}" ); break; } }
                for ( unsigned i = 0; i < 16; ++i ) { size_t key = size_t( g.next()); ++ops; if ( !model.count( key ) && s.contains( key )) report( "C27", "real-list:absent-key-found:" + std::string( algo ), v + ": contains(" + hxs( key ) + ") is true for a key never inserted", "{\"key\":" + hx( key ) + "}" ); }
                ps.add_fp( mix64(( uint64_t( cap ) << 40 ) ^ ( uint64_t( lf ) << 36 ) ^ ( uint64_t( keyclass ) << 32 ) ^ ( uint64_t( kk ) << 24 ) ^ std::hash<std::string>()( v )));
                ps.add_mech( "split_list.onNewBucket", s.statistics().m_nBucketCount.get());
                ps.add_mech( "split_list.onRecursiveInitBucket", s.statistics().m_nInitBucketRecursive.get());
                if ( model.size() >= 8 && kk >= 2 && !sampled && ps.need_sample( 5 )) {
                    sampled = true;
                    std::string os = "[";
                    for ( size_t i = 0; i < order.size() && i < 12; ++i ) { if ( i ) os += ","; os += hx( order[i] ); }
                    ps.add_sample( "{\"case\":\"real split list\",\"variant\":" + jstr( v ) + ",\"capacity\":" + num( cap ) + ",\"items\":" + num( model.size()) + ",\"log2_buckets_reached\":" + num( kk ) + ",\"iteration_order_first_keys\":" + os
                                   + "],\"sorted_by_reference_split_order\":" + ( ok ? "true" : "false" ) + "}", 5 );
                }
                s.clear();
            }
            cds::gc::HP::force_dispose();
        }
        ps.evaluations.fetch_add( lists );
        ps.nontrivial.fetch_add( lists );
        ps.operations.fetch_add( ops );
        ps.add_extra( "real_split_lists", lists );
        ps.add_variant( v, lists );
    }

    inline void c27_all()
    {
        namespace brn = cds::algo::bit_reversal;
        c27_encoding<brn::swar>( "swar", 1 );
        c27_encoding<brn::lookup>( "lookup", 2 );
        c27_encoding<brn::muldiv>( "muldiv", 3 );
        c27_probe();
        c27_real<brn::swar, true>( "swar" );
        c27_real<brn::lookup, true>( "lookup" );
        c27_real<brn::muldiv, true>( "muldiv" );
        c27_real<brn::lookup, false>( "lookup" );
    }
} // namespace pure
#endif
