// Executable sequential models used by the WGL checker.
#ifndef CDSV_MODELS_H
#define CDSV_MODELS_H

#include <cdsv/wgl.h>

namespace cdsv {

    inline uint64_t hash_vec( std::vector<int64_t> const& v, uint64_t h = 1469598103934665603ull )
    {
        for ( int64_t x : v ) { h ^= uint64_t( x ); h *= 1099511628211ull; h ^= h >> 31; }
        return h;
    }

    // ------------------------------------------------------------------ sequence containers
    // One model for queue / stack / deque with optional capacity (cap < 0: unbounded).
    enum SeqOp { S_PUSH_BACK = 0, S_PUSH_FRONT, S_POP_FRONT, S_POP_BACK, S_CLEAR, S_EMPTY, S_SIZE, S_FRONT, S_N };
    static const char* const seq_opnames[] = { "push_back", "push_front", "pop_front", "pop_back", "clear", "empty", "size", "front" };
    // queue: enqueue = push_back, dequeue = pop_front; stack: push = push_back, pop = pop_back.
    // push: a = uid, r = 1 success / 0 failed (only admissible when full). pop: r = uid or -1 (only admissible when empty).
    inline std::string fifo_bad_pattern( std::vector<Op> const& h );
    struct SeqModel {
        // sound refutation used when the WGL budget is exceeded ("" = nothing found)
        static std::string refute( std::vector<Op> const& h, int64_t cap ) { return cap < 0 ? fifo_bad_pattern( h ) : std::string(); }
        struct State {
            std::vector<int64_t> v;
            int64_t cap = -1;
            bool operator==( State const& o ) const { return v == o.v; }
        };
        static uint64_t hash( State const& s ) { return hash_vec( s.v ); }
        static bool step( State& s, Op const& o )
        {
            switch ( o.op ) {
            case S_PUSH_BACK:
            case S_PUSH_FRONT:
                if ( o.r == 0 ) return s.cap >= 0 && int64_t( s.v.size()) >= s.cap;
                if ( s.cap >= 0 && int64_t( s.v.size()) >= s.cap ) return false;
                if ( o.op == S_PUSH_BACK ) s.v.push_back( o.a ); else s.v.insert( s.v.begin(), o.a );
                return true;
            case S_POP_FRONT:
                if ( o.r < 0 ) return s.v.empty();
                if ( s.v.empty() || s.v.front() != o.r ) return false;
                s.v.erase( s.v.begin());
                return true;
            case S_POP_BACK:
                if ( o.r < 0 ) return s.v.empty();
                if ( s.v.empty() || s.v.back() != o.r ) return false;
                s.v.pop_back();
                return true;
            case S_FRONT:
                if ( o.r < 0 ) return s.v.empty();
                return !s.v.empty() && s.v.front() == o.r;
            case S_CLEAR: s.v.clear(); return true;
            case S_EMPTY: return ( o.r != 0 ) == s.v.empty();
            case S_SIZE:  return o.r == int64_t( s.v.size());
            }
            return false;
        }
    };

    // Sound (not complete) refutation of a FIFO history with unique values, used when the WGL search exceeds
    // its budget. Every pattern below implies non-linearizability on its own; absence proves nothing.
    // Only histories consisting of push_back / pop_front are examined. Returns "" if no pattern was found.
    inline std::string fifo_bad_pattern( std::vector<Op> const& h )
    {
        struct V { int enq = -1, deq = -1; };
        std::vector<std::pair<int64_t, V>> vals;
        auto find = [&vals]( int64_t id ) -> V& {
            for ( auto& p : vals ) if ( p.first == id ) return p.second;
            vals.push_back( std::make_pair( id, V()));
            return vals.back().second;
        };
        for ( size_t i = 0; i < h.size(); ++i ) {
            Op const& o = h[i];
            if ( o.op == S_PUSH_BACK ) { if ( o.r ) find( o.a ).enq = int( i ); }
            else if ( o.op == S_POP_FRONT ) {
                if ( o.r >= 0 ) {
                    V& v = find( o.r );
                    if ( v.deq >= 0 ) return "value " + std::to_string( o.r ) + " dequeued twice";
                    v.deq = int( i );
                }
            }
            else return "";
        }
        for ( auto& p : vals ) {
            if ( p.second.enq < 0 ) return "value " + std::to_string( p.first ) + " dequeued but never enqueued";
            if ( p.second.deq >= 0 && h[p.second.deq].ret < h[p.second.enq].inv ) return "value " + std::to_string( p.first ) + " dequeued before its enqueue began";
        }
        // order: enq(a) returned before enq(b) was invoked, but deq(b) returned before deq(a) was invoked (or a was never dequeued)
        for ( auto& pa : vals ) for ( auto& pb : vals ) {
            V const& a = pa.second; V const& b = pb.second;
            if ( &pa == &pb || b.deq < 0 ) continue;
            if ( h[a.enq].ret < h[b.enq].inv ) {
                if ( a.deq >= 0 && h[b.deq].ret < h[a.deq].inv )
                    return "FIFO order: " + std::to_string( pa.first ) + " enqueued strictly before " + std::to_string( pb.first ) + " but dequeued strictly after it";
            }
        }
        // empty: every instant of the dequeue's interval is covered by a value that is surely in the queue
        for ( size_t i = 0; i < h.size(); ++i ) {
            Op const& e = h[i];
            if ( e.op != S_POP_FRONT || e.r >= 0 ) continue;
            bool all = true;
            for ( uint64_t t = e.inv; t < e.ret && all; ++t ) {
                bool cov = false;
                for ( auto& p : vals ) {
                    V const& v = p.second;
                    uint64_t from = h[v.enq].ret;
                    uint64_t to = v.deq >= 0 ? h[v.deq].inv : ~uint64_t( 0 );
                    if ( from <= t && to >= t + 1 ) { cov = true; break; }
                }
                if ( !cov ) all = false;
            }
            if ( all ) return "dequeue reported empty although the queue was surely non-empty during the whole call";
        }
        return "";
    }

    // ------------------------------------------------------------------ max-priority queue
    // push: a = uid, b = priority, r = 1/0 (0 only when full). pop: r = uid or -1, r2 = priority of r.
    enum PqOp { P_PUSH = 0, P_POP, P_CLEAR, P_EMPTY, P_SIZE, P_N };
    static const char* const pq_opnames[] = { "push", "pop", "clear", "empty", "size" };
    struct PqModel {
        static std::string refute( std::vector<Op> const&, int64_t ) { return std::string(); }
        struct State {
            std::vector<int64_t> v;   // sorted list of (prio << 32 | uid)
            int64_t cap = -1;
            bool operator==( State const& o ) const { return v == o.v; }
        };
        static uint64_t hash( State const& s ) { return hash_vec( s.v ); }
        static int64_t enc( int64_t prio, int64_t uid ) { return ( prio << 32 ) | uid; }
        static bool step( State& s, Op const& o )
        {
            switch ( o.op ) {
            case P_PUSH: {
                if ( o.r == 0 ) return s.cap >= 0 && int64_t( s.v.size()) >= s.cap;
                if ( s.cap >= 0 && int64_t( s.v.size()) >= s.cap ) return false;
                int64_t e = enc( o.b, o.a );
                s.v.insert( std::lower_bound( s.v.begin(), s.v.end(), e ), e );
                return true;
            }
            case P_POP: {
                if ( o.r < 0 ) return s.v.empty();
                if ( s.v.empty()) return false;
                int64_t maxprio = s.v.back() >> 32;
                if ( o.r2 != maxprio ) return false;
                int64_t e = enc( o.r2, o.r );
                auto it = std::lower_bound( s.v.begin(), s.v.end(), e );
                if ( it == s.v.end() || *it != e ) return false;
                s.v.erase( it );
                return true;
            }
            case P_CLEAR: s.v.clear(); return true;
            case P_EMPTY: return ( o.r != 0 ) == s.v.empty();
            case P_SIZE:  return o.r == int64_t( s.v.size());
            }
            return false;
        }
    };

    // ------------------------------------------------------------------ one key of a set / map
    // State: -1 absent, otherwise the id of the item present.
    // Ids are > 0; an observed id of 0 means "default-constructed value seen" (functor-initialised map values
    // are visible before the functor ran) and matches any present item; -2 means "not observed".
    enum KeyOp {
        K_INS = 0,   // a=id                  r=1 inserted / 0 key exists
        K_UPD,       // a=id b=flags          r=0 (false,false) / 1 (true,false) updated / 2 (true,true) inserted ; r2 = observed old id or -2
        K_ERS,       // erase/unlink/extract  r=1/0 ; r2 = observed id or -2
        K_FND,       // find/get/contains     r=1/0 ; r2 = observed id or -2
        K_UNL,       // unlink specific item a=id: r=1 only if key holds exactly that item
        K_N
    };
    static const char* const key_opnames[] = { "insert", "update", "erase", "find", "unlink_item" };
    enum KeyFlags { KF_ALLOW_INSERT = 1, KF_REPLACES = 2 };
    struct KeyModel {
        typedef int64_t State;
        static uint64_t hash( State const& s ) { return uint64_t( s ) * 0x9e3779b97f4a7c15ull; }
        // state 0 = present with unknown id (pinned by a lookup that does not reveal the item)
        static bool idmatch( int64_t observed, int64_t st ) { return observed == -2 || observed == 0 || st == 0 || observed == st; }
        static bool step( State& s, Op const& o )
        {
            switch ( o.op ) {
            case K_INS:
                if ( o.r ) { if ( s != -1 ) return false; s = o.a; return true; }
                return s != -1;
            case K_UPD:
                if ( o.r == 2 ) { if ( s != -1 || !( o.b & KF_ALLOW_INSERT )) return false; s = o.a; return true; }
                if ( o.r == 1 ) {
                    if ( s == -1 || !idmatch( o.r2, s )) return false;
                    if ( o.b & KF_REPLACES ) s = o.a;
                    return true;
                }
                return s == -1 && !( o.b & KF_ALLOW_INSERT );
            case K_ERS:
                if ( o.r ) { if ( s == -1 || !idmatch( o.r2, s )) return false; s = -1; return true; }
                return s == -1;
            case K_FND:
                if ( o.r ) return s != -1 && idmatch( o.r2, s );
                return s == -1;
            case K_UNL:
                if ( o.r ) { if ( s != o.a ) return false; s = -1; return true; }
                return s != o.a;
            }
            return false;
        }
    };

} // namespace cdsv
#endif
