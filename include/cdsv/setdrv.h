// Round / segment driver for sets and maps: per-key linearizability (P-compositionality) against the
// `absent | present(id)` register model, state pinned by sequential reads at every barrier, plus the
// quiescent structure checks of C18 and the extract_min/max interval rules of C15.
#ifndef CDSV_SETDRV_H
#define CDSV_SETDRV_H

#include <cdsv/core.h>
#include <cdsv/models.h>
#include <memory>

namespace cdsv {

    // abstract alphabet; every adapter maps the ones it supports onto the real overloads
    enum AOp {
        A_INS = 0,   // insert( item )
        A_INSF,      // insert( item, functor )
        A_EMP,       // emplace
        A_UPD,       // update( item, functor, allow insert )
        A_UPDNI,     // update( item, functor, insertion not allowed )
        A_UPS,       // upsert / replacing update without functor (allow insert)
        A_ERS,       // erase( key )
        A_ERSF,      // erase( key, functor )
        A_EXT,       // extract( key )
        A_CON,       // contains( key )
        A_FND,       // find( key, functor )
        A_GET,       // get( key )
        A_EXMIN,     // extract_min()
        A_EXMAX,     // extract_max()
        A_ERSW,      // erase_with / contains with a Less predicate
        A_FNDW,      // find_with( key, Less, functor )
        A_N
    };
    static const char* const aop_names[] = { "insert", "insert(f)", "emplace", "update", "update(no-insert)", "upsert", "erase", "erase(f)", "extract", "contains", "find(f)", "get",
                                             "extract_min", "extract_max", "erase_with", "find_with" };

    // result of one abstract operation, in the vocabulary of KeyModel
    struct SetRes {
        int     mop = K_FND;    // model op
        int     key = 0;        // key the result is about (extract_min/max: the key returned; -1 = empty result)
        int64_t a = 0, b = 0, r = 0, r2 = -2;
    };

    static const uint32_t ITEM_LIVE = 0x11FE11FEu, ITEM_DEAD = 0xDEADBEEFu;

    // set element / map mapped value carrying the unique id of the write that created it
    struct Item {
        int key;
        int64_t id;
        uint32_t magic;
        Item() : key( 0 ), id( 0 ), magic( ITEM_LIVE ) {}
        Item( int k, int64_t i ) : key( k ), id( i ), magic( ITEM_LIVE ) {}
        explicit Item( int k ) : key( k ), id( 0 ), magic( ITEM_LIVE ) {}
        // the id travels through payload_copy so that TSan attributes a race on stored user data to the harness (see core.h)
        Item( Item const& o ) : key( o.key ), magic( o.magic ) { payload_copy( reinterpret_cast<uint64_t*>( &id ), reinterpret_cast<uint64_t const*>( &o.id ), 1 ); }
        Item& operator=( Item const& o ) { key = o.key; magic = o.magic; payload_copy( reinterpret_cast<uint64_t*>( &id ), reinterpret_cast<uint64_t const*>( &o.id ), 1 ); return *this; }
        ~Item() { magic = ITEM_DEAD; poison_barrier(); }
    };
    struct ItemLess {
        bool operator()( Item const& a, Item const& b ) const { return a.key < b.key; }
        bool operator()( Item const& a, int b ) const { return a.key < b; }
        bool operator()( int a, Item const& b ) const { return a < b.key; }
        bool operator()( int a, int b ) const { return a < b; }
    };
    struct ItemCmp {
        int operator()( Item const& a, Item const& b ) const { return a.key < b.key ? -1 : ( a.key > b.key ? 1 : 0 ); }
        int operator()( Item const& a, int b ) const { return a.key < b ? -1 : ( a.key > b ? 1 : 0 ); }
        int operator()( int a, Item const& b ) const { return a < b.key ? -1 : ( a > b.key ? 1 : 0 ); }
        int operator()( int a, int b ) const { return a < b ? -1 : ( a > b ? 1 : 0 ); }
    };
    struct ItemEq {
        bool operator()( Item const& a, Item const& b ) const { return a.key == b.key; }
        bool operator()( Item const& a, int b ) const { return a.key == b; }
        bool operator()( int a, Item const& b ) const { return a == b.key; }
        bool operator()( int a, int b ) const { return a == b; }
    };

    // memory check on every item observed through the container
    inline std::string& mem_context() { static std::string s; return s; }   // "<prop>|<variant>" of the run in flight (set by the driver)
    inline void item_observed_dead( const char* where )
    {
        std::string c = mem_context();
        size_t p = c.find( '|' );
        std::string pr = p == std::string::npos ? std::string( "C13" ) : c.substr( 0, p );
        std::string var = p == std::string::npos ? c : c.substr( p + 1 );
        violation( pr, "destroyed-item-observed:" + var, std::string( "an item handed out by the container (" ) + where + ") carries the DEAD mark: its destructor had already run" );
    }
    inline int64_t observe( Item const& it, const char* where )
    {
        if ( it.magic != ITEM_LIVE ) item_observed_dead( where );
        return int64_t( payload_load( reinterpret_cast<uint64_t const*>( &it.id )));
    }

    struct SetPlan {
        const char* prop;
        std::string variant;
        unsigned threads = 3;
        unsigned keys = 4;
        unsigned min_ops = 1, max_ops = 4;
        uint64_t rounds = 1000;
        unsigned weight[A_N] = {};
        size_t wgl_budget = 30000;
        bool ordered = true;          // traversal must be strictly increasing by key
        bool check_size = true;       // item counter configured: size()/empty() exact at quiescence
        double round_watchdog_s = 90;  // wall-clock watchdog for one round (a round normally takes well under 0.1 s)
        uint64_t recreate_every = 400; // rounds between re-creations of the container (0 = never)
        unsigned stable_low_keys = 0; // keys [0, stable_low_keys) are inserted once and only looked up (arms the extract_min rule)
    };

    // Adapter concept:
    //   A(); ~A(); static void thread_attach(); static void thread_detach();
    //   static unsigned supports();                    bit mask of AOp
    //   SetRes exec( int aop, int key, int64_t id );
    //   bool traverse( std::vector<std::pair<int,int64_t>>& out );      false if the container has no iteration
    //   int64_t size(); bool empty();
    //   bool consistent( std::string& why );           structural self-check (trees); true if none
    //   void mechanisms( PropStats& );
    template <class A>
    class SetDriver {
        SetPlan m_plan;
        PropStats& m_ps;
        PropStats& m_ps18;
        std::unique_ptr<A> m_c;
        Barrier m_bar;
        std::atomic<bool> m_stop{ false };
        struct Rec { Op op; int key; int aop; };
        std::vector<std::vector<Rec>> m_log;
        uint64_t m_round = 0;
        uint64_t m_seed;
        std::vector<uint64_t> m_uidseq;
        std::vector<int64_t> m_pinned;   // per key: -1 absent, else id
        unsigned m_supports;
        std::atomic<int> m_inflight[16];  // per thread: (aop << 16 | key) of the call in progress, -1 if none

        int pick_op( Rng& rng )
        {
            unsigned tot = 0;
            for ( int i = 0; i < A_N; ++i ) if ( m_supports & ( 1u << i )) tot += m_plan.weight[i];
            if ( !tot ) return -1;
            unsigned x = rng.below( tot );
            for ( int i = 0; i < A_N; ++i ) {
                if ( !( m_supports & ( 1u << i ))) continue;
                if ( x < m_plan.weight[i] ) return i;
                x -= m_plan.weight[i];
            }
            return -1;
        }

        void do_op( unsigned tid, int aop, int key, std::vector<Rec>& log )
        {
            int64_t id = int64_t(( uint64_t( tid + 1 ) << 40 ) | ( ++m_uidseq[tid] ));
            Rec rc; rc.aop = aop;
            rc.op.tid = int( tid );
            m_inflight[tid].store(( aop << 16 ) | ( key & 0xffff ));
            rc.op.inv = tick();
            SetRes r = m_c->exec( aop, key, id );
            rc.op.ret = tick();
            m_inflight[tid].store( -1 );
            rc.op.op = r.mop; rc.op.a = r.a; rc.op.b = r.b; rc.op.r = r.r; rc.op.r2 = r.r2;
            rc.key = r.key;
            log.push_back( rc );
        }

        void worker( unsigned tid )
        {
            A::thread_attach();
            for (;;) {
                m_bar.wait();
                if ( m_stop.load()) break;
                Rng rng( m_seed ^ mix64( m_round * 64 + tid + 1 ));
                std::vector<Rec>& log = m_log[tid];
                cdsv_rt_thread_begin( tid );
                unsigned m = rng.range( m_plan.min_ops, m_plan.max_ops );
                for ( unsigned i = 0; i < m; ++i ) {
                    int aop = pick_op( rng );
                    if ( aop < 0 ) break;
                    int key = int( rng.below( m_plan.keys ));
                    bool mutating = !( aop == A_CON || aop == A_FND || aop == A_GET || aop == A_FNDW );
                    if ( mutating && unsigned( key ) < m_plan.stable_low_keys && aop != A_EXMIN && aop != A_EXMAX )
                        key = int( m_plan.stable_low_keys + rng.below( m_plan.keys - m_plan.stable_low_keys ));
                    do_op( tid, aop, key, log );
                }
                cdsv_rt_thread_end();
                m_bar.wait();
            }
            A::thread_detach();
        }

        static const char* mop_name( int m ) { return key_opnames[m]; }

        std::string round_json( std::vector<Rec> const& all, int only_key )
        {
            std::ostringstream o;
            o << "[";
            bool first = true;
            for ( Rec const& rc : all ) {
                if ( only_key >= 0 && rc.key != only_key ) continue;
                if ( !first ) o << ",";
                first = false;
                o << "{\"t\":" << rc.op.tid << ",\"call\":\"" << aop_names[rc.aop] << "\",\"key\":" << rc.key << ",\"model_op\":\"" << mop_name( rc.op.op ) << "\",\"id\":" << rc.op.a
                  << ",\"flags\":" << rc.op.b << ",\"r\":" << rc.op.r << ",\"seen_id\":" << rc.op.r2 << ",\"inv\":" << rc.op.inv << ",\"ret\":" << rc.op.ret << "}";
            }
            o << "]";
            return o.str();
        }

        // C15: extract_min / extract_max interval rules over one round (all keys)
        void check_extremes( std::vector<Rec> const& all, std::vector<int64_t> const& init )
        {
            for ( Rec const& e : all ) {
                if ( e.aop != A_EXMIN && e.aop != A_EXMAX ) continue;
                bool is_min = e.aop == A_EXMIN;
                for ( int j = 0; j < int( m_plan.keys ); ++j ) {
                    if ( e.key >= 0 && ( is_min ? j >= e.key : j <= e.key )) continue;
                    // is j surely present throughout E?  present from a point before E.inv, and no successful removal of j can take effect before E.ret
                    // (a) presence established: pinned present at round start, or an insert of j succeeded with ret < E.inv
                    uint64_t established = 0; bool have = false;
                    if ( init[j] != -1 ) { have = true; established = 0; }
                    for ( Rec const& x : all ) {
                        if ( x.key != j ) continue;
                        bool ins = ( x.op.op == K_INS && x.op.r == 1 ) || ( x.op.op == K_UPD && x.op.r == 2 );
                        if ( ins && x.op.ret < e.op.inv ) { have = true; if ( x.op.inv > established ) established = x.op.inv; }
                    }
                    if ( !have ) continue;
                    // (b) every successful removal R of j has R.ret < established-insert's inv  or  R.inv > E.ret
                    bool sure = true;
                    for ( Rec const& x : all ) {
                        if ( x.key != j || &x == &e ) continue;
                        bool rem = ( x.op.op == K_ERS || x.op.op == K_UNL ) && x.op.r == 1;
                        if ( !rem ) continue;
                        if ( !( x.op.ret < established || x.op.inv > e.op.ret )) { sure = false; break; }
                    }
                    if ( !sure ) continue;
                    m_ps.add_extra( "extract_minmax_rule_armed", 1 );
                    std::string what = e.key < 0 ? std::string( is_min ? "extract_min" : "extract_max" ) + " returned an empty result"
                                                 : std::string( is_min ? "extract_min" : "extract_max" ) + " returned key " + std::to_string( e.key );
                    violation( m_plan.prop, std::string( is_min ? "extract_min" : "extract_max" ) + "-skipped-present-key:" + m_plan.variant,
                               what + " although key " + std::to_string( j ) + " was present throughout the call (round " + std::to_string( m_round ) + ")",
                               "{\"variant\":" + jstr( m_plan.variant ) + ",\"round\":" + std::to_string( m_round ) + ",\"skipped_key\":" + std::to_string( j ) + ",\"history\":" + round_json( all, -1 ) + "}" );
                    return;
                }
                m_ps.add_extra( "extract_minmax_calls_checked", 1 );
            }
        }

    public:
        SetDriver( SetPlan const& p )
            : m_plan( p ), m_ps( prop( p.prop )), m_ps18( prop( "C18" )), m_bar( p.threads + 1 ), m_log( p.threads + 1 ), m_uidseq( p.threads + 1, 0 ), m_pinned( p.keys, -1 )
        {
            m_seed = mix64( args().seed ) ^ mix64( std::hash<std::string>()( p.variant ));
            m_supports = A::supports();
            if ( m_plan.keys > A::max_keys()) { m_plan.keys = A::max_keys(); m_pinned.assign( m_plan.keys, -1 ); }
            for ( auto& f : m_inflight ) f.store( -1 );
        }

        void run()
        {
            set_variant( m_plan.variant );
            mem_context() = std::string( m_plan.prop ) + "|" + m_plan.variant;
            m_c.reset( new A );
            unsigned const T = m_plan.threads;
            std::vector<std::thread> th;
            for ( unsigned i = 0; i < T; ++i ) th.emplace_back( [this, i]() { worker( i ); } );
            Rng mrng( m_seed ^ 0x7171 );
            uint64_t nviol = 0;
            uint64_t expected_steps = 64;
            double t_exec = 0, t_chk = 0;
            // stable low keys: inserted once by the main thread (recorded in round 0)
            for ( m_round = 0; m_round < m_plan.rounds && nviol < 5; ++m_round ) {
                for ( auto& l : m_log ) l.clear();
                // a fresh container every `recreate_every` rounds (all workers are parked): bounds structures that never shrink
                // (IterableList keeps dead nodes for the lifetime of the list) and adds structural diversity
                if ( m_plan.recreate_every && m_round && m_round % m_plan.recreate_every == 0 ) {
                    m_c->mechanisms( m_ps );
                    m_c.reset();
                    m_c.reset( new A );
                    for ( auto& p : m_pinned ) p = -1;
                }
                std::vector<int64_t> init = m_pinned;
                // stable low keys are (re-)inserted sequentially by the main thread whenever they are absent (arms the extract_min/max rules)
                for ( unsigned k = 0; k < m_plan.stable_low_keys; ++k ) if ( m_pinned[k] == -1 ) do_op( T, A_INS, int( k ), m_log[T] );
                unsigned nc = mrng.chance( 1, 2 ) ? 0 : mrng.range( 1, 7 );
                // targeted long stalls (one thread sleeps 0.05-0.8 ms at a drawn atomic operation while the others run whole operations):
                // in 1 of 32 short rounds, in every second segment (max_ops > 8)
                unsigned stalls = mrng.chance( 1, m_plan.max_ops > 8 ? 2 : 32 ) ? mrng.range( 1, 3 ) : 0;
                cdsv_rt_configure( m_seed + m_round, nc, stalls, expected_steps );
                double ta = wall_now();
                m_bar.wait();
                uint64_t hooks0 = cdsv_rt_counter( 0 );
                if ( !m_bar.wait_for( m_plan.round_watchdog_s )) {
                    // A round of a few hundred operations did not finish: name the operations in flight and stop the process
                    // (the stuck threads cannot be recovered). Decided by the harness watchdog together with the spinning evidence.
                    std::string stuck, first_op;
                    for ( unsigned t = 0; t < T; ++t ) {
                        int f = m_inflight[t].load();
                        if ( f < 0 ) continue;
                        // the key names the spinning call: extract_min/extract_max if one is in flight (the others are then usually
                        // blocked behind it, e.g. in RCU synchronize()), else the first call found
                        if ( first_op.empty() || (( f >> 16 ) == A_EXMIN || ( f >> 16 ) == A_EXMAX )) first_op = aop_names[f >> 16];
                        stuck += ( stuck.empty() ? "" : ", " ) + std::string( "thread " ) + std::to_string( t ) + ": " + aop_names[f >> 16] + "(key " + std::to_string( f & 0xffff ) + ")";
                    }
                    std::string opkey = first_op; for ( char& ch : opkey ) if ( ch == ' ' || ch == '(' || ch == ')' ) ch = '_';
                    violation( m_plan.prop, "no-progress:" + opkey + ":" + m_plan.variant,
                               "round " + std::to_string( m_round ) + " did not finish within " + std::to_string( int( m_plan.round_watchdog_s )) + " s; operations still in flight: " + stuck
                               + "; library atomic operations executed meanwhile by finished threads: " + std::to_string( cdsv_rt_counter( 0 ) - hooks0 ),
                               "{\"variant\":" + jstr( m_plan.variant ) + ",\"round\":" + std::to_string( m_round ) + ",\"in_flight\":" + jstr( stuck ) + "}" );
                    int rc = finish( "no-progress" );
                    fflush( nullptr );
                    _exit( rc );
                }
                uint64_t steps = cdsv_rt_counter( 5 );
                if ( steps > 8 ) expected_steps = steps;
                // quiescent reads: pin the state of every key (part of the history)
                int qop = ( m_supports & ( 1u << A_FND )) ? A_FND : A_CON;
                size_t qstart = m_log[T].size();
                for ( unsigned k = 0; k < m_plan.keys; ++k ) do_op( T, qop, int( k ), m_log[T] );
                double tb = wall_now();

                std::vector<Rec> all;
                for ( auto& l : m_log ) all.insert( all.end(), l.begin(), l.end());
                m_ps.evaluations.fetch_add( 1, std::memory_order_relaxed );
                m_ps.operations.fetch_add( all.size(), std::memory_order_relaxed );
                bool any_overlap = false;
                uint64_t round_fp = 1469598103934665603ull ^ std::hash<std::string>()( m_plan.variant );
                bool round_ok = true;
                for ( unsigned k = 0; k < m_plan.keys; ++k ) {
                    std::vector<Op> h;
                    for ( Rec const& rc : all ) if ( rc.key == int( k )) h.push_back( rc.op );
                    if ( h.empty()) continue;
                    uint64_t ov = count_overlaps( h );
                    m_ps.overlap_pairs.fetch_add( ov, std::memory_order_relaxed );
                    if ( ov || ( m_plan.threads == 1 && h.size() >= 3 )) {    // sequential mode: non-trivial = several calls on the key incl. the pinning lookup
                        any_overlap = true;
                        IdNorm nm( 1000 );
                        round_fp = ( round_fp ^ fingerprint( h, nm, k + uint64_t( init[k] == -1 ? 0 : 7 ))) * 1099511628211ull;
                    }
                    KeyModel::State st0 = init[k];
                    std::vector<int> lin;
                    Verdict v = wgl_check<KeyModel>( h, st0, m_plan.wgl_budget, ( ov && m_ps.need_sample()) ? &lin : nullptr );
                    if ( v == Verdict::budget ) m_ps.checker_budget.fetch_add( 1, std::memory_order_relaxed );
                    else if ( v == Verdict::violation ) {
                        round_ok = false;
                        ++nviol;
                        violation( m_plan.prop, "lin:" + m_plan.variant,
                                   "history of key " + std::to_string( k ) + " in round " + std::to_string( m_round ) + " is not linearizable to the set/map model (key initially "
                                   + ( st0 == -1 ? std::string( "absent" ) : "present with id " + std::to_string( st0 )) + ")",
                                   "{\"variant\":" + jstr( m_plan.variant ) + ",\"round\":" + std::to_string( m_round ) + ",\"key\":" + std::to_string( k ) + ",\"initial\":" + std::to_string( st0 )
                                   + ",\"history\":" + round_json( all, int( k )) + "}" );
                    }
                    else if ( ov && !lin.empty() && m_ps.need_sample())
                        m_ps.add_sample( "{\"variant\":" + jstr( m_plan.variant ) + ",\"key\":" + std::to_string( k ) + ",\"initial\":" + std::to_string( st0 ) + ",\"history\":" + round_json( all, int( k )) + "}" );
                }
                if ( any_overlap ) { m_ps.nontrivial.fetch_add( 1, std::memory_order_relaxed ); m_ps.add_fp( round_fp ); }
                if ( m_supports & (( 1u << A_EXMIN ) | ( 1u << A_EXMAX ))) check_extremes( all, init );

                // pin
                for ( unsigned k = 0; k < m_plan.keys; ++k ) {
                    Op const& q = m_log[T][qstart + k].op;
                    if ( q.r ) m_pinned[k] = ( q.r2 >= 0 ? q.r2 : ( m_pinned[k] != -1 ? m_pinned[k] : 0 ));
                    else m_pinned[k] = -1;
                }
                // an observed id of 0 / unknown cannot pin: fall back to "present, id unknown" = 0 is treated as wildcard by the model only for
                // observed ids, not for states; so take the state from the key's own linearization when unknown
                // (only containers without find(f) reach this; they pin by contains and ids are never compared)

                // C18: quiescent structure
                if ( round_ok ) {
                    m_ps18.evaluations.fetch_add( 1, std::memory_order_relaxed );
                    if ( any_overlap ) m_ps18.nontrivial.fetch_add( 1, std::memory_order_relaxed );
                    std::vector<std::pair<int, int64_t>> tr;
                    size_t present = 0;
                    for ( unsigned k = 0; k < m_plan.keys; ++k ) if ( m_pinned[k] != -1 ) ++present;
                    std::string why;
                    if ( m_c->traverse( tr )) {
                        m_ps18.operations.fetch_add( tr.size() + 1, std::memory_order_relaxed );
                        std::vector<int> seen( m_plan.keys, 0 );
                        int prev = -1;
                        for ( auto& kv : tr ) {
                            if ( kv.first < 0 || kv.first >= int( m_plan.keys )) { why = "traversal yields key " + std::to_string( kv.first ) + " that was never inserted"; break; }
                            if ( ++seen[kv.first] > 1 ) { why = "traversal yields key " + std::to_string( kv.first ) + " twice"; break; }
                            if ( m_plan.ordered && kv.first <= prev ) { why = "traversal order not strictly increasing: " + std::to_string( prev ) + " then " + std::to_string( kv.first ); break; }
                            prev = kv.first;
                            if ( m_pinned[kv.first] == -1 ) { why = "traversal yields key " + std::to_string( kv.first ) + " which lookups report absent"; break; }
                            if ( m_pinned[kv.first] > 0 && kv.second > 0 && kv.second != m_pinned[kv.first] ) { why = "traversal yields another item for key " + std::to_string( kv.first ) + " than find()"; break; }
                        }
                        if ( why.empty()) for ( unsigned k = 0; k < m_plan.keys; ++k ) if ( m_pinned[k] != -1 && !seen[k] ) { why = "traversal misses present key " + std::to_string( k ); break; }
                    }
                    if ( why.empty() && m_plan.check_size ) {
                        int64_t sz = m_c->size();
                        if ( sz >= 0 && size_t( sz ) != present ) why = "size() = " + std::to_string( sz ) + " but " + std::to_string( present ) + " keys are present";
                        else if ( m_c->empty() != ( present == 0 )) why = std::string( "empty() = " ) + ( m_c->empty() ? "true" : "false" ) + " but " + std::to_string( present ) + " keys are present";
                    }
                    if ( why.empty()) { std::string w2; if ( !m_c->consistent( w2 )) why = "consistency check failed: " + w2; }
                    if ( !why.empty()) {
                        ++nviol;
                        std::ostringstream st; st << "[";
                        for ( unsigned k = 0; k < m_plan.keys; ++k ) st << ( k ? "," : "" ) << m_pinned[k];
                        st << "]";
                        std::ostringstream trs; trs << "[";
                        for ( size_t i = 0; i < tr.size(); ++i ) trs << ( i ? "," : "" ) << tr[i].first;
                        trs << "]";
                        violation( "C18", "quiescent:" + m_plan.variant, "at the quiescent point after round " + std::to_string( m_round ) + ": " + why,
                                   "{\"variant\":" + jstr( m_plan.variant ) + ",\"round\":" + std::to_string( m_round ) + ",\"present_ids_by_key\":" + st.str() + ",\"traversal_keys\":" + trs.str()
                                   + ",\"round_history\":" + round_json( all, -1 ) + "}" );
                    }
                    else {
                        uint64_t fp = round_fp ^ 0x18181818;
                        if ( any_overlap ) m_ps18.add_fp( fp );
                        if ( any_overlap && m_ps18.need_sample( 3 )) {
                            std::ostringstream trs; trs << "[";
                            for ( size_t i = 0; i < tr.size(); ++i ) trs << ( i ? "," : "" ) << tr[i].first;
                            trs << "]";
                            m_ps18.add_sample( "{\"variant\":" + jstr( m_plan.variant ) + ",\"after_round\":" + std::to_string( m_round ) + ",\"present_keys\":" + std::to_string( present )
                                               + ",\"traversal_keys\":" + trs.str() + ",\"size\":" + std::to_string( m_c->size()) + "}", 3 );
                        }
                    }
                }
                t_exec += tb - ta; t_chk += wall_now() - tb;
            }
            m_ps.add_extra( "exec_ms", uint64_t( t_exec * 1000 )); m_ps.add_extra( "check_ms", uint64_t( t_chk * 1000 ));
            m_stop.store( true );
            m_bar.wait();
            for ( auto& t : th ) t.join();
            m_ps.add_variant( m_plan.variant, m_round );
            m_ps18.add_variant( m_plan.variant, m_round );
            m_c->mechanisms( m_ps );
            m_c.reset();
        }
    };

} // namespace cdsv
#endif
