// Perturbation engine API (implemented in rt/engine.cpp, built WITHOUT sanitizers).
#ifndef CDSV_RT_H
#define CDSV_RT_H
#include <cstdint>
#include <cstddef>

extern "C" {
    void cds_verif_point( int kind, const volatile void * addr ) noexcept;

    // Configure the next run. seed: PRNG seed of the run; noise_class: 0 = no random delays,
    // 1..7 = probability 1/512 .. 1/8 of a delay at each hook; stalls: number of targeted long stalls
    // per thread drawn for this run (0..3); expected_steps: horizon in which stall points are drawn.
    void cdsv_rt_configure( uint64_t seed, unsigned noise_class, unsigned stalls, uint64_t expected_steps ) noexcept;
    // Register / unregister the calling thread as a perturbed worker (tid is the harness' thread index).
    void cdsv_rt_thread_begin( unsigned tid ) noexcept;
    void cdsv_rt_thread_end() noexcept;
    // Temporarily disable perturbation for the calling thread (nesting counter).
    void cdsv_rt_pause() noexcept;
    void cdsv_rt_resume() noexcept;
    // steps executed by the calling thread since thread_begin
    uint64_t cdsv_rt_my_steps() noexcept;
    // counters: 0 hook calls, 1 yields, 2 spins, 3 sleeps, 4 targeted stalls, 5 max steps of a worker in last run
    uint64_t cdsv_rt_counter( int which ) noexcept;
}
#endif
