// Side-table ownership ledger keyed by object address (C22 pooled locks, C24 pools).
// The pools hand out raw, unconstructed storage, so the owner word can never live inside the pooled object.
// Lock-free open-addressing table; keys are never removed (addresses recur), one table per run.
// All operations are relaxed: the ledger must not add happens-before edges of its own (TSan build), and on x86
// every RMW is a full barrier anyway.
#ifndef CDSV_SYNC_LEDGER_H
#define CDSV_SYNC_LEDGER_H

#include <cdsv/core.h>
#include <memory>

namespace cdsv {

    class AddrLedger {
    public:
        struct Slot {
            std::atomic<uintptr_t> key;
            std::atomic<uint32_t>  owner;    // 0 = not handed out, otherwise holder id
            std::atomic<uint32_t>  claims;   // how often the address was handed out (diagnostics)
            std::atomic<uint64_t>  token;    // value the holder wrote into the object
        };
    private:
        std::unique_ptr<Slot[]> m_slots;
        size_t m_mask;
        std::atomic<size_t> m_used;
    public:
        // expected: upper bound of distinct addresses seen during the run
        explicit AddrLedger( size_t expected )
            : m_used( 0 )
        {
            size_t n = 64;
            while ( n < expected * 4 ) n <<= 1;
            m_mask = n - 1;
            m_slots.reset( new Slot[n] );
            for ( size_t i = 0; i < n; ++i ) {
                m_slots[i].key.store( 0, std::memory_order_relaxed );
                m_slots[i].owner.store( 0, std::memory_order_relaxed );
                m_slots[i].claims.store( 0, std::memory_order_relaxed );
                m_slots[i].token.store( 0, std::memory_order_relaxed );
            }
        }

        size_t distinct_addresses() const { return m_used.load( std::memory_order_relaxed ); }

        // find or insert
        Slot& slot( const void* p )
        {
            uintptr_t k = reinterpret_cast<uintptr_t>( p );
            size_t i = size_t( mix64( uint64_t( k ))) & m_mask;
            for ( size_t probes = 0; probes <= m_mask; ++probes, i = ( i + 1 ) & m_mask ) {
                uintptr_t cur = m_slots[i].key.load( std::memory_order_relaxed );
                if ( cur == k ) return m_slots[i];
                if ( cur == 0 ) {
                    if ( m_slots[i].key.compare_exchange_strong( cur, k, std::memory_order_relaxed, std::memory_order_relaxed )) {
                        if ( m_used.fetch_add( 1, std::memory_order_relaxed ) * 2 > m_mask )
                            harness_failure( "AddrLedger: table more than half full" );
                        return m_slots[i];
                    }
                    if ( cur == k ) return m_slots[i];
                }
            }
            harness_failure( "AddrLedger: table full" );
        }

        // 0 -> who; returns the previous owner (0 = the claim succeeded)
        uint32_t claim( const void* p, uint32_t who )
        {
            Slot& s = slot( p );
            uint32_t prev = 0;
            if ( s.owner.compare_exchange_strong( prev, who, std::memory_order_relaxed, std::memory_order_relaxed )) {
                s.claims.fetch_add( 1, std::memory_order_relaxed );
                return 0;
            }
            return prev;
        }
        // from -> to; returns the owner found (== from if the transfer succeeded)
        uint32_t transfer( const void* p, uint32_t from, uint32_t to )
        {
            Slot& s = slot( p );
            uint32_t prev = from;
            s.owner.compare_exchange_strong( prev, to, std::memory_order_relaxed, std::memory_order_relaxed );
            return prev;
        }
        // who -> 0; returns the owner found (== who if the release succeeded)
        uint32_t release( const void* p, uint32_t who ) { return transfer( p, who, 0 ); }
        uint32_t owner( const void* p ) { return slot( p ).owner.load( std::memory_order_relaxed ); }
    };

    // compiler-only barrier: keeps relaxed monitor accesses on their side of a library call without creating
    // a happens-before edge that the TSan build could see
    inline void compiler_barrier() { __asm__ __volatile__( "" ::: "memory" ); }

    inline unsigned log2_bucket( uint64_t v ) { unsigned b = 0; while ( v ) { ++b; v >>= 1; } return b; }

} // namespace cdsv
#endif
