// C28: FeldmanHashSet addressing. metrics::make() normalisation for every configuration, then real FeldmanHashSet<HP>
// instances fed with hashes that share the longest possible prefixes, compared with a minimal-trie model of the slot paths.
#ifndef CDSV_PURE_C28_H
#define CDSV_PURE_C28_H

#include <cdsv/pure_common.h>
#include <cdsv/pure_c25_split.h>     // Bytes<N>, ref_bits

namespace pure {
    namespace fh = cds::intrusive::feldman_hashset;

    inline void c28_make()
    {
        if ( !begin_variant( "C28.metrics_make" )) return;
        PropStats& ps = prop( "C28" );
        typedef fh::details::metrics metrics;
        uint64_t configs = 0, head_unrepresentable = 0;
        static const size_t hash_sizes[] = { 1, 2, 4, 8, 3, 6, 16, 20 };
        bool full_width_ok = true;
#ifdef PURE_SANITIZED
        {
            // head_bits == 64: size_t(1) << 64. One child walks through all configurations that normalise to a 64-bit head.
            ProbeResult r = ub_probe( []() {
                for ( size_t hb = 48; hb <= 64; ++hb )
                    for ( size_t ab = 0; ab <= 16; ++ab ) {
                        size_t a = ab < 2 ? 2 : ab, h = hb < 4 ? 4 : hb;
                        if ( h + ( 64 - h ) % a != 64 ) continue;
                        volatile size_t x = metrics::make( hb, ab, 8 ).head_node_size; (void) x;
                    }
            } );
            if ( !r.ok ) {
                full_width_ok = false;
                report( "C28", "metrics-make:head_node_size:" + ub_class( r ) + ":head_bits=64",
                        "feldman_hashset::details::metrics::make() for a configuration whose normalised head consumes all 64 hash bits executes undefined behaviour: " + r.msg + " at " + r.where,
                        "{\"example_configuration\":{\"head_bits\":64,\"array_bits\":4,\"hash_size\":8},\"probe\":" + r.json() + "}" );
            }
        }
#endif
        for ( size_t hs : hash_sizes ) {
            size_t const hash_bits = hs * 8;
            // the additional byte-array sizes (not in the property's quantifier) only with heads that fit a size_t
            for ( size_t hb = 0; hb <= ( hs > 8 ? size_t( 32 ) : hash_bits ); ++hb )
                for ( size_t ab = 0; ab <= 16; ++ab ) {
                    // documented minima: head_bits >= 4, array_bits >= 2; the head may only grow, by less than one array level
                    size_t const a_req = ab < 2 ? 2 : ab;
                    size_t const h_req = std::min( hb < 4 ? size_t( 4 ) : hb, hash_bits );
                    if ( hash_bits == 64 && h_req + ( 64 - h_req ) % a_req == 64 ) {
                        ++head_unrepresentable;     // head_node_size = 2^64 is not representable; the shift is UB (see probe above)
                        if ( !full_width_ok ) continue;
                    }
                    metrics m = metrics::make( hb, ab, hs );
                    ++configs;
                    std::string cfg = "make(head_bits=" + num( hb ) + ", array_bits=" + num( ab ) + ", hash_size=" + num( hs ) + ")";
                    std::string wit = "{\"head_bits\":" + num( hb ) + ",\"array_bits\":" + num( ab ) + ",\"hash_size\":" + num( hs ) + ",\"head_node_size_log\":" + num( m.head_node_size_log ) + ",\"array_node_size_log\":" + num( m.array_node_size_log )
                                      + ",\"head_node_size\":" + num( m.head_node_size ) + ",\"array_node_size\":" + num( m.array_node_size ) + "}";
                    if ( m.array_node_size_log == 0 || m.head_node_size_log > hash_bits || ( hash_bits - m.head_node_size_log ) % m.array_node_size_log != 0 )
                        report( "C28", "metrics-make:layout-does-not-consume-hash-bits-exactly", cfg + " gives head " + num( m.head_node_size_log ) + " bits and array nodes of " + num( m.array_node_size_log )
                                + " bits: head + n*array never equals the " + num( hash_bits ) + " hash bits", wit );
                    if ( m.array_node_size_log != a_req || m.head_node_size_log < h_req || m.head_node_size_log - h_req >= a_req )
                        report( "C28", "metrics-make:requested-widths-not-honoured", cfg + " gives head " + num( m.head_node_size_log ) + " / array " + num( m.array_node_size_log ) + " bits; requested (after the documented minima 4 and 2) "
                                + num( h_req ) + " / " + num( a_req ), wit );
                    if ( m.array_node_size != ( size_t( 1 ) << m.array_node_size_log ) || ( m.head_node_size_log < 64 && m.head_node_size != ( size_t( 1 ) << m.head_node_size_log )))
                        report( "C28", "metrics-make:size-is-not-2^log", cfg + ": node sizes " + num( m.head_node_size ) + " / " + num( m.array_node_size ) + " are not 2^" + num( m.head_node_size_log ) + " / 2^" + num( m.array_node_size_log ), wit );
                    ps.add_fp( mix64(( uint64_t( hs ) << 32 ) | ( uint64_t( hb ) << 8 ) | ab ) ^ 0x28a );
                    if ( hs == 8 && hb == 10 && ab == 7 )
                        ps.add_sample( "{\"case\":\"metrics::make\",\"head_bits\":10,\"array_bits\":7,\"hash_size\":8,\"head_node_size_log\":" + num( m.head_node_size_log ) + ",\"array_node_size_log\":" + num( m.array_node_size_log )
                                       + ",\"levels_below_head\":" + num(( 64 - m.head_node_size_log ) / m.array_node_size_log ) + ",\"head_plus_levels_times_array\":" + num( m.head_node_size_log + ( 64 - m.head_node_size_log ) / m.array_node_size_log * m.array_node_size_log ) + "}", 6 );
                }
        }
        ps.evaluations.fetch_add( configs );
        ps.nontrivial.fetch_add( configs );
        ps.add_extra( "make_configurations", configs );
        ps.add_extra( "make_configurations_with_64bit_head(2^64_unrepresentable)", head_unrepresentable );
        ps.add_variant( "C28.metrics_make", configs );
    }

    // ---------------------------------------------------------------- real sets
    template <class H> struct alignas( 8 ) FItem { H hash; };     // marked_ptr<T,3> keeps two flag bits in the pointer: data nodes need alignment >= 4
    template <class H> struct FAccessor { H const& operator()( FItem<H> const& i ) const { return i.hash; } };
    template <class H, size_t HashSize, class Splitter>
    struct FTraits : public fh::traits {
        typedef FAccessor<H> hash_accessor;
        static constexpr size_t const hash_size = HashSize;
        typedef Splitter hash_splitter;
        typedef fh::stat<> stat;
    };
    template <class H, size_t HashSize, class Splitter> constexpr size_t const FTraits<H, HashSize, Splitter>::hash_size;

    enum SplitKind { SK_BITSTRING, SK_NUMBER, SK_BYTE };

    struct TrieModel {
        unsigned B, h, a;
        std::vector<std::vector<uint8_t>> hashes;       // byte strings, memory order
        std::vector<unsigned> chunk( std::vector<uint8_t> const& x ) const
        {
            std::vector<unsigned> c;
            c.push_back( unsigned( ref_bits( x.data(), 0, h )));
            for ( unsigned pos = h; pos < B; pos += a ) c.push_back( unsigned( ref_bits( x.data(), pos, a )));
            return c;
        }
        // expected get_level_statistics: array nodes and data cells per level of the minimal trie
        void levels( std::vector<uint64_t>& arrays, std::vector<uint64_t>& data ) const
        {
            std::vector<std::vector<unsigned>> paths;
            for ( auto const& x : hashes ) paths.push_back( chunk( x ));
            std::sort( paths.begin(), paths.end());
            arrays.assign( 1, 1 ); data.assign( 1, 0 );
            size_t const n = paths.size();
            for ( size_t i = 0; i < n; ++i ) {
                // common prefix with the sorted neighbours decides the depth of the leaf
                size_t cp = 0;
                for ( int d = -1; d <= 1; d += 2 ) {
                    if (( d < 0 && i == 0 ) || ( d > 0 && i + 1 == n )) continue;
                    auto const& o = paths[i + d];
                    size_t c = 0;
                    while ( c < o.size() && o[c] == paths[i][c] ) ++c;
                    cp = std::max( cp, c );
                }
                if ( data.size() <= cp ) { data.resize( cp + 1, 0 ); arrays.resize( cp + 1, 0 ); }
                ++data[cp];
            }
            // array node at level L >= 1 = distinct L-chunk prefix shared by at least two hashes
            for ( size_t L = 1; L < arrays.size(); ++L ) {
                uint64_t cnt = 0;
                for ( size_t i = 0; i < n; ) {
                    size_t j = i + 1;
                    while ( j < n && std::equal( paths[i].begin(), paths[i].begin() + L, paths[j].begin())) ++j;
                    if ( j - i >= 2 ) ++cnt;
                    i = j;
                }
                arrays[L] = cnt;
            }
        }
    };

    inline std::string bytes_plain( std::vector<uint8_t> const& b ) { return bytes_hex( b.data(), unsigned( b.size())); }

    // the hash family of one configuration
    inline std::vector<std::vector<uint8_t>> c28_family( unsigned B, unsigned h, unsigned a, Rng& g )
    {
        unsigned const nb = B / 8;
        std::set<std::vector<uint8_t>> s;
        auto rnd = [&]() { std::vector<uint8_t> x( nb ); for ( auto& c : x ) c = uint8_t( g.next() >> 32 ); return x; };
        auto setbits = [&]( std::vector<uint8_t>& x, unsigned pos, unsigned cnt, uint64_t v ) {
            for ( unsigned j = 0; j < cnt; ++j ) { unsigned i = pos + j; x[i / 8] = uint8_t(( x[i / 8] & ~( 1u << ( i % 8 ))) | ((( v >> j ) & 1u ) << ( i % 8 ))); }
        };
        // equal except in the last chunk
        {
            unsigned lastw = B > h ? a : h, lastpos = B - lastw;
            std::vector<uint8_t> base = rnd();
            uint64_t nvals = lastw >= 8 ? 256 : ( uint64_t( 1 ) << lastw );
            for ( uint64_t i = 0; i < nvals; ++i ) {
                uint64_t v = lastw > 8 ? ( i < 2 ? ( i ? low_mask( lastw ) : 0 ) : ( g.next() & low_mask( lastw ))) : i;
                std::vector<uint8_t> x = base; setbits( x, lastpos, lastw, v ); s.insert( x );
            }
        }
        // every single-bit neighbour of a base (differ only in the first bit, ..., only in the last bit)
        {
            std::vector<uint8_t> base = rnd();
            s.insert( base );
            for ( unsigned i = 0; i < B; ++i ) { std::vector<uint8_t> x = base; x[i / 8] ^= uint8_t( 1u << ( i % 8 )); s.insert( x ); }
        }
        // all zeros / all ones and their neighbours at both ends
        {
            std::vector<uint8_t> z( nb, 0 ), o( nb, 0xff );
            s.insert( z ); s.insert( o );
            std::vector<uint8_t> x = z; x[0] ^= 1; s.insert( x );
            x = z; x[nb - 1] ^= 0x80; s.insert( x );
            x = o; x[0] ^= 1; s.insert( x );
            x = o; x[nb - 1] ^= 0x80; s.insert( x );
        }
        for ( unsigned i = 0; i < 32; ++i ) s.insert( rnd());
        std::vector<std::vector<uint8_t>> v( s.begin(), s.end());
        for ( size_t i = v.size(); i > 1; --i ) std::swap( v[i - 1], v[g.below( unsigned( i ))] );
        return v;
    }

    template <class H, size_t HashSize, class Splitter>
    void c28_real( const char* tname, SplitKind kind, size_t used_bytes )
    {
        std::string v = std::string( "C28.real<" ) + tname + ">";
        if ( !begin_variant( v )) return;
        typedef FItem<H> item;
        typedef cds::intrusive::FeldmanHashSet<cds::gc::HP, item, FTraits<H, HashSize, Splitter>> set_type;
        PropStats& ps = prop( "C28" );
        Args& a = args();
        Rng g( mix64( a.seed ) ^ std::hash<std::string>()( v ));
        unsigned const B = unsigned( used_bytes * 8 );
        static const size_t heads[] = { 0, 4, 5, 6, 7, 8, 9, 10, 12, 16, 24, 32, 64 };
        static const size_t arrays[] = { 0, 2, 3, 4, 5, 6, 7, 8, 11, 16 };
        std::set<std::pair<size_t, size_t>> done;
        bool sampled = false;
        uint64_t sets = 0, ops = 0, expanded_sets = 0, skipped_precondition = 0, skipped_size = 0;
        for ( size_t hb : heads ) for ( size_t ab : arrays ) {
            if ( hb > B ) continue;
            size_t a_req = ab < 2 ? 2 : ab, h_req = std::min( hb < 4 ? size_t( 4 ) : hb, size_t( B ));
            size_t hn = h_req + ( B - h_req ) % a_req;                   // normalised head (checked against make() in C28.metrics_make)
            if ( hn > 16 ) { ++skipped_size; continue; }                // head array too large to be worth allocating
            if ( !a.thorough && a_req > 8 && hn > 8 && hn != B ) { ++skipped_size; continue; }
            // the constructor's own preconditions (asserted in debug builds): hash_splitter::is_correct(head) and (array)
            if ( kind == SK_NUMBER && ( hn >= B || a_req >= B )) { ++skipped_precondition; continue; }
            if ( kind == SK_BYTE && ( hn % 8 || a_req % 8 )) { ++skipped_precondition; continue; }
            if ( kind == SK_BITSTRING && ( hn > 32 || a_req > 32 )) { ++skipped_precondition; continue; }
            if ( !done.insert( std::make_pair( hn, a_req )).second ) continue;

            TrieModel model; model.B = B; model.h = unsigned( hn ); model.a = unsigned( a_req );
            model.hashes = c28_family( B, model.h, model.a, g );
            size_t const n = model.hashes.size();
            std::vector<item> items( 2 * n );
            for ( size_t i = 0; i < n; ++i ) {
                memset( &items[i].hash, 0, sizeof( H ));
                memcpy( &items[i].hash, model.hashes[i].data(), used_bytes );
                items[n + i].hash = items[i].hash;
            }
            std::string cfg = std::string( tname ) + " head_bits=" + num( hb ) + " array_bits=" + num( ab ) + " (normalised " + num( hn ) + "/" + num( a_req ) + ")";
            std::string cw = "\"hash_type\":" + jstr( tname ) + ",\"head_bits\":" + num( hb ) + ",\"array_bits\":" + num( ab ) + ",\"normalised_head\":" + num( hn ) + ",\"normalised_array\":" + num( a_req );
            {
                set_type s( hb, ab );
                ++sets;
                if ( s.head_size() != ( size_t( 1 ) << hn ) || s.array_node_size() != ( size_t( 1 ) << a_req ))
                    report( "C28", "real:layout-differs-from-normalised-model", cfg + ": head_size() = " + num( s.head_size()) + ", array_node_size() = " + num( s.array_node_size()), "{" + cw + "}" );
                bool ok = true;
                for ( size_t i = 0; i < n && ok; ++i ) {
                    ++ops;
                    if ( !s.insert( items[i] )) {
                        ok = false;
                        report( "C28", "real:insert-of-absent-hash-failed", cfg + ": insert of hash " + bytes_plain( model.hashes[i] ) + " (not in the set, " + num( i ) + " other hashes present) returned false",
                                "{" + cw + ",\"hash_bytes_memory_order\":" + bytes_plain( model.hashes[i] ) + ",\"hashes_present\":" + num( i ) + "}" );
                    }
                }
                for ( size_t i = 0; i < n && ok; ++i ) {
                    ++ops;
                    if ( s.insert( items[n + i] )) {
                        ok = false;
                        report( "C28", "real:insert-of-equal-hash-accepted", cfg + ": a second node with hash " + bytes_plain( model.hashes[i] ) + " was inserted", "{" + cw + ",\"hash_bytes_memory_order\":" + bytes_plain( model.hashes[i] ) + "}" );
                    }
                }
                for ( size_t i = 0; i < n && ok; ++i ) {
                    ++ops;
                    if ( !s.contains( items[i].hash )) {
                        ok = false;
                        report( "C28", "real:inserted-hash-not-found", cfg + ": contains(" + bytes_plain( model.hashes[i] ) + ") is false after the insert succeeded", "{" + cw + ",\"hash_bytes_memory_order\":" + bytes_plain( model.hashes[i] ) + "}" );
                    }
                }
                if ( ok ) {
                    std::set<std::vector<uint8_t>> present( model.hashes.begin(), model.hashes.end());
                    for ( unsigned i = 0; i < 24; ++i ) {
                        std::vector<uint8_t> x( used_bytes );
                        for ( auto& c : x ) c = uint8_t( g.next() >> 32 );
                        if ( present.count( x )) continue;
                        item probe; memset( &probe.hash, 0, sizeof( H )); memcpy( &probe.hash, x.data(), used_bytes );
                        ++ops;
                        if ( s.contains( probe.hash )) { ok = false; report( "C28", "real:absent-hash-found", cfg + ": contains(" + bytes_plain( x ) + ") is true for a hash never inserted", "{" + cw + "}" ); }
                    }
                }
                if ( ok && s.size() != n )
                    report( "C28", "real:size", cfg + ": size() = " + num( s.size()) + " after " + num( n ) + " successful inserts of distinct hashes", "{" + cw + "}" );
                if ( ok ) {
                    std::vector<fh::level_statistics> st;
                    s.get_level_statistics( st );
                    std::vector<uint64_t> arr, dat;
                    model.levels( arr, dat );
                    bool same = st.size() == arr.size();
                    for ( size_t L = 0; same && L < st.size(); ++L ) same = st[L].array_node_count == arr[L] && st[L].data_cell_count == dat[L];
                    if ( !same ) {
                        std::string got = "[", exp = "[";
                        for ( size_t L = 0; L < st.size(); ++L ) { if ( L ) got += ","; got += "[" + num( st[L].array_node_count ) + "," + num( st[L].data_cell_count ) + "]"; }
                        for ( size_t L = 0; L < arr.size(); ++L ) { if ( L ) exp += ","; exp += "[" + num( arr[L] ) + "," + num( dat[L] ) + "]"; }
                        report( "C28", "real:level-statistics-differ-from-trie-model", cfg + ": per level [array nodes, data cells] = " + got + "], the minimal trie of the slot paths gives " + exp + "]",
                                "{" + cw + ",\"actual\":" + got + "],\"expected\":" + exp + "]}" );
                    }
                    uint64_t expands = s.statistics().m_nExpandNodeSuccess.get();
                    ps.add_mech( "feldman.onExpandNodeSuccess", expands );
                    ps.add_mech( "feldman.onInsertFailed", s.statistics().m_nInsertFailed.get());
                    if ( expands ) { ++expanded_sets; ps.nontrivial.fetch_add( 1 ); }
                    if ( !sampled && ps.need_sample( 6 ) && st.size() >= 3 ) {
                        sampled = true;
                        std::string got = "[";
                        for ( size_t L = 0; L < st.size(); ++L ) { if ( L ) got += ","; got += "[" + num( st[L].array_node_count ) + "," + num( st[L].data_cell_count ) + "]"; }
                        ps.add_sample( "{\"case\":\"real FeldmanHashSet\"," + cw + ",\"distinct_hashes_inserted\":" + num( n ) + ",\"equal_hashes_rejected\":" + num( n ) + ",\"slot_expansions\":" + num( expands )
                                       + ",\"levels[array_nodes,data_cells]\":" + got + "],\"equals_trie_model\":" + ( same ? "true" : "false" ) + "}", 6 );
                    }
                }
                ps.add_fp( mix64( std::hash<std::string>()( v ) ^ ( uint64_t( hn ) << 8 ) ^ a_req ));
            }
            cds::gc::HP::force_dispose();
        }
        ps.evaluations.fetch_add( sets );
        ps.operations.fetch_add( ops );
        ps.add_extra( "real_sets", sets );
        ps.add_extra( "real_sets_with_slot_expansion", expanded_sets );
        ps.add_extra( "real_configurations_skipped:constructor_precondition(is_correct)", skipped_precondition );
        ps.add_extra( "real_configurations_skipped:head_array_larger_than_2^16", skipped_size );
        ps.add_variant( v, sets );
    }

    inline void c28_all()
    {
        using namespace cds::algo;
        typedef cds::opt::none none;
        c28_make();
        c28_real<uint8_t, 0, none>( "u8:split_bitstring", SK_BITSTRING, 1 );
        c28_real<uint16_t, 0, none>( "u16:number_splitter", SK_NUMBER, 2 );
        c28_real<short, 0, none>( "short:number_splitter", SK_NUMBER, 2 );
        c28_real<uint32_t, 0, none>( "u32:number_splitter", SK_NUMBER, 4 );
        c28_real<int, 0, none>( "int:number_splitter", SK_NUMBER, 4 );
        c28_real<uint64_t, 0, none>( "u64:number_splitter", SK_NUMBER, 8 );
        c28_real<long long, 0, none>( "longlong:number_splitter", SK_NUMBER, 8 );
        c28_real<uint64_t, 6, none>( "u64,hash_size=6:split_bitstring", SK_BITSTRING, 6 );
        c28_real<Bytes<3>, 0, none>( "bytes3:split_bitstring", SK_BITSTRING, 3 );
        c28_real<Bytes<8>, 0, none>( "bytes8:split_bitstring", SK_BITSTRING, 8 );
        c28_real<Bytes<20>, 0, none>( "bytes20:split_bitstring", SK_BITSTRING, 20 );
        c28_real<uint32_t, 0, split_bitstring<uint32_t>>( "u32:explicit-split_bitstring", SK_BITSTRING, 4 );
        c28_real<uint64_t, 0, byte_splitter<uint64_t>>( "u64:byte_splitter", SK_BYTE, 8 );
        c28_real<Bytes<16>, 0, byte_splitter<Bytes<16>>>( "bytes16:byte_splitter", SK_BYTE, 16 );
    }
} // namespace pure
#endif
