// C26: cds::bitop::bit_reverse_counter<> against an independent model.
// Reference enumeration (Hunt et al., array-based heap with bit-reversed fill of the last level): the n-th item goes to level
// L = floor(log2 n), position p = n - 2^L counted in bit-reversed order, i.e. slot 2^L + reverse_L_bits(p).
#ifndef CDSV_PURE_C26_H
#define CDSV_PURE_C26_H

#include <cdsv/pure_common.h>

namespace pure {

    inline uint64_t ref_slot( uint64_t n )
    {
        unsigned L = unsigned( naive_msb( n )) - 1;
        uint64_t p = n - ( uint64_t( 1 ) << L );
        return ( uint64_t( 1 ) << L ) + naive_rev( p, L );
    }

    template <class C>
    struct CState {
        C value, reversed; int high;
        bool operator==( CState const& o ) const { return value == o.value && reversed == o.reversed && high == o.high; }
        bool operator!=( CState const& o ) const { return !( *this == o ); }
        std::string str() const { return "{\"value\":" + num( value ) + ",\"reversed_value\":" + num( reversed ) + ",\"high_bit\":" + snum( high ) + "}"; }
    };
    template <class C> CState<C> state_of( cds::bitop::bit_reverse_counter<C> const& c ) { CState<C> s = { c.value(), c.reversed_value(), c.high_bit() }; return s; }

    template <class C>
    struct C26Run {
        typedef cds::bitop::bit_reverse_counter<C> counter;
        std::string tname;
        uint64_t evals = 0, ops = 0;
        bool equals_reference = true;

        void fail( std::string const& key, std::string const& text, std::string const& witness )
        {
            report( "C26", key, "bit_reverse_counter<" + tname + ">: " + text, "{\"counter\":" + jstr( tname ) + "," + witness + "}" );
        }

        // every n up to N on a fresh counter
        void prefixes( uint64_t N )
        {
            PropStats& ps = prop( "C26" );
            counter c;
            std::vector<uint8_t> seen( 2 * N + 2, 0 );
            std::vector<CState<C>> before( N + 1 );
            std::vector<C> out( N + 1 );
            uint64_t maxslot = 0, literal_fail = 0, first_literal_fail = 0, literal_ok_noncomplete = 0;
            for ( uint64_t n = 1; n <= N; ++n ) {
                before[n] = state_of( c );
                C o = c.inc();
                out[n] = o;
                ++evals; ++ops;
                unsigned L = unsigned( naive_msb( n )) - 1;
                uint64_t lo = uint64_t( 1 ) << L, hi = ( uint64_t( 1 ) << ( L + 1 )) - 1;
                if ( uint64_t( o ) != ref_slot( n )) equals_reference = false;
                if ( c.value() != C( n ) || c.reversed_value() != o || c.high_bit() != int( L ))
                    fail( "inc:state", "after the " + num( n ) + "-th inc() the accessors give " + state_of( c ).str() + ", expected value=" + num( n ) + ", reversed_value=returned slot " + num( o ) + ", high_bit=" + num( L ),
                          "\"n\":" + num( n ) + ",\"returned\":" + num( o ) + ",\"state\":" + state_of( c ).str());
                if ( uint64_t( o ) < lo || uint64_t( o ) > hi )
                    fail( "slot-outside-current-level", "the " + num( n ) + "-th inc() returned slot " + num( o ) + " outside level " + num( L ) + " = [" + num( lo ) + "," + num( hi ) + "]",
                          "\"n\":" + num( n ) + ",\"returned\":" + num( o ) + ",\"level_first\":" + num( lo ) + ",\"level_last\":" + num( hi ));
                else if ( seen[o] )
                    fail( "duplicate-slot", "the " + num( n ) + "-th inc() returned slot " + num( o ) + " which an earlier inc() had already returned", "\"n\":" + num( n ) + ",\"returned\":" + num( o ));
                else
                    seen[o] = 1;
                if ( uint64_t( o ) > maxslot ) maxslot = o;
                bool literal = maxslot == n;    // with distinct outputs >= 1: the first n outputs are a permutation of 1..n iff their maximum is n
                bool complete = (( n + 1 ) & n ) == 0;
                if ( complete && !literal )
                    fail( "complete-level-not-permutation", "n = " + num( n ) + " fills the levels completely but the outputs are not a permutation of 1.." + num( n ) + " (maximum slot " + num( maxslot ) + ")",
                          "\"n\":" + num( n ) + ",\"max_slot\":" + num( maxslot ));
                if ( !literal ) { if ( !literal_fail++ ) first_literal_fail = n; }
                else if ( !complete ) ++literal_ok_noncomplete;
                // dec() undoes the last inc() exactly, and the repeated inc() gives the same slot
                counter c2 = c;
                C d = c2.dec();
                ops += 2;
                if ( d != o || state_of( c2 ) != before[n] )
                    fail( "dec-does-not-undo", "dec() after the " + num( n ) + "-th inc() returned " + num( d ) + " (last produced slot " + num( o ) + ") and left " + state_of( c2 ).str() + ", state before that inc() was " + before[n].str(),
                          "\"n\":" + num( n ) + ",\"dec_returned\":" + num( d ) + ",\"last_slot\":" + num( o ) + ",\"state_after_dec\":" + state_of( c2 ).str() + ",\"state_before_inc\":" + before[n].str());
                else if ( c2.inc() != o )
                    fail( "inc-after-dec-differs", "inc(), dec(), inc() at n = " + num( n ) + " produced two different slots", "\"n\":" + num( n ));
                if ( n >= 5 ) { ps.add_fp( mix64(( uint64_t( sizeof( C )) << 40 ) | n )); ps.nontrivial.fetch_add( 1 ); }
            }
            // unwind completely
            for ( uint64_t n = N; n >= 1; --n ) {
                C d = c.dec();
                ++ops;
                if ( d != out[n] || state_of( c ) != before[n] ) {
                    fail( "dec-does-not-undo", "unwinding from " + num( N ) + ": dec() at count " + num( n ) + " returned " + num( d ) + ", expected " + num( out[n] ) + "; state " + state_of( c ).str() + ", expected " + before[n].str(),
                          "\"n\":" + num( n ) + ",\"dec_returned\":" + num( d ) + ",\"expected\":" + num( out[n] ));
                    break;
                }
            }
            ps.add_extra( "prefix_n_evaluated<" + tname + ">", N );
            ps.add_extra( "literal_clause_false_for_n<" + tname + ">", literal_fail );
            ps.add_extra( "literal_clause_true_for_incomplete_level_n<" + tname + ">", literal_ok_noncomplete );
            ps.add_extra( "outputs_equal_bit_reversed_reference<" + tname + ">", equals_reference ? 1 : 0 );
            if ( literal_fail ) {
                std::string outs = "[";
                for ( uint64_t i = 1; i <= first_literal_fail; ++i ) { if ( i > 1 ) outs += ","; outs += num( out[i] ); }
                outs += "]";
                // the literal clause of the property statement; expected to be false by design (bit-reversed fill order of the last level)
                fail( equals_reference ? "literal-prefix-permutation:bit-reversed-fill-order" : "literal-prefix-permutation:unexpected-order",
                      "the statement 'for every n the first n slot numbers are a permutation of 1..n' is false for " + num( literal_fail ) + " of the " + num( N ) + " values of n checked, first for n = " + num( first_literal_fail )
                      + " (outputs " + outs + "); " + ( equals_reference ? "all outputs equal the reference bit-reversed heap enumeration, so this is the intended fill order; the clause holds whenever n+1 is a power of two"
                                                                         : "the outputs also differ from the reference bit-reversed enumeration" ),
                      "\"first_n\":" + num( first_literal_fail ) + ",\"first_outputs\":" + outs + ",\"n_checked\":" + num( N ) + ",\"n_where_clause_false\":" + num( literal_fail )
                      + ",\"outputs_equal_reference_enumeration\":" + ( equals_reference ? "true" : "false" ));
            }
            if ( ps.need_sample( 4 )) {
                std::string outs = "[";
                for ( uint64_t i = 1; i <= 16 && i <= N; ++i ) { if ( i > 1 ) outs += ","; outs += num( out[i] ); }
                std::string refs = "[";
                for ( uint64_t i = 1; i <= 16 && i <= N; ++i ) { if ( i > 1 ) refs += ","; refs += num( ref_slot( i )); }
                ps.add_sample( "{\"counter\":" + jstr( tname ) + ",\"case\":\"first 16 inc() results\",\"actual\":" + outs + "],\"reference_enumeration\":" + refs + "]}" );
            }
        }

        // stack model shared by the exhaustive word enumeration and the random walks
        struct Model {
            std::vector<CState<C>> before;
            std::vector<C> slots;
            std::vector<uint8_t> live;
        };

        bool do_inc( counter& c, Model& m, const char* ctx )
        {
            CState<C> b = state_of( c );
            C o = c.inc();
            ++ops;
            uint64_t n = m.slots.size() + 1;
            if ( uint64_t( o ) != ref_slot( n )) equals_reference = false;
            unsigned L = unsigned( naive_msb( n )) - 1;
            if ( c.value() != C( n )) { fail( "inc:state", std::string( ctx ) + ": value() is " + num( c.value()) + " after reaching count " + num( n ), "\"n\":" + num( n )); return false; }
            if (( uint64_t( o ) >> L ) != 1 ) { fail( "slot-outside-current-level", std::string( ctx ) + ": inc() to count " + num( n ) + " returned slot " + num( o ), "\"n\":" + num( n ) + ",\"returned\":" + num( o )); return false; }
            if ( m.live.size() <= uint64_t( o )) m.live.resize( size_t( o ) * 2 + 2, 0 );
            if ( m.live[o] ) { fail( "duplicate-slot", std::string( ctx ) + ": inc() to count " + num( n ) + " returned slot " + num( o ) + " which is still occupied", "\"n\":" + num( n ) + ",\"returned\":" + num( o )); return false; }
            m.live[o] = 1;
            m.before.push_back( b );
            m.slots.push_back( o );
            return true;
        }
        bool do_dec( counter& c, Model& m, const char* ctx )
        {
            C d = c.dec();
            ++ops;
            C exp = m.slots.back();
            CState<C> b = m.before.back();
            if ( d != exp || state_of( c ) != b ) {
                fail( "dec-does-not-undo", std::string( ctx ) + ": dec() at count " + num( m.slots.size()) + " returned " + num( d ) + ", the most recently produced slot is " + num( exp ) + "; state " + state_of( c ).str() + ", expected " + b.str(),
                      "\"n\":" + num( m.slots.size()) + ",\"dec_returned\":" + num( d ) + ",\"expected\":" + num( exp ) + ",\"state_after_dec\":" + state_of( c ).str() + ",\"state_expected\":" + b.str());
                return false;
            }
            m.live[exp] = 0;
            m.slots.pop_back();
            m.before.pop_back();
            return true;
        }

        // all words over {inc, dec} of length <= maxlen that never go below zero
        uint64_t words = 0;
        bool dfs_ok = true;
        void dfs( counter c, Model& m, unsigned len, unsigned maxlen, bool has_dec )
        {
            if ( !dfs_ok ) return;
            ++words;
            if ( has_dec ) prop( "C26" ).nontrivial.fetch_add( 1, std::memory_order_relaxed );
            if ( len == maxlen ) return;
            {
                counter c1 = c;
                if ( !do_inc( c1, m, "exhaustive inc/dec word" )) { dfs_ok = false; return; }
                dfs( c1, m, len + 1, maxlen, has_dec );
                if ( !dfs_ok ) return;
                // leave the model as before
                m.live[m.slots.back()] = 0; m.slots.pop_back(); m.before.pop_back();
            }
            if ( !m.slots.empty()) {
                counter c1 = c;
                C top = m.slots.back(); CState<C> tb = m.before.back();
                if ( !do_dec( c1, m, "exhaustive inc/dec word" )) { dfs_ok = false; return; }
                dfs( c1, m, len + 1, maxlen, true );
                if ( !dfs_ok ) return;
                m.slots.push_back( top ); m.before.push_back( tb ); m.live[top] = 1;
            }
        }
        void exhaustive_words( unsigned maxlen )
        {
            Model m;
            m.live.assign( 64, 0 );
            dfs( counter(), m, 0, maxlen, false );
            PropStats& ps = prop( "C26" );
            evals += words;
            ps.add_extra( "incdec_words_exhaustive<" + tname + ">", words );
            ps.add_extra( "incdec_word_max_length<" + tname + ">", maxlen );
            for ( unsigned l = 1; l <= maxlen; ++l )
                for ( unsigned d = l % 2; d <= l; d += 2 ) ps.add_fp( mix64(( uint64_t( sizeof( C )) << 48 ) | ( uint64_t( l ) << 8 ) | d ) ^ 0xdf5 );
        }

        void random_walk( uint64_t steps, Rng& g, uint64_t depth_cap )
        {
            counter c;
            Model m;
            m.live.assign( 1024, 0 );
            unsigned bias = 5;      // of 8: probability of inc
            uint64_t maxdepth = 0, decs = 0;
            for ( uint64_t i = 0; i < steps; ++i ) {
                if (( i & 0x3ff ) == 0 ) {
                    bias = 2 + g.below( 5 );
                    if ( g.chance( 1, 6 )) bias = 7;
                    if ( g.chance( 1, 6 )) bias = 1;
                }
                bool inc = m.slots.empty() || ( m.slots.size() < depth_cap && g.below( 8 ) < bias );
                if ( inc ) { if ( !do_inc( c, m, "random inc/dec walk" )) break; }
                else { ++decs; if ( !do_dec( c, m, "random inc/dec walk" )) break; }
                if ( m.slots.size() > maxdepth ) maxdepth = m.slots.size();
            }
            PropStats& ps = prop( "C26" );
            ++evals;
            ps.nontrivial.fetch_add( 1 );
            ps.add_extra( "random_walk_steps<" + tname + ">", steps );
            ps.add_extra( "random_walk_decs<" + tname + ">", decs );
            ps.add_extra( "random_walk_max_count<" + tname + ">", maxdepth );
            ps.add_fp( mix64( args().seed ^ ( uint64_t( sizeof( C )) << 56 ) ^ steps ));
            if ( ps.need_sample( 4 ))
                ps.add_sample( "{\"counter\":" + jstr( tname ) + ",\"case\":\"random inc/dec walk against a stack model\",\"steps\":" + num( steps ) + ",\"dec_calls\":" + num( decs ) + ",\"max_count\":" + num( maxdepth )
                               + ",\"every_dec_returned_top_of_model_stack_and_restored_state\":true}" );
        }
    };

    template <class C>
    void c26_type( const char* tname )
    {
        std::string v = std::string( "C26.counter<" ) + tname + ">";
        if ( !begin_variant( v )) return;
        Args& a = args();
        C26Run<C> r;
        r.tname = tname;
        double t0 = wall_now();
        r.prefixes( a.n( 1 << 16, 1 << 20 ));
        r.exhaustive_words( a.thorough ? 26 : 20 );
        Rng g( mix64( a.seed ) ^ sizeof( C ));
        r.random_walk( budget( 1000000, 10000000 ), g, uint64_t( 1 ) << 21 );
        PropStats& ps = prop( "C26" );
        ps.evaluations.fetch_add( r.evals );
        ps.operations.fetch_add( r.ops );
        ps.add_variant( v, r.evals );
        ps.add_extra( "wall_ms", uint64_t(( wall_now() - t0 ) * 1000 ));
    }

    inline void c26_all()
    {
        c26_type<size_t>( "size_t" );
        c26_type<uint32_t>( "uint32_t" );
    }
} // namespace pure
#endif
