// Adapters mapping the abstract set alphabet (setdrv.h) onto the real overloads of the libcds set containers
// (value-copying forms; they are built on the intrusive ones).
#ifndef CDSV_SETADAPT_H
#define CDSV_SETADAPT_H

#include <cdsv/setdrv.h>
#include <cdsv/smr.h>

namespace cdsv {

    enum UpdKind { UPD_STD = 0, UPD_REPLACING = 1 };
    enum : unsigned {
        M_INS = 1u << A_INS, M_INSF = 1u << A_INSF, M_EMP = 1u << A_EMP, M_UPD = 1u << A_UPD, M_UPDNI = 1u << A_UPDNI, M_UPS = 1u << A_UPS,
        M_ERS = 1u << A_ERS, M_ERSF = 1u << A_ERSF, M_EXT = 1u << A_EXT, M_CON = 1u << A_CON, M_FND = 1u << A_FND, M_GET = 1u << A_GET,
        M_EXMIN = 1u << A_EXMIN, M_EXMAX = 1u << A_EXMAX, M_ERSW = 1u << A_ERSW, M_FNDW = 1u << A_FNDW,
        M_BASIC = M_INS | M_INSF | M_EMP | M_UPD | M_UPDNI | M_ERS | M_ERSF | M_CON | M_FND,
        M_GC_SET = M_BASIC | M_EXT | M_GET,
    };

    struct SeenFind {     // find( key, f( value_type& item, Q& key ))
        int64_t* seen;
        template <class Q> void operator()( Item& it, Q& ) const { *seen = observe( it, "find functor" ); }
        template <class Q> void operator()( Item const& it, Q& ) const { *seen = observe( it, "find functor" ); }
    };
    struct SeenErase {    // erase( key, f( value_type const& ))
        int64_t* seen;
        void operator()( Item const& it ) const { *seen = observe( it, "erase functor" ); }
    };
    struct SeenInsert {   // insert( val, f( value_type& ))
        int64_t* calls;
        void operator()( Item& it ) const { ++*calls; observe( it, "insert functor" ); }
    };
    struct SeenUpdStd {   // update( val, f( bool bNew, value_type& item, Q const& val ))
        int64_t* seen; int* is_new; int64_t* calls;
        template <class Q> void operator()( bool bNew, Item& it, Q const& ) const { ++*calls; *is_new = bNew ? 1 : 0; if ( !bNew ) *seen = observe( it, "update functor" ); }
    };
    struct SeenUpdRepl {  // update( val, f( value_type& val, value_type* old ))
        int64_t* seen; int* is_new; int64_t* calls;
        void operator()( Item&, Item* old ) const { ++*calls; *is_new = old ? 0 : 1; if ( old ) *seen = observe( *old, "update functor (old item)" ); }
    };

    // functor-contract counters for the sequential check (C20)
    struct FunctorLedger {
        std::atomic<uint64_t> bad_calls{ 0 };
    };
    inline FunctorLedger& functor_ledger() { static FunctorLedger l; return l; }

    // ------------------------------------------------------------------------------------------------
    // Make: struct with static Set* make(). Rcu: void or the RCU gc type.
    template <class Set, class Make, unsigned Supports, int UpdK, class Rcu, bool Iterable>
    struct SetAdapter: Attach {
        std::unique_ptr<Set> sp;
        Set& s;
        SetAdapter() : sp( Make::make()), s( *sp ) {}
        static unsigned supports() { return Supports; }
        static unsigned max_keys() { return 1u << 30; }

        template <class R>
        typename std::enable_if<std::is_void<R>::value, bool>::type do_extract( int key, int64_t& seen )
        {
            typename Set::guarded_ptr gp( s.extract( key ));
            if ( !gp ) return false;
            seen = observe( *gp, "extract guarded_ptr" );
            if ( gp->key != key ) seen = -7;
            return true;
        }
        template <class R>
        typename std::enable_if<!std::is_void<R>::value, bool>::type do_extract( int key, int64_t& seen )
        {
            typename Set::exempt_ptr ep;
            if ( Make::extract_locked ) { typename R::scoped_lock l; ep = s.extract( key ); }   // e.g. LazyList<RCU>: "You should lock RCU before calling this function"
            else ep = s.extract( key );                                                          // e.g. MichaelList<RCU>: "RCU should NOT be locked when extract() is called"
            if ( !ep ) return false;
            seen = observe( *ep, "extract exempt_ptr" );
            if ( ep->key != key ) seen = -7;
            ep.release();
            return true;
        }
        template <class R>
        typename std::enable_if<std::is_void<R>::value, bool>::type do_get( int key, int64_t& seen )
        {
            typename Set::guarded_ptr gp( s.get( key ));
            if ( !gp ) return false;
            // touch the object several times while the guard is held (C01/C02 at container level)
            for ( int i = 0; i < 3; ++i ) { seen = observe( *gp, "get guarded_ptr" ); cds_verif_point( 5, nullptr ); }
            if ( gp->key != key ) seen = -7;
            return true;
        }
        template <class R>
        typename std::enable_if<!std::is_void<R>::value, bool>::type do_get( int key, int64_t& seen )
        {
            typedef decltype( std::declval<Set&>().get( 0 )) raw_ptr_t;    // raw_ptr adaptor or plain value_type*
            raw_ptr_t rp = raw_ptr_t();
            bool found = false;
            {
                typename R::scoped_lock l;
                rp = s.get( key );
                if ( rp ) {
                    found = true;
                    for ( int i = 0; i < 3; ++i ) { seen = observe( *rp, "get raw_ptr (under RCU lock)" ); cds_verif_point( 5, nullptr ); }
                    if ( rp->key != key ) seen = -7;
                }
            }
            return found;   // rp is released after the lock
        }

        template <int K>
        typename std::enable_if<K == UPD_STD, std::pair<bool, bool>>::type do_update( int key, int64_t id, bool allow, int64_t& seen, int& is_new, int64_t& calls )
        {
            return s.update( Item( key, id ), SeenUpdStd{ &seen, &is_new, &calls }, allow );
        }
        template <int K>
        typename std::enable_if<K == UPD_REPLACING, std::pair<bool, bool>>::type do_update( int key, int64_t id, bool allow, int64_t& seen, int& is_new, int64_t& calls )
        {
            return s.update( Item( key, id ), SeenUpdRepl{ &seen, &is_new, &calls }, allow );
        }
        template <int K>
        typename std::enable_if<K == UPD_REPLACING, std::pair<bool, bool>>::type do_upsert( int key, int64_t id ) { return s.upsert( Item( key, id ), true ); }
        template <int K>
        typename std::enable_if<K != UPD_REPLACING, std::pair<bool, bool>>::type do_upsert( int, int64_t ) { return std::make_pair( false, false ); }

        template <unsigned S>
        typename std::enable_if<( S & ( M_EXMIN | M_EXMAX )) != 0, bool>::type do_exminmax( bool mn, int& key, int64_t& seen ) { return exminmax_impl<Rcu>( mn, key, seen ); }
        template <unsigned S>
        typename std::enable_if<( S & ( M_EXMIN | M_EXMAX )) == 0, bool>::type do_exminmax( bool, int&, int64_t& ) { return false; }
        template <class R>
        typename std::enable_if<std::is_void<R>::value, bool>::type exminmax_impl( bool mn, int& key, int64_t& seen )
        {
            typename Set::guarded_ptr gp( mn ? s.extract_min() : s.extract_max());
            if ( !gp ) return false;
            seen = observe( *gp, "extract_min/max guarded_ptr" ); key = gp->key;
            return true;
        }
        template <class R>
        typename std::enable_if<!std::is_void<R>::value, bool>::type exminmax_impl( bool mn, int& key, int64_t& seen )
        {
            typename Set::exempt_ptr ep( mn ? s.extract_min() : s.extract_max());
            if ( !ep ) return false;
            seen = observe( *ep, "extract_min/max exempt_ptr" ); key = ep->key;
            ep.release();
            return true;
        }
        template <unsigned S>
        typename std::enable_if<( S & M_EXT ) != 0, bool>::type do_ext( int key, int64_t& seen ) { return do_extract<Rcu>( key, seen ); }
        template <unsigned S>
        typename std::enable_if<( S & M_EXT ) == 0, bool>::type do_ext( int, int64_t& ) { return false; }
        template <unsigned S>
        typename std::enable_if<( S & M_GET ) != 0, bool>::type do_gt( int key, int64_t& seen ) { return do_get<Rcu>( key, seen ); }
        template <unsigned S>
        typename std::enable_if<( S & M_GET ) == 0, bool>::type do_gt( int, int64_t& ) { return false; }
        template <unsigned S>
        typename std::enable_if<( S & M_ERSW ) != 0, bool>::type do_ersw( int key ) { return s.erase_with( key, ItemLess()); }
        template <unsigned S>
        typename std::enable_if<( S & M_ERSW ) == 0, bool>::type do_ersw( int ) { return false; }
        template <unsigned S>
        typename std::enable_if<( S & M_FNDW ) != 0, bool>::type do_fndw( int key, int64_t& seen ) { return s.find_with( key, ItemLess(), SeenFind{ &seen } ); }
        template <unsigned S>
        typename std::enable_if<( S & M_FNDW ) == 0, bool>::type do_fndw( int, int64_t& ) { return false; }
        template <unsigned S>
        typename std::enable_if<( S & M_EMP ) != 0, bool>::type do_emp( int key, int64_t id ) { return s.emplace( key, id ); }
        template <unsigned S>
        typename std::enable_if<( S & M_EMP ) == 0, bool>::type do_emp( int, int64_t ) { return false; }
        template <unsigned S>
        typename std::enable_if<( S & M_ERSF ) != 0, bool>::type do_ersf( int key, int64_t& seen ) { return s.erase( key, SeenErase{ &seen } ); }
        template <unsigned S>
        typename std::enable_if<( S & M_ERSF ) == 0, bool>::type do_ersf( int, int64_t& ) { return false; }
        template <unsigned S>
        typename std::enable_if<( S & M_INSF ) != 0, bool>::type do_insf( int key, int64_t id, int64_t& calls ) { return s.insert( Item( key, id ), SeenInsert{ &calls } ); }
        template <unsigned S>
        typename std::enable_if<( S & M_INSF ) == 0, bool>::type do_insf( int, int64_t, int64_t& ) { return false; }
        template <unsigned S>
        typename std::enable_if<( S & ( M_UPD | M_UPDNI )) != 0, std::pair<bool, bool>>::type do_upd( int key, int64_t id, bool allow, int64_t& seen, int& is_new, int64_t& calls ) { return do_update<UpdK>( key, id, allow, seen, is_new, calls ); }
        template <unsigned S>
        typename std::enable_if<( S & ( M_UPD | M_UPDNI )) == 0, std::pair<bool, bool>>::type do_upd( int, int64_t, bool, int64_t&, int&, int64_t& ) { return std::make_pair( false, false ); }

        SetRes exec( int aop, int key, int64_t id )
        {
            SetRes r; r.key = key; r.a = id;
            int64_t seen = -2, calls = 0; int is_new = -1;
            switch ( aop ) {
            case A_INS: r.mop = K_INS; r.r = s.insert( Item( key, id )) ? 1 : 0; break;
            case A_INSF: {
                r.mop = K_INS; bool ok = do_insf<Supports>( key, id, calls ); r.r = ok ? 1 : 0;
                if ( calls != ( ok ? 1 : 0 )) functor_ledger().bad_calls.fetch_add( 1 );    // functor called exactly once iff inserted
                break;
            }
            case A_EMP: r.mop = K_INS; r.r = do_emp<Supports>( key, id ) ? 1 : 0; break;
            case A_UPD: case A_UPDNI: {
                bool allow = aop == A_UPD;
                std::pair<bool, bool> pr = do_upd<Supports>( key, id, allow, seen, is_new, calls );
                r.mop = K_UPD; r.b = ( allow ? KF_ALLOW_INSERT : 0 ) | ( UpdK == UPD_REPLACING ? KF_REPLACES : 0 );
                r.r = pr.first ? ( pr.second ? 2 : 1 ) : 0; r.r2 = seen;
                if ( !pr.first && pr.second ) r.r = 9;     // (false,true) is never admissible
                // functor contract: called exactly once on success with the right is-new flag, never on failure
                if ( calls != ( pr.first ? 1 : 0 ) || ( pr.first && is_new != ( pr.second ? 1 : 0 ))) functor_ledger().bad_calls.fetch_add( 1 );
                break;
            }
            case A_UPS: {
                std::pair<bool, bool> pr = do_upsert<UpdK>( key, id );
                r.mop = K_UPD; r.b = KF_ALLOW_INSERT | KF_REPLACES; r.r = pr.first ? ( pr.second ? 2 : 1 ) : 0;
                break;
            }
            case A_ERS: r.mop = K_ERS; r.r = s.erase( key ) ? 1 : 0; break;
            case A_ERSF: r.mop = K_ERS; r.r = do_ersf<Supports>( key, seen ) ? 1 : 0; r.r2 = seen; break;
            case A_ERSW: r.mop = K_ERS; r.r = do_ersw<Supports>( key ) ? 1 : 0; break;
            case A_EXT: r.mop = K_ERS; r.r = do_ext<Supports>( key, seen ) ? 1 : 0; r.r2 = seen; break;
            case A_CON: r.mop = K_FND; r.r = s.contains( key ) ? 1 : 0; break;
            case A_FND: r.mop = K_FND; r.r = s.find( key, SeenFind{ &seen } ) ? 1 : 0; r.r2 = seen; break;
            case A_FNDW: r.mop = K_FND; r.r = do_fndw<Supports>( key, seen ) ? 1 : 0; r.r2 = seen; break;
            case A_GET: r.mop = K_FND; r.r = do_gt<Supports>( key, seen ) ? 1 : 0; r.r2 = seen; break;
            case A_EXMIN: case A_EXMAX: {
                int k = -1;
                bool ok = do_exminmax<Supports>( aop == A_EXMIN, k, seen );
                r.mop = K_ERS; r.r = ok ? 1 : 0; r.r2 = seen; r.key = ok ? k : -1;
                break;
            }
            }
            return r;
        }

        template <bool I, class R>
        typename std::enable_if<I && std::is_void<R>::value, bool>::type do_traverse( std::vector<std::pair<int, int64_t>>& out )
        {
            for ( auto it = s.begin(); it != s.end(); ++it ) out.push_back( std::make_pair( it->key, observe( *it, "iterator" )));
            return true;
        }
        template <bool I, class R>
        typename std::enable_if<I && !std::is_void<R>::value, bool>::type do_traverse( std::vector<std::pair<int, int64_t>>& out )
        {
            typename R::scoped_lock l;
            for ( auto it = s.begin(); it != s.end(); ++it ) out.push_back( std::make_pair( it->key, observe( *it, "iterator" )));
            return true;
        }
        template <bool I, class R>
        typename std::enable_if<!I, bool>::type do_traverse( std::vector<std::pair<int, int64_t>>& ) { return false; }
        bool traverse( std::vector<std::pair<int, int64_t>>& out ) { return do_traverse<Iterable, Rcu>( out ); }
        int64_t size() { return int64_t( s.size()); }
        bool empty() { return s.empty(); }
        bool consistent( std::string& why ) { return Make::consistent( s, why ); }
        void mechanisms( PropStats& ps ) { Make::mechanisms( s, ps ); }
    };

    // default hooks for Make policies
    struct MakeBase {
        static constexpr bool extract_locked = false;
        template <class S> static bool consistent( S&, std::string& ) { return true; }
        template <class S> static void mechanisms( S&, PropStats& ) {}
    };

    // standard plans -------------------------------------------------------------------------------
    inline void std_weights( SetPlan& p )
    {
        p.weight[A_INS] = 6; p.weight[A_INSF] = 2; p.weight[A_EMP] = 2; p.weight[A_UPD] = 3; p.weight[A_UPDNI] = 2; p.weight[A_UPS] = 2;
        p.weight[A_ERS] = 6; p.weight[A_ERSF] = 2; p.weight[A_EXT] = 3; p.weight[A_CON] = 4; p.weight[A_FND] = 3; p.weight[A_GET] = 2;
        p.weight[A_EXMIN] = 2; p.weight[A_EXMAX] = 2; p.weight[A_ERSW] = 1; p.weight[A_FNDW] = 1;
    }

    // runs the concurrent rounds + segments for one variant; in C20 mode (args().prop == "C20") runs single-threaded sequences instead
    template <class Adapter>
    inline void run_set_variant( const char* prop_id, std::string const& name, bool ordered, bool check_size, unsigned stable_low = 0, double scale = 1.0, unsigned keys_hi_rounds = 5, unsigned keys_hi_segments = 8 )
    {
        if ( !args().want( name )) return;
        Rng vr( args().seed ^ std::hash<std::string>()( name ));
        bool seqmode = args().prop == "C20";
        if ( seqmode ) {
            for ( int big = 0; big < 2; ++big ) {
                SetPlan p; p.prop = "C20"; p.variant = name + ( big ? "/seq-large-keyspace" : "/seq-3-keys" );
                p.threads = 1; p.keys = big ? 2000 : 3; p.min_ops = 1; p.max_ops = 200;
                p.rounds = uint64_t( double( args().n( big ? 20 : 400, big ? 300 : 8000 )) * scale ); if ( !p.rounds ) p.rounds = 1;
                p.ordered = ordered; p.check_size = check_size;
                std_weights( p );
                functor_ledger().bad_calls.store( 0 );
                SetDriver<Adapter> d( p );
                d.run();
                if ( functor_ledger().bad_calls.load())
                    violation( "C20", "functor-contract:" + name, "a user functor of insert/update was not called exactly once on success (with the right is-new flag) and never on failure, in "
                               + std::to_string( functor_ledger().bad_calls.load()) + " single-threaded calls" );
            }
            return;
        }
        {
            SetPlan p; p.prop = prop_id; p.variant = name + "/rounds";
            p.threads = vr.range( 2, 4 ); p.keys = vr.range( 2, keys_hi_rounds ) + stable_low; p.min_ops = 1; p.max_ops = 4;
            p.rounds = uint64_t( double( args().n( 5000, 120000 )) * scale ); if ( !p.rounds ) p.rounds = 1;
            p.ordered = ordered; p.check_size = check_size; p.stable_low_keys = stable_low;
            std_weights( p );
            SetDriver<Adapter> d( p );
            d.run();
        }
        {
            SetPlan p; p.prop = prop_id; p.variant = name + "/segments";
            p.recreate_every = 25;
            p.threads = vr.range( 2, 4 ); p.keys = vr.range( 3, keys_hi_segments ) + stable_low; p.min_ops = 10; p.max_ops = 60;
            p.rounds = uint64_t( double( args().n( 500, 12000 )) * scale ); if ( !p.rounds ) p.rounds = 1;
            p.ordered = ordered; p.check_size = check_size; p.stable_low_keys = stable_low;
            std_weights( p );
            SetDriver<Adapter> d( p );
            d.run();
        }
    }

} // namespace cdsv
#endif
