// Round / segment driver for sequence containers (queues, stacks, deques, priority queues):
// persistent workers meet at a barrier, run a short seeded program against the real container while
// recording invocation/response times, the main thread drains the container sequentially (the drain
// is part of the history and pins the state to "empty"), and the history is checked with WGL.
#ifndef CDSV_SEQDRV_H
#define CDSV_SEQDRV_H

#include <cdsv/core.h>
#include <cdsv/models.h>
#include <memory>

namespace cdsv {

    struct SeqPlan {
        const char* prop;
        std::string variant;
        unsigned threads = 3;
        unsigned min_ops = 1, max_ops = 4;
        uint64_t rounds = 1000;
        // operation weights (index = model op code); zero = not used
        unsigned weight[8] = { 0, 0, 0, 0, 0, 0, 0, 0 };
        int drain_op = S_POP_FRONT;
        bool is_pq = false;
        unsigned prio_range = 3;       // priorities 0..prio_range-1 (pq only)
        unsigned prefill_max = 0;      // main pushes 0..prefill_max items before the round (recorded)
        size_t wgl_budget = 30000;
        bool phased = false;           // pq: push-only phase, barrier, pop-only phase
        bool single_consumer = false;  // worker 0 draws from weight_consumer[], all other workers from weight[] (which must not contain pops)
        unsigned weight_consumer[8] = { 0, 0, 0, 0, 0, 0, 0, 0 };
        // if set, replaces the WGL check: returns "" when the history satisfies the (weaker) oracle, else the reason
        std::function<std::string( std::vector<Op> const&, int64_t cap )> custom_check;
    };

    // Adapter concept:
    //   A(); ~A();
    //   static void thread_attach(); static void thread_detach();
    //   int64_t capacity();                       -1 = unbounded
    //   int64_t exec( int op, int64_t uid, int64_t prio, int64_t& r2 );   push: 1/0, pop: uid/-1 (r2 = priority for pq), empty: 0/1, size
    //   void mechanisms( PropStats& );
    template <class A, class Model>
    class SeqDriver {
        SeqPlan m_plan;
        PropStats& m_ps;
        std::unique_ptr<A> m_c;
        Barrier m_bar;
        std::atomic<bool> m_stop{ false };
        std::atomic<unsigned> m_phase_n{ 0 };
        std::vector<std::vector<Op>> m_log;
        uint64_t m_round = 0;
        uint64_t m_seed;
        std::vector<uint64_t> m_uidseq;

        int pick_op( Rng& rng, unsigned tid, unsigned mask_pop_only, int phase )
        {
            unsigned tot = 0;
            unsigned w[8];
            for ( int i = 0; i < 8; ++i ) {
                w[i] = ( m_plan.single_consumer && tid == 0 ) ? m_plan.weight_consumer[i] : m_plan.weight[i];
                if ( m_plan.phased ) {
                    bool is_push = m_plan.is_pq ? ( i == P_PUSH ) : ( i == S_PUSH_BACK || i == S_PUSH_FRONT );
                    if (( phase == 0 ) != is_push ) w[i] = 0;
                }
                tot += w[i];
            }
            (void) mask_pop_only;
            if ( !tot ) return -1;
            unsigned x = rng.below( tot );
            for ( int i = 0; i < 8; ++i ) { if ( x < w[i] ) return i; x -= w[i]; }
            return -1;
        }

        bool is_push( int op ) const
        {
            return m_plan.is_pq ? op == P_PUSH : ( op == S_PUSH_BACK || op == S_PUSH_FRONT );
        }

        void do_op( unsigned tid, int op, Rng& rng, std::vector<Op>& log )
        {
            Op o; o.tid = int( tid ); o.op = op; o.a = 0; o.b = 0; o.r = 0; o.r2 = 0;
            if ( is_push( op )) {
                o.a = int64_t(( uint64_t( tid + 1 ) << 24 ) | ( ++m_uidseq[tid] & 0xffffff ));
                if ( m_plan.is_pq ) o.b = rng.below( m_plan.prio_range );
            }
            int64_t r2 = 0;
            o.inv = tick();
            o.r = m_c->exec( op, o.a, o.b, r2 );
            o.ret = tick();
            o.r2 = r2;
            log.push_back( o );
        }

        void worker( unsigned tid )
        {
            A::thread_attach();
            for (;;) {
                m_bar.wait();                       // B1: round start
                if ( m_stop.load()) break;
                Rng rng( m_seed ^ mix64( m_round * 64 + tid + 1 ));
                std::vector<Op>& log = m_log[tid];
                cdsv_rt_thread_begin( tid );
                int phases = m_plan.phased ? 2 : 1;
                for ( int ph = 0; ph < phases; ++ph ) {
                    unsigned m = rng.range( m_plan.min_ops, m_plan.max_ops );
                    for ( unsigned i = 0; i < m; ++i ) {
                        int op = pick_op( rng, tid, 0, ph );
                        if ( op >= 0 ) do_op( tid, op, rng, log );
                    }
                    if ( m_plan.phased && ph == 0 ) {
                        cdsv_rt_pause();
                        m_bar.wait();               // phase barrier (workers + main)
                        cdsv_rt_resume();
                    }
                }
                cdsv_rt_thread_end();
                m_bar.wait();                       // B2: round end
            }
            A::thread_detach();
        }

    public:
        // C20 mode (--prop C20): the same adapters and models, one thread, sequences of 1-120 calls: every result must be the model's
        static SeqPlan adjust( SeqPlan p )
        {
            if ( args().prop == "C20" ) {
                p.prop = "C20"; p.threads = 1; p.min_ops = 1; p.max_ops = 120; p.phased = false; p.single_consumer = false;
                p.rounds = p.rounds > 2000 ? 2000 : p.rounds;
                p.variant += "/sequential";
                for ( int i = 0; i < 8; ++i ) if ( p.weight_consumer[i] > p.weight[i] ) p.weight[i] = p.weight_consumer[i];
            }
            return p;
        }
        SeqDriver( SeqPlan const& p0 )
            : m_plan( adjust( p0 )), m_ps( prop( m_plan.prop )), m_bar( m_plan.threads + 1 ), m_log( m_plan.threads + 1 ), m_uidseq( m_plan.threads + 1, 0 )
        {
            m_seed = mix64( args().seed ) ^ mix64( std::hash<std::string>()( m_plan.variant ));
        }

        void run()
        {
            set_variant( m_plan.variant );
            m_c.reset( new A );
            unsigned const T = m_plan.threads;
            std::vector<std::thread> th;
            for ( unsigned i = 0; i < T; ++i )
                th.emplace_back( [this, i]() { worker( i ); } );
            Rng mrng( m_seed ^ 0x5151 );
            uint64_t nviol = 0;
            typename Model::State init;
            init.cap = m_c->capacity();
            uint64_t expected_steps = 64;
            double t_exec = 0, t_chk = 0;
            for ( m_round = 0; m_round < m_plan.rounds && nviol < 5; ++m_round ) {
                for ( auto& l : m_log ) l.clear();
                // optional prefill by the main thread (sequential, recorded)
                if ( m_plan.prefill_max ) {
                    unsigned k = mrng.below( m_plan.prefill_max + 1 );
                    for ( unsigned i = 0; i < k; ++i ) {
                        int op = m_plan.is_pq ? int( P_PUSH ) : ( m_plan.weight[S_PUSH_BACK] ? int( S_PUSH_BACK ) : int( S_PUSH_FRONT ));
                        do_op( T, op, mrng, m_log[T] );
                    }
                }
                unsigned nc = mrng.chance( 1, 2 ) ? 0 : mrng.range( 1, 7 );
                // targeted long stalls: in 1 of 32 short rounds, in every second segment (max_ops > 6)
                unsigned stalls = mrng.chance( 1, m_plan.max_ops > 6 ? 2 : 32 ) ? mrng.range( 1, 3 ) : 0;
                cdsv_rt_configure( m_seed + m_round, nc, stalls, expected_steps );
                double ta = wall_now();
                m_bar.wait();   // B1
                if ( m_plan.phased ) m_bar.wait();
                m_bar.wait();   // B2
                uint64_t steps = cdsv_rt_counter( 5 );
                if ( steps > 8 ) expected_steps = steps;
                // drain
                for (;;) {
                    size_t before = m_log[T].size();
                    do_op( T, m_plan.drain_op, mrng, m_log[T] );
                    if ( m_log[T][before].r < 0 ) break;
                }
                double tb = wall_now();
                std::vector<Op> h;
                for ( auto& l : m_log ) h.insert( h.end(), l.begin(), l.end());
                std::vector<int> lin;
                std::string custom_why;
                Verdict v;
                if ( m_plan.custom_check ) {
                    custom_why = m_plan.custom_check( h, init.cap );
                    v = custom_why.empty() ? Verdict::ok : Verdict::violation;
                }
                else
                    v = wgl_check<Model>( h, init, m_plan.wgl_budget, m_ps.need_sample() ? &lin : nullptr );
                m_ps.evaluations.fetch_add( 1, std::memory_order_relaxed );
                m_ps.operations.fetch_add( h.size(), std::memory_order_relaxed );
                uint64_t ov = count_overlaps( h );
                m_ps.overlap_pairs.fetch_add( ov, std::memory_order_relaxed );
                if ( ov || ( m_plan.threads == 1 && h.size() >= 3 )) {    // sequential mode: non-trivial = at least a mutation, an observation and the drain
                    m_ps.nontrivial.fetch_add( 1, std::memory_order_relaxed );
                    IdNorm nm( 1000 );
                    m_ps.add_fp( fingerprint( h, nm, std::hash<std::string>()( m_plan.variant )));
                    if ( v == Verdict::ok && ( !lin.empty() || m_plan.custom_check ) && m_ps.need_sample()) {
                        std::string js = history_json( h, m_plan.is_pq ? pq_opnames : seq_opnames, &lin );
                        m_ps.add_sample( "{\"variant\":" + jstr( m_plan.variant ) + ",\"case\":" + js + "}" );
                    }
                }
                t_exec += tb - ta; t_chk += wall_now() - tb;
                std::string why = "history of round " + std::to_string( m_round ) + " is not linearizable to the sequential model (capacity " + std::to_string( init.cap ) + ")";
                if ( !custom_why.empty())
                    why = "history of round " + std::to_string( m_round ) + " violates the oracle (capacity " + std::to_string( init.cap ) + "): " + custom_why;
                if ( v == Verdict::budget ) {
                    std::string r = Model::refute( h, init.cap );
                    if ( r.empty())
                        m_ps.checker_budget.fetch_add( 1, std::memory_order_relaxed );
                    else {
                        v = Verdict::violation;
                        why += ": " + r;
                    }
                }
                if ( v == Verdict::violation ) {
                    ++nviol;
                    std::string js = history_json( h, m_plan.is_pq ? pq_opnames : seq_opnames );
                    violation( m_plan.prop, ( custom_why.empty() ? "lin:" : "oracle:" ) + m_plan.variant,
                               why,
                               "{\"variant\":" + jstr( m_plan.variant ) + ",\"round\":" + std::to_string( m_round ) + ",\"capacity\":" + std::to_string( init.cap ) + ",\"case\":" + js + "}" );
                }
            }
            m_ps.add_extra( "exec_ms", uint64_t( t_exec * 1000 )); m_ps.add_extra( "check_ms", uint64_t( t_chk * 1000 ));
            m_stop.store( true );
            m_bar.wait();
            for ( auto& t : th ) t.join();
            m_ps.add_variant( m_plan.variant, m_round );
            m_c->mechanisms( m_ps );
            m_c.reset();
        }
    };

} // namespace cdsv
#endif
