// C25, second half: split_bitstring / byte_splitter / number_splitter against a little-endian bit-string model.
// Model (from the class documentation, the upstream unit tests' intent and FeldmanHashSet's use): the source is the sequence of its
// bytes in memory order, bit i of the string is bit (i mod 8) of byte (i div 8) (for a number on x86: bit i of the number); each
// cut returns the next `count` bits, first bit of the field = least significant bit of the result.
#ifndef CDSV_PURE_C25_SPLIT_H
#define CDSV_PURE_C25_SPLIT_H

#include <cdsv/pure_common.h>

namespace pure {

    template <size_t N> struct Bytes { uint8_t b[N]; };

    struct SplitPolicy {
        std::string name;           // no spaces
        unsigned nbits = 0;         // bits of the source covered by the splitter
        unsigned step = 1;          // widths are multiples of step
        bool is_number = false;
        bool is_byte = false;
        std::vector<char> ok;       // ok[w]: width w may be passed to cut()/safe_cut() (is_correct, <= result width, not shown UB by a probe)
        unsigned max_ok = 0;
        void finish() { max_ok = 0; for ( unsigned w = 0; w < ok.size(); ++w ) if ( ok[w] ) max_ok = w; }
    };

    struct SeqAcc {
        uint64_t sequences = 0, cuts = 0, failed = 0;
    };

    inline uint64_t ref_bits( const uint8_t* bytes, unsigned pos, unsigned count )
    {
        uint64_t r = 0;
        for ( unsigned j = 0; j < count; ++j ) {
            unsigned i = pos + j;
            r |= uint64_t(( bytes[i / 8] >> ( i % 8 )) & 1 ) << j;
        }
        return r;
    }

    template <class S> __attribute__((noinline)) typename S::uint_type call_cut( S& s, unsigned w ) { return s.cut( w ); }
    template <class S> __attribute__((noinline)) typename S::uint_type call_safe_cut( S& s, unsigned w ) { return s.safe_cut( w ); }

    inline std::string bytes_hex( const uint8_t* b, unsigned n )
    {
        std::string s = "\"";
        char t[4];
        for ( unsigned i = 0; i < n; ++i ) { snprintf( t, sizeof t, "%02x", b[i] ); s += t; }
        return s + "\"";
    }

    // failure classes (stable keys)
    inline std::string split_key( SplitPolicy const& pol, bool safe, unsigned pos, unsigned req, unsigned eff, const char* what )
    {
        if ( pol.is_number && pol.nbits == 64 && ( safe ? eff : req ) >= 32 )
            return "number_splitter64:cut>=32";
        if ( pol.is_byte && safe && eff > 0 && pos + eff == pol.nbits )
            return "byte_splitter:safe_cut-never-returns-last-byte";
        return pol.name + ":" + ( safe ? "safe_cut" : "cut" ) + ":" + what;
    }

    __attribute__((noinline, cold)) inline void split_fail( SplitPolicy const& pol, const uint8_t* bytes, const unsigned* w, unsigned nw, bool safe, unsigned idx, unsigned pos, unsigned req, unsigned eff,
                                                             const char* what, uint64_t got, uint64_t exp, SeqAcc& A )
    {
        if ( ++A.failed > 40 ) { suppressed().fetch_add( 1, std::memory_order_relaxed ); return; }     // this suite has reported enough
        std::string key = split_key( pol, safe, pos, req, eff, what );
        if ( !report_wanted( "C25", key )) return;
        std::string ws = "[";
        for ( unsigned i = 0; i < nw; ++i ) { if ( i ) ws += ","; ws += num( w[i] ); }
        ws += "]";
        violation( "C25", key,
                pol.name + ": " + ( safe ? "safe_cut(" : "cut(" ) + num( req ) + ") at bit offset " + num( pos ) + " (call #" + num( idx ) + " of widths " + ws + ", source bytes " + bytes_hex( bytes, pol.nbits / 8 )
                + "): " + what + " is " + hxs( got ) + ", the bit-string model gives " + hxs( exp ),
                "{\"splitter\":" + jstr( pol.name ) + ",\"source_bytes_memory_order\":" + bytes_hex( bytes, pol.nbits / 8 ) + ",\"widths\":" + ws + ",\"mode\":" + ( safe ? "\"safe_cut\"" : "\"cut\"" )
                + ",\"call_index\":" + num( idx ) + ",\"bit_offset\":" + num( pos ) + ",\"requested\":" + num( req ) + ",\"bits_expected\":" + num( eff ) + ",\"what\":" + jstr( what )
                + ",\"expected\":" + hx( exp ) + ",\"actual\":" + hx( got ) + "}" );
    }

    // Runs one cut sequence. cut mode: the widths sum to at most nbits. safe mode: any accepted widths; the model clips to the rest.
    template <class Splitter, class Source>
    bool run_seq( SplitPolicy const& pol, Source const& src, const uint8_t* bytes, const unsigned* w, unsigned nw, bool safe, SeqAcc& A )
    {
        typedef typename Splitter::uint_type R;
        typedef typename std::make_unsigned<R>::type UR;
        unsigned const nbits = pol.nbits;
        ++A.sequences;
        Splitter s( src );
        unsigned pos = 0;
        uint64_t assembled[4] = { 0, 0, 0, 0 };
#define PURE_STATE( idx, req, eff ) \
        if ( s.bit_offset() != pos ) { split_fail( pol, bytes, w, nw, safe, idx, pos - eff, req, eff, "bit_offset", s.bit_offset(), pos, A ); return false; } \
        if ( s.rest_count() != nbits - pos ) { split_fail( pol, bytes, w, nw, safe, idx, pos - eff, req, eff, "rest_count", s.rest_count(), nbits - pos, A ); return false; } \
        if ( s.eos() != ( pos >= nbits )) { split_fail( pol, bytes, w, nw, safe, idx, pos - eff, req, eff, "eos", s.eos(), pos >= nbits, A ); return false; } \
        if ( bool( s ) == s.eos()) { split_fail( pol, bytes, w, nw, safe, idx, pos - eff, req, eff, "operator-bool", bool( s ), !s.eos(), A ); return false; }
        PURE_STATE( 0, 0, 0 )
        for ( unsigned i = 0; i < nw; ++i ) {
            unsigned const req = w[i];
            unsigned const rest = nbits - pos;
            unsigned eff = req;
            if ( safe ) { if ( eff > rest ) eff = rest; }
            else if ( req > rest || rest == 0 ) harness_failure( "cut sequence violates the precondition of cut()" );
            UR got = UR( safe ? call_safe_cut( s, req ) : call_cut( s, req ));
            ++A.cuts;
            uint64_t exp = ref_bits( bytes, pos, eff );
            if ( uint64_t( got ) != exp ) { split_fail( pol, bytes, w, nw, safe, i, pos, req, eff, "returned-field", uint64_t( got ), exp, A ); return false; }
            for ( unsigned j = 0; j < eff; ++j ) assembled[( pos + j ) / 64] |= (( exp >> j ) & 1 ) << (( pos + j ) % 64 );
            pos += eff;
            PURE_STATE( i, req, eff )
        }
        if ( pos == nbits ) {
            for ( unsigned i = 0; i < nbits; ++i )
                if ((( assembled[i / 64] >> ( i % 64 )) & 1 ) != (( bytes[i / 8] >> ( i % 8 )) & 1u )) {
                    split_fail( pol, bytes, w, nw, safe, nw, pos, 0, 0, "reassembled-source-bit", ( assembled[i / 64] >> ( i % 64 )) & 1, ( bytes[i / 8] >> ( i % 8 )) & 1u, A ); return false; }
            // past the end: safe_cut returns 0 and changes nothing
            unsigned wq = pol.max_ok;
            UR z = UR( call_safe_cut( s, wq ));
            if ( z != 0 ) { split_fail( pol, bytes, w, nw, true, nw, pos, wq, 0, "safe_cut-after-eos", uint64_t( z ), 0, A ); return false; }
            PURE_STATE( nw, wq, 0 )
        }
        // reset
        s.reset();
        pos = 0;
        PURE_STATE( nw + 1, 0, 0 )
        if ( nw && w[0] && nbits ) {
            unsigned eff = std::min( w[0], nbits );
            UR got = UR( safe ? call_safe_cut( s, w[0] ) : call_cut( s, w[0] ));
            uint64_t exp = ref_bits( bytes, 0, eff );
            if ( uint64_t( got ) != exp ) { split_fail( pol, bytes, w, nw, safe, 0, 0, w[0], eff, "returned-field-after-reset", uint64_t( got ), exp, A ); return false; }
        }
#undef PURE_STATE
        return true;
    }

    // offset constructors: a splitter started at bit offset `off` continues exactly where a splitter that cut `off` bits would be
    template <class Splitter, class Source>
    bool run_offset( SplitPolicy const& pol, Source const& src, const uint8_t* bytes, unsigned off, unsigned width, SeqAcc& A )
    {
        typedef typename Splitter::uint_type R;
        typedef typename std::make_unsigned<R>::type UR;
        ++A.sequences;
        Splitter s( src, size_t( off ));
        unsigned w[1] = { width };
        if ( s.bit_offset() != off ) { split_fail( pol, bytes, w, 1, false, 0, off, width, width, "bit_offset-after-offset-constructor", s.bit_offset(), off, A ); return false; }
        if ( s.eos()) { split_fail( pol, bytes, w, 1, false, 0, off, width, width, "eos-after-offset-constructor", 1, 0, A ); return false; }
        UR got = UR( call_cut( s, width ));
        ++A.cuts;
        uint64_t exp = ref_bits( bytes, off, width );
        if ( uint64_t( got ) != exp ) { split_fail( pol, bytes, w, 1, false, 0, off, width, width, "returned-field-after-offset-constructor", uint64_t( got ), exp, A ); return false; }
        if ( s.bit_offset() != off + width ) { split_fail( pol, bytes, w, 1, false, 0, off, width, width, "bit_offset", s.bit_offset(), off + width, A ); return false; }
        return true;
    }

    inline void fill_source( uint8_t* p, unsigned nbytes, Rng& g )
    {
        unsigned cls = g.below( 10 );
        for ( unsigned i = 0; i < nbytes; ++i ) {
            uint8_t b = uint8_t( g.next() >> 24 );
            switch ( cls ) {
            case 0: b = 0; break;
            case 1: b = 0xff; break;
            case 2: b = ( i & 1 ) ? 0xaa : 0x55; break;
            case 3: b = uint8_t( 0x10 + 0x22 * i ); break;
            case 4: b &= uint8_t( g.next() >> 24 ); break;
            case 5: b |= uint8_t( g.next() >> 24 ); break;
            default: break;
            }
            p[i] = b;
        }
        if ( cls == 6 ) p[nbytes - 1] |= 0x80;      // last bit set: sign bit of signed number sources
        if ( cls == 7 ) { memset( p, 0, nbytes ); p[g.below( nbytes )] = uint8_t( 1u << g.below( 8 )); }
    }

    template <class Splitter, class Source>
    struct SplitSuite {
        SplitPolicy pol;
        Source* src;        // at the very end of a heap block of exactly nbits/8 bytes (ASan red zone follows)
        uint8_t* raw;
        SeqAcc acc;
        std::unordered_set<uint64_t> fps;
        uint64_t fp_dropped = 0;
        std::string sample;

        explicit SplitSuite( SplitPolicy const& p ) : pol( p )
        {
            raw = static_cast<uint8_t*>( tail_alloc( pol.nbits / 8 ));
            src = reinterpret_cast<Source*>( raw );
        }
        ~SplitSuite() { free( raw ); }

        void one( const unsigned* w, unsigned nw, bool safe )
        {
            bool ok = run_seq<Splitter, Source>( pol, *src, raw, w, nw, safe, acc );
            uint64_t h = safe ? 0x5afe : 0xc07;
            for ( unsigned i = 0; i < nw; ++i ) h = mix64( h ^ w[i] );
            if ( fps.size() < 120000 ) fps.insert( h ); else ++fp_dropped;      // keep the per-property fingerprint set below its cap
            if ( ok && sample.empty() && nw >= 3 && nw <= 8 && raw[0] != 0 && raw[0] != 0xff ) {
                std::string ws = "[", fs = "[";
                unsigned pos = 0;
                for ( unsigned i = 0; i < nw; ++i ) {
                    unsigned eff = std::min( w[i], pol.nbits - pos );
                    if ( i ) { ws += ","; fs += ","; }
                    ws += num( w[i] ); fs += hx( ref_bits( raw, pos, eff ));
                    pos += eff;
                }
                sample = "{\"case\":\"splitter\",\"splitter\":" + jstr( pol.name ) + ",\"source_bytes_memory_order\":" + bytes_hex( raw, pol.nbits / 8 ) + ",\"mode\":" + ( safe ? "\"safe_cut\"" : "\"cut\"" )
                         + ",\"widths\":" + ws + "],\"fields_expected_and_returned\":" + fs + "],\"reassembled_equals_source\":true}";
            }
        }

        // all compositions of nbits into accepted widths (units of pol.step), for the sources produced by next_source
        template <class SrcGen>
        void exhaustive( unsigned max_parts, SrcGen gen, uint64_t nsources )
        {
            unsigned const units = pol.nbits / pol.step;
            std::vector<unsigned> w;
            for ( uint32_t mask = 0; mask < ( uint32_t( 1 ) << ( units - 1 )); ++mask ) {
                w.clear();
                unsigned cur = 1;
                for ( unsigned u = 0; u + 1 < units; ++u ) {
                    if (( mask >> u ) & 1 ) { w.push_back( cur * pol.step ); cur = 1; }
                    else ++cur;
                }
                w.push_back( cur * pol.step );
                if ( w.size() > max_parts ) continue;
                bool accepted = true;
                for ( unsigned x : w ) if ( x >= pol.ok.size() || !pol.ok[x] ) accepted = false;
                if ( !accepted ) continue;
                std::vector<unsigned> over( w );
                over.back() = pol.max_ok;           // last request larger than the rest (if a larger width is accepted)
                for ( uint64_t si = 0; si < nsources; ++si ) {
                    gen( raw, si ^ ( uint64_t( mask ) << 20 ));
                    one( w.data(), unsigned( w.size()), false );
                    one( w.data(), unsigned( w.size()), true );
                    if ( over.back() > w.back()) one( over.data(), unsigned( over.size()), true );
                }
            }
        }

        // seeded random sequences
        void random( uint64_t n, Rng& g )
        {
            std::vector<unsigned> oks;
            for ( unsigned x = 0; x < pol.ok.size(); ++x ) if ( pol.ok[x] ) oks.push_back( x );
            std::vector<unsigned> w;
            for ( uint64_t it = 0; it < n; ++it ) {
                fill_source( raw, pol.nbits / 8, g );
                bool safe = g.chance( 1, 2 );
                unsigned style = g.below( 4 );     // 0 small, 1 any, 2 large, 3 fixed width
                unsigned fixed = oks[g.below( unsigned( oks.size()))];
                if ( fixed == 0 ) fixed = pol.step;
                w.clear();
                unsigned pos = 0, guard = 0;
                while ( pos < pol.nbits && ++guard < 400 ) {
                    unsigned x;
                    if ( style == 3 ) x = fixed;
                    else if ( style == 0 ) x = oks[g.below( std::min<unsigned>( unsigned( oks.size()), 10 ))];
                    else if ( style == 2 ) x = oks[oks.size() - 1 - g.below( std::min<unsigned>( unsigned( oks.size()), 12 ))];
                    else x = oks[g.below( unsigned( oks.size()))];
                    unsigned rest = pol.nbits - pos;
                    if ( !safe && x > rest ) {
                        x = rest;                   // cut() must stay inside the string
                        if ( x >= pol.ok.size() || !pol.ok[x] ) { x = 0; for ( unsigned y : oks ) if ( y <= rest ) x = y; if ( x == 0 ) break; }
                    }
                    w.push_back( x );
                    pos += std::min( x, rest );
                    if ( x == 0 && g.chance( 1, 2 )) continue;
                    if ( g.chance( 1, 40 )) break;  // sequences that stop before the end
                }
                one( w.data(), unsigned( w.size()), safe );
                if ( g.chance( 1, 4 )) {
                    // offset constructor (FeldmanHashSet::expand_slot): offset inside the string, one cut that fits
                    unsigned off = g.below( pol.nbits / pol.step ) * pol.step;
                    unsigned rest = pol.nbits - off;
                    unsigned x = 0;
                    for ( unsigned y : oks ) if ( y <= rest && ( x == 0 || g.chance( 1, 3 ))) x = y;
                    if ( x ) run_offset<Splitter, Source>( pol, *src, raw, off, x, acc );
                }
            }
        }

        void flush( const char* variant )
        {
            PropStats& ps = prop( "C25" );
            ps.evaluations.fetch_add( acc.sequences );
            ps.nontrivial.fetch_add( acc.sequences );
            ps.operations.fetch_add( acc.cuts );
            for ( uint64_t f : fps ) ps.add_fp( mix64( std::hash<std::string>()( pol.name )) ^ f );
            ps.add_extra( "splitter_sequences", acc.sequences );
            ps.add_extra( "splitter_cut_calls", acc.cuts );
            ps.add_extra( "splitter_sequences_failed", acc.failed );
            ps.add_extra( "splitter_sequence_fingerprints_not_recorded(per-suite cap 120000)", fp_dropped );
            ps.add_variant( variant, acc.sequences );
            if ( !sample.empty() && ps.need_sample( 8 ) && pol.nbits == 64 ) ps.add_sample( sample, 8 );
        }
    };

    // ---- policies
    template <class UInt>
    SplitPolicy bitstring_policy( std::string const& name, unsigned nbits )
    {
        SplitPolicy p; p.name = name; p.nbits = nbits; p.step = 1;
        unsigned maxw = unsigned( sizeof( UInt ) * 8 );       // documented: at most sizeof(UInt)*8 bits per call
        p.ok.assign( maxw + 1, 1 );
        p.finish();
        return p;
    }
    template <class UInt>
    SplitPolicy byte_policy( std::string const& name, unsigned nbits )
    {
        SplitPolicy p; p.name = name; p.nbits = nbits; p.step = 8; p.is_byte = true;
        unsigned maxw = unsigned( sizeof( UInt ) * 8 );
        p.ok.assign( maxw + 1, 0 );
        for ( unsigned w = 0; w <= maxw; w += 8 ) p.ok[w] = 1;  // is_correct(): multiples of 8
        p.finish();
        return p;
    }
    template <class Int>
    SplitPolicy number_policy( std::string const& name, unsigned )
    {
        typedef cds::algo::number_splitter<Int> S;
        SplitPolicy p; p.name = name; p.nbits = unsigned( sizeof( Int ) * 8 ); p.step = 1; p.is_number = true;
        p.ok.assign( p.nbits + 1, 0 );
        for ( unsigned w = 0; w <= p.nbits; ++w ) p.ok[w] = S::is_correct( w ) ? 1 : 0;     // count < bits
#ifdef PURE_SANITIZED
        // widths whose mask computation is UB are found in forked probes, reported, and kept out of the in-process run
        for ( unsigned w = 31; w < p.nbits; ++w ) {
            if ( !p.ok[w] ) continue;
            if ( !probe_selected( w )) { p.ok[w] = 0; continue; }      // not probed => not used in this (sanitized, quick) run
            ProbeResult pr = ub_probe( [w]() {
                volatile Int v = Int( 0x5A5A5A5AA5A5A5A5ull );
                S s( v );
                volatile Int r = call_cut( s, w );
                (void) r;
            } );
            if ( pr.ok ) continue;
            p.ok[w] = 0;
            std::string key = ( p.nbits == 64 && w >= 32 && pr.is( "shift exponent" )) ? std::string( "number_splitter64:cut>=32" ) : "number_splitter:cut:" + ub_class( pr );
            report( "C25", key, name + "::cut(" + num( w ) + ") executes undefined behaviour: " + pr.msg + " at " + pr.where,
                    "{\"splitter\":" + jstr( name ) + ",\"width\":" + num( w ) + ",\"probe\":" + pr.json() + "}" );
        }
#endif
        p.finish();
        return p;
    }

    // safe_cut( count >= width ) on a fresh number_splitter: "if count is more than the rest, only the rest is returned", i.e. the whole
    // number; the splitter is then at eos. cut() itself cannot take the full width (is_correct), so safe_cut has to handle it. Every case
    // runs in a forked child in every build: a libcds assert or a sanitizer report there becomes a finding instead of ending the run.
    template <class Int>
    void number_whole_safe_cut( std::string const& name )
    {
        typedef cds::algo::number_splitter<Int> S;
        typedef typename std::make_unsigned<Int>::type UInt;
        unsigned const nbits = unsigned( sizeof( Int ) * 8 );
        PropStats& ps = prop( "C25" );
        const unsigned widths[] = { nbits, nbits + 1, nbits + 8, 2 * nbits };
        const uint64_t pats[] = { 0x5A5A5A5AA5A5A5A5ull, ~0ull, 0x8000000000000001ull };
        for ( unsigned w : widths ) {
            for ( uint64_t pat : pats ) {
                fflush( stdout ); fflush( stderr );
                int fd[2];
                if ( pipe( fd ) != 0 ) harness_failure( "pipe() failed" );
                pid_t pid = fork();
                if ( pid < 0 ) harness_failure( "fork() failed" );
                if ( pid == 0 ) {
                    close( fd[0] ); dup2( fd[1], 2 ); close( fd[1] );
                    volatile Int v = Int( pat );
                    S s( v );
                    UInt got = UInt( call_safe_cut( s, w ));
                    bool ok = got == UInt( Int( pat )) && s.eos() && s.rest_count() == 0 && s.bit_offset() == nbits;
                    if ( !ok ) fprintf( stderr, "returned %llx, eos=%d, bit_offset=%u\n", ( unsigned long long ) got, int( s.eos()), unsigned( s.bit_offset()));
                    _exit( ok ? 0 : 3 );
                }
                close( fd[1] );
                std::string out; char buf[2048]; ssize_t n;
                while ( out.size() < 6000 && ( n = read( fd[0], buf, sizeof buf )) > 0 ) out.append( buf, size_t( n ));
                if ( out.size() >= 6000 ) kill( pid, SIGKILL );
                close( fd[0] );
                int st = 0; waitpid( pid, &st, 0 );
                ps.evaluations.fetch_add( 1 ); ps.operations.fetch_add( 1 ); ps.nontrivial.fetch_add( 1 );
                ps.add_fp( mix64( std::hash<std::string>()( name )) ^ mix64( w * 131 + ( pat & 0xff )));
                if ( WIFEXITED( st ) && WEXITSTATUS( st ) == 0 ) continue;
                size_t p = out.find( "runtime error: " );
                if ( p == std::string::npos ) p = out.find( "Assertion" );
                if ( p == std::string::npos ) p = 0;
                size_t e = out.find( '\n', p );
                std::string first = out.substr( p, ( e == std::string::npos ? out.size() : e ) - p ).substr( 0, 300 );
                report( "C25", "number_splitter:safe_cut-whole-number",
                        name + "::safe_cut(" + num( w ) + ") on a fresh splitter over " + hxs( uint64_t( UInt( Int( pat )))) + " must return the whole number and reach eos; "
                        + (( WIFEXITED( st ) && WEXITSTATUS( st ) == 3 ) ? "it " + first : "the call did not survive: " + first ),
                        "{\"splitter\":" + jstr( name ) + ",\"width\":" + num( w ) + ",\"value\":" + hx( uint64_t( UInt( Int( pat )))) + ",\"child\":" + jstr( first ) + "}" );
                return;
            }
        }
    }

    inline void gen8( uint8_t* raw, uint64_t i ) { raw[0] = uint8_t( i ); }
    inline void gen16_all( uint8_t* raw, uint64_t i ) { raw[0] = uint8_t( i ); raw[1] = uint8_t( i >> 8 ); }
    struct Gen16Sample {
        uint64_t seed;
        void operator()( uint8_t* raw, uint64_t i ) const
        {
            static const uint16_t fixed[] = { 0x0000, 0xffff, 0x8000, 0x0001, 0xaaaa, 0x5555, 0x00ff, 0xff00, 0x8001, 0x7ffe, 0x1234, 0xfedc };
            unsigned si = unsigned( i & 0xfffff );
            uint16_t v = si < sizeof( fixed ) / sizeof( fixed[0] ) ? fixed[si] : uint16_t( mix64( i ^ seed ));
            raw[0] = uint8_t( v ); raw[1] = uint8_t( v >> 8 );
        }
    };

    template <class Splitter, class Source>
    void split_variant( std::string const& vname, SplitPolicy ( *make_policy )( std::string const&, unsigned ), unsigned nbits )
    {
        if ( !begin_variant( vname )) return;
        Args& a = args();
        SplitPolicy pol = make_policy( vname.substr( 4 ), nbits );
        SplitSuite<Splitter, Source> su( pol );
        Rng g( mix64( a.seed ) ^ std::hash<std::string>()( vname ));
        {
            // fixed, readable first cases (they become the stored witnesses if the splitter deviates)
            unsigned const nb = pol.nbits / 8;
            for ( unsigned i = 0; i < nb; ++i ) su.raw[i] = uint8_t( 0x11 * (( i % 15 ) + 1 ));
            if ( pol.is_number && pol.nbits == 64 ) {
                const uint64_t v = 0x123456789ABCDEF0ull;
                memcpy( su.raw, &v, 8 );
                unsigned w[2] = { 40, 24 };
                if ( pol.ok[40] ) { su.one( w, 2, false ); su.one( w, 2, true ); }
            }
            std::vector<unsigned> w8( nb, 8 );
            if ( pol.ok.size() > 8 && pol.ok[8] ) { su.one( w8.data(), nb, false ); su.one( w8.data(), nb, true ); }
        }
        if ( pol.nbits == 8 ) {
            su.exhaustive( 64, gen8, 256 );
            prop( "C25" ).add_extra( "splitter_8bit_sources_x_all_compositions_exhaustive", 1 );
        }
        else if ( pol.nbits == 16 ) {
            su.exhaustive( 64, Gen16Sample{ a.seed }, budget( 6, 512 ));
            su.exhaustive( a.thorough ? 3 : 2, gen16_all, 65536 );
        }
        su.random( pol.nbits <= 16 ? budget( 20000, 400000 ) : budget( 60000, 3000000 ), g );
        su.flush( vname.c_str());
    }

    inline void c25_splitters()
    {
        using namespace cds::algo;
        // bit-string splitter: integral and byte-array sources, default and wide result types, BitStringSize < sizeof
        split_variant< split_bitstring<uint8_t>, uint8_t >( "C25.split_bitstring<u8>", &bitstring_policy<unsigned>, 8 );
        split_variant< split_bitstring<uint16_t>, uint16_t >( "C25.split_bitstring<u16>", &bitstring_policy<unsigned>, 16 );
        split_variant< split_bitstring<Bytes<2>>, Bytes<2> >( "C25.split_bitstring<bytes2>", &bitstring_policy<unsigned>, 16 );
        split_variant< split_bitstring<uint32_t>, uint32_t >( "C25.split_bitstring<u32>", &bitstring_policy<unsigned>, 32 );
        split_variant< split_bitstring<uint64_t>, uint64_t >( "C25.split_bitstring<u64>", &bitstring_policy<unsigned>, 64 );
        split_variant< split_bitstring<uint64_t, 0, size_t>, uint64_t >( "C25.split_bitstring<u64,0,size_t>", &bitstring_policy<size_t>, 64 );
        split_variant< split_bitstring<uint64_t, 6, size_t>, uint64_t >( "C25.split_bitstring<u64,6,size_t>", &bitstring_policy<size_t>, 48 );
        split_variant< split_bitstring<Bytes<3>>, Bytes<3> >( "C25.split_bitstring<bytes3>", &bitstring_policy<unsigned>, 24 );
        split_variant< split_bitstring<Bytes<20>, 20, size_t>, Bytes<20> >( "C25.split_bitstring<bytes20,20,size_t>", &bitstring_policy<size_t>, 160 );
        // byte splitter
        split_variant< byte_splitter<uint8_t>, uint8_t >( "C25.byte_splitter<u8>", &byte_policy<unsigned>, 8 );
        split_variant< byte_splitter<uint16_t>, uint16_t >( "C25.byte_splitter<u16>", &byte_policy<unsigned>, 16 );
        split_variant< byte_splitter<uint32_t>, uint32_t >( "C25.byte_splitter<u32>", &byte_policy<unsigned>, 32 );
        split_variant< byte_splitter<uint64_t>, uint64_t >( "C25.byte_splitter<u64>", &byte_policy<unsigned>, 64 );
        split_variant< byte_splitter<uint64_t, 0, size_t>, uint64_t >( "C25.byte_splitter<u64,0,size_t>", &byte_policy<size_t>, 64 );
        split_variant< byte_splitter<Bytes<20>, 20, size_t>, Bytes<20> >( "C25.byte_splitter<bytes20,20,size_t>", &byte_policy<size_t>, 160 );
        // number splitter (the source is copied; the heap block only supplies the value)
        split_variant< number_splitter<uint8_t>, uint8_t >( "C25.number_splitter<u8>", &number_policy<uint8_t>, 0 );
        split_variant< number_splitter<uint16_t>, uint16_t >( "C25.number_splitter<u16>", &number_policy<uint16_t>, 0 );
        split_variant< number_splitter<short>, short >( "C25.number_splitter<short>", &number_policy<short>, 0 );
        split_variant< number_splitter<unsigned>, unsigned >( "C25.number_splitter<unsigned>", &number_policy<unsigned>, 0 );
        split_variant< number_splitter<int>, int >( "C25.number_splitter<int>", &number_policy<int>, 0 );
        split_variant< number_splitter<unsigned long>, unsigned long >( "C25.number_splitter<ulong>", &number_policy<unsigned long>, 0 );
        split_variant< number_splitter<long long>, long long >( "C25.number_splitter<longlong>", &number_policy<long long>, 0 );
        split_variant< number_splitter<unsigned long long>, unsigned long long >( "C25.number_splitter<ulonglong>", &number_policy<unsigned long long>, 0 );
        if ( begin_variant( "C25.number_splitter.safe_cut-whole-number" )) {
            number_whole_safe_cut<uint8_t>( "number_splitter<u8>" );
            number_whole_safe_cut<short>( "number_splitter<short>" );
            number_whole_safe_cut<unsigned>( "number_splitter<unsigned>" );
            number_whole_safe_cut<int>( "number_splitter<int>" );
            number_whole_safe_cut<unsigned long long>( "number_splitter<ulonglong>" );
            number_whole_safe_cut<long long>( "number_splitter<longlong>" );
        }
    }
} // namespace pure
#endif
