// Instrumented atomics for the libcds verification build (-DKHIZMAX_LIBCDS_VERIF).
// cds/algo/atomic.h points the `atomics` namespace alias here. Every member performs the
// SAME operation with the SAME memory order on an embedded std::atomic<T>, preceded (and, for
// writing operations, followed) by a call to the perturbation engine (cds_verif_point), which may
// delay or deschedule the thread.
#ifndef CDS_VERIF_ATOMIC_H
#define CDS_VERIF_ATOMIC_H

#include <atomic>
#include <cstddef>
#include <cstdint>
#include <type_traits>

extern "C" {
    // kind: 0 load, 1 store, 2 rmw, 3 cas, 4 fence, 5 spin hint, 6 after a store / rmw / cas (the value is published, the
    // thread's next non-atomic action can be delayed: publish-before-fill and release-before-cleanup windows)
    void cds_verif_point( int kind, const volatile void * addr ) noexcept;
}

namespace cds_verif { namespace atomics {

    using std::memory_order;
    using std::memory_order_relaxed;
    using std::memory_order_consume;
    using std::memory_order_acquire;
    using std::memory_order_release;
    using std::memory_order_acq_rel;
    using std::memory_order_seq_cst;

    inline void atomic_thread_fence( memory_order mo ) noexcept
    {
        cds_verif_point( 4, nullptr );
        std::atomic_thread_fence( mo );
    }
    inline void atomic_signal_fence( memory_order mo ) noexcept
    {
        std::atomic_signal_fence( mo );
    }

    namespace detail {

#define CDSV_CV_BOTH(M) M() M(volatile)

        // generic: load/store/exchange/CAS
        template <typename T>
        class atomic_generic
        {
        protected:
            std::atomic<T> m_a;
        public:
            atomic_generic() noexcept = default;
            constexpr atomic_generic( T v ) noexcept : m_a( v ) {}
            atomic_generic( atomic_generic const& ) = delete;
            atomic_generic& operator=( atomic_generic const& ) = delete;
            atomic_generic& operator=( atomic_generic const& ) volatile = delete;

#define CDSV_GEN(CV) \
            bool is_lock_free() const CV noexcept { return m_a.is_lock_free(); } \
            void store( T v, memory_order mo = memory_order_seq_cst ) CV noexcept { cds_verif_point( 1, this ); m_a.store( v, mo ); cds_verif_point( 6, this ); } \
            T load( memory_order mo = memory_order_seq_cst ) const CV noexcept { cds_verif_point( 0, this ); return m_a.load( mo ); } \
            operator T() const CV noexcept { return load(); } \
            T exchange( T v, memory_order mo = memory_order_seq_cst ) CV noexcept { cds_verif_point( 2, this ); T r = m_a.exchange( v, mo ); cds_verif_point( 6, this ); return r; } \
            bool compare_exchange_weak( T& e, T d, memory_order s, memory_order f ) CV noexcept { cds_verif_point( 3, this ); bool r = m_a.compare_exchange_weak( e, d, s, f ); cds_verif_point( 6, this ); return r; } \
            bool compare_exchange_strong( T& e, T d, memory_order s, memory_order f ) CV noexcept { cds_verif_point( 3, this ); bool r = m_a.compare_exchange_strong( e, d, s, f ); cds_verif_point( 6, this ); return r; } \
            bool compare_exchange_weak( T& e, T d, memory_order mo = memory_order_seq_cst ) CV noexcept { cds_verif_point( 3, this ); bool r = m_a.compare_exchange_weak( e, d, mo ); cds_verif_point( 6, this ); return r; } \
            bool compare_exchange_strong( T& e, T d, memory_order mo = memory_order_seq_cst ) CV noexcept { cds_verif_point( 3, this ); bool r = m_a.compare_exchange_strong( e, d, mo ); cds_verif_point( 6, this ); return r; }
            CDSV_CV_BOTH(CDSV_GEN)
#undef CDSV_GEN
        };

        template <typename T>
        class atomic_integral: public atomic_generic<T>
        {
            typedef atomic_generic<T> base;
        public:
            atomic_integral() noexcept = default;
            constexpr atomic_integral( T v ) noexcept : base( v ) {}
#define CDSV_INT(CV) \
            T fetch_add( T v, memory_order mo = memory_order_seq_cst ) CV noexcept { cds_verif_point( 2, this ); auto r = this->m_a.fetch_add( v, mo ); cds_verif_point( 6, this ); return r; } \
            T fetch_sub( T v, memory_order mo = memory_order_seq_cst ) CV noexcept { cds_verif_point( 2, this ); auto r = this->m_a.fetch_sub( v, mo ); cds_verif_point( 6, this ); return r; } \
            T fetch_and( T v, memory_order mo = memory_order_seq_cst ) CV noexcept { cds_verif_point( 2, this ); auto r = this->m_a.fetch_and( v, mo ); cds_verif_point( 6, this ); return r; } \
            T fetch_or( T v, memory_order mo = memory_order_seq_cst ) CV noexcept { cds_verif_point( 2, this ); auto r = this->m_a.fetch_or( v, mo ); cds_verif_point( 6, this ); return r; } \
            T fetch_xor( T v, memory_order mo = memory_order_seq_cst ) CV noexcept { cds_verif_point( 2, this ); auto r = this->m_a.fetch_xor( v, mo ); cds_verif_point( 6, this ); return r; } \
            T operator++() CV noexcept { return fetch_add( 1 ) + 1; } \
            T operator++(int) CV noexcept { return fetch_add( 1 ); } \
            T operator--() CV noexcept { return fetch_sub( 1 ) - 1; } \
            T operator--(int) CV noexcept { return fetch_sub( 1 ); } \
            T operator+=( T v ) CV noexcept { return fetch_add( v ) + v; } \
            T operator-=( T v ) CV noexcept { return fetch_sub( v ) - v; } \
            T operator&=( T v ) CV noexcept { return fetch_and( v ) & v; } \
            T operator|=( T v ) CV noexcept { return fetch_or( v ) | v; } \
            T operator^=( T v ) CV noexcept { return fetch_xor( v ) ^ v; }
            CDSV_CV_BOTH(CDSV_INT)
#undef CDSV_INT
        };

        template <typename P>
        class atomic_pointer: public atomic_generic<P>
        {
            typedef atomic_generic<P> base;
        public:
            atomic_pointer() noexcept = default;
            constexpr atomic_pointer( P v ) noexcept : base( v ) {}
#define CDSV_PTR(CV) \
            P fetch_add( std::ptrdiff_t v, memory_order mo = memory_order_seq_cst ) CV noexcept { cds_verif_point( 2, this ); auto r = this->m_a.fetch_add( v, mo ); cds_verif_point( 6, this ); return r; } \
            P fetch_sub( std::ptrdiff_t v, memory_order mo = memory_order_seq_cst ) CV noexcept { cds_verif_point( 2, this ); auto r = this->m_a.fetch_sub( v, mo ); cds_verif_point( 6, this ); return r; } \
            P operator++() CV noexcept { return fetch_add( 1 ) + 1; } \
            P operator++(int) CV noexcept { return fetch_add( 1 ); } \
            P operator--() CV noexcept { return fetch_sub( 1 ) - 1; } \
            P operator--(int) CV noexcept { return fetch_sub( 1 ); } \
            P operator+=( std::ptrdiff_t v ) CV noexcept { return fetch_add( v ) + v; } \
            P operator-=( std::ptrdiff_t v ) CV noexcept { return fetch_sub( v ) - v; }
            CDSV_CV_BOTH(CDSV_PTR)
#undef CDSV_PTR
        };

        template <typename T>
        struct select_base
        {
            typedef typename std::conditional<
                std::is_integral<T>::value && !std::is_same<T, bool>::value,
                atomic_integral<T>,
                typename std::conditional< std::is_pointer<T>::value && !std::is_void<typename std::remove_pointer<T>::type>::value
                    && !std::is_function<typename std::remove_pointer<T>::type>::value,
                    atomic_pointer<T>, atomic_generic<T> >::type
            >::type type;
        };
    } // namespace detail

    template <typename T>
    class atomic: public detail::select_base<T>::type
    {
        typedef typename detail::select_base<T>::type base;
    public:
        atomic() noexcept = default;
        constexpr atomic( T v ) noexcept : base( v ) {}
        atomic( atomic const& ) = delete;
        atomic& operator=( atomic const& ) = delete;
        atomic& operator=( atomic const& ) volatile = delete;
        T operator=( T v ) noexcept { this->store( v ); return v; }
        T operator=( T v ) volatile noexcept { this->store( v ); return v; }
    };

    typedef atomic<bool>                atomic_bool;
    typedef atomic<char>                atomic_char;
    typedef atomic<signed char>         atomic_schar;
    typedef atomic<unsigned char>       atomic_uchar;
    typedef atomic<short>               atomic_short;
    typedef atomic<unsigned short>      atomic_ushort;
    typedef atomic<int>                 atomic_int;
    typedef atomic<unsigned int>        atomic_uint;
    typedef atomic<long>                atomic_long;
    typedef atomic<unsigned long>       atomic_ulong;
    typedef atomic<long long>           atomic_llong;
    typedef atomic<unsigned long long>  atomic_ullong;
    typedef atomic<std::size_t>         atomic_size_t;
    typedef atomic<std::ptrdiff_t>      atomic_ptrdiff_t;
    typedef atomic<std::intptr_t>       atomic_intptr_t;
    typedef atomic<std::uintptr_t>      atomic_uintptr_t;

}} // namespace cds_verif::atomics

#endif // CDS_VERIF_ATOMIC_H
